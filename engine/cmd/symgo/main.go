// Command symgo: symbolic execution of Go (go/ssa) harnesses with SMT.
package main

import (
	"encoding/json"
	"flag"
	"fmt"
	"os"
	"runtime/debug"
	"runtime/pprof"
	"strconv"
	"strings"
	"time"

	"symgo/interp"
)

func main() {
	if os.Getenv("GOGC") == "" {
		debug.SetGCPercent(400)
	}
	if len(os.Args) < 2 {
		fmt.Fprintln(os.Stderr, "usage: symgo run|check|replay ...")
		os.Exit(2)
	}
	switch os.Args[1] {
	case "run":
		cmdRun(os.Args[2:])
	case "check":
		cmdCheck(os.Args[2:])
	default:
		fmt.Fprintln(os.Stderr, "unknown command", os.Args[1])
		os.Exit(2)
	}
}

func cmdRun(argv []string) {
	fs := flag.NewFlagSet("run", flag.ExitOnError)
	repo := fs.String("repo", "/repo", "repository directory")
	hdir := fs.String("harness-dir", "/verif/harness", "harness overlay directory")
	pkgs := fs.String("pkgs", "./martian/core", "comma separated package patterns")
	hname := fs.String("H", "", "harness name")
	args := fs.String("args", "", "comma separated int args")
	workers := fs.Int("j", 16, "workers")
	trace := fs.Bool("trace", false, "trace")
	maxPaths := fs.Int("max-paths", 0, "max paths")
	maxSteps := fs.Int("max-steps", 0, "max steps per path")
	known := fs.String("known", "", "comma separated enabled known-finding exclusions")
	timeout := fs.Int("solver-timeout-ms", 10000, "per query timeout (incremental z3; unknown falls back to cvc5)")
	solver := fs.String("solver", "", "one-shot back end: cvc5-int|cvc5|z3-new")
	verbose := fs.Bool("v", false, "print init problems")
	cpuprof := fs.String("cpuprofile", "", "write cpu profile")
	fs.Parse(argv)
	if *cpuprof != "" {
		f, _ := os.Create(*cpuprof)
		pprof.StartCPUProfile(f)
		defer pprof.StopCPUProfile()
	}

	t0 := time.Now()
	prog, err := interp.Load(*repo, *hdir, strings.Split(*pkgs, ","))
	if err != nil {
		fmt.Fprintln(os.Stderr, "load:", err)
		os.Exit(2)
	}
	fmt.Fprintf(os.Stderr, "loaded in %.1fs; harnesses: %v\n", time.Since(t0).Seconds(), prog.HarnessNames())
	if *hname == "" {
		return
	}
	h := prog.Harnesses[*hname]
	if h == nil {
		fmt.Fprintln(os.Stderr, "no such harness")
		os.Exit(2)
	}
	if *trace {
		*workers = 1
	}
	t1 := time.Now()
	pool, err := interp.NewPool(prog, *workers, *timeout, prog.InitPackagesFor([]string{*hname}))
	if err != nil {
		fmt.Fprintln(os.Stderr, "pool:", err)
		os.Exit(2)
	}
	defer pool.Close()
	fmt.Fprintf(os.Stderr, "pool ready in %.1fs; init problems: %d\n", time.Since(t1).Seconds(), len(pool.InitProblems))
	if *verbose {
		for _, p := range pool.InitProblems {
			fmt.Fprintln(os.Stderr, "  init:", p)
		}
	}
	var iargs []int
	if *args != "" {
		for _, a := range strings.Split(*args, ",") {
			n, err := strconv.Atoi(a)
			if err != nil {
				fmt.Fprintln(os.Stderr, "bad arg", a)
				os.Exit(2)
			}
			iargs = append(iargs, n)
		}
	}
	cfg := interp.RunConfig{Harness: *hname, Args: iargs, Trace: *trace, MaxPaths: *maxPaths, MaxSteps: *maxSteps, Known: map[string]bool{}, Solver: *solver, TimeoutMs: *timeout}
	for _, k := range strings.Split(*known, ",") {
		if k != "" {
			cfg.Known[k] = true
		}
	}
	res, err := interp.Explore(prog, pool, cfg)
	if err != nil {
		fmt.Fprintln(os.Stderr, "explore:", err)
		os.Exit(2)
	}
	res.Functions = nil
	out, _ := json.MarshalIndent(res, "", " ")
	fmt.Println(string(out))
}
