package main

import (
	"encoding/json"
	"flag"
	"fmt"
	"hash/fnv"
	"os"
	"os/exec"
	"path/filepath"
	"sort"
	"strconv"
	"strings"
	"time"

	"symgo/interp"
	"symgo/smt"
)

// ---- configuration files

type tierCfg struct {
	// Ranges: one [lo,hi] per harness parameter; instances = cartesian product.
	Ranges [][2]int `json:"ranges"`
	// Instances: explicit argument tuples (used instead of Ranges when present).
	Instances [][]int `json:"instances,omitempty"`
	Solver    string  `json:"solver,omitempty"`
	MaxSteps  int     `json:"max_steps,omitempty"`
	MaxDecs   int     `json:"max_decs,omitempty"`
	MaxPaths  int     `json:"max_paths,omitempty"`
	MaxConc   int     `json:"max_conc,omitempty"`
	Skip      bool    `json:"skip,omitempty"`
}

type harnessCfg struct {
	Name     string   `json:"name"`
	Quick    tierCfg  `json:"quick"`
	Thorough tierCfg  `json:"thorough"`
	Covers   []string `json:"covers,omitempty"`  // labels that must be covered on some instance
	Asserts  []string `json:"asserts,omitempty"` // labels that must be reached on some instance
	What     string   `json:"what,omitempty"`
	// PanicsAreViolations: an uncaught Go panic / fatal / deadlock in the harness is a violation
	PanicsOK bool `json:"panics_ok,omitempty"`
}

type checkCfg struct {
	Property     string       `json:"property"`
	Packages     []string     `json:"packages"`
	Harnesses    []harnessCfg `json:"harnesses"`
	Functions    []string     `json:"functions_claimed,omitempty"` // substrings: functions that must be executed by some harness
	Outside      []string     `json:"outside_claim,omitempty"`
	Assumptions  []string     `json:"assumptions,omitempty"`
	Explanation  string       `json:"explanation,omitempty"`
	SolverTimeMs int          `json:"solver_timeout_ms,omitempty"`
	// LabelPrefixes: when set, only assertion labels starting with one of
	// these prefixes (e.g. "C02") — or with no Cnn prefix at all — count for
	// this property; the others belong to another property's check.
	LabelPrefixes []string `json:"label_prefixes,omitempty"`
}

type knownFinding struct {
	Property string `json:"property"`
	ID       string `json:"id"`
	Status   string `json:"status"` // known | fixed
	Harness  string `json:"harness,omitempty"`
	What     string `json:"what"`
	Commit   string `json:"commit,omitempty"`
}

type knownFile struct {
	Findings []knownFinding `json:"findings"`
}

// ---- evidence

type evidence struct {
	PropertyID  string                 `json:"property_id"`
	Tier        string                 `json:"tier"`
	Seed        int                    `json:"seed"`
	Level       string                 `json:"level"`
	Coverage    map[string]interface{} `json:"coverage"`
	Assumptions []string               `json:"assumptions"`
	WallS       float64                `json:"wall_s"`
	Violations  int                    `json:"violations"`
}

type replayCase struct {
	ID      string            `json:"id"`
	Harness string            `json:"harness"`
	Args    []int             `json:"args"`
	Model   map[string]uint64 `json:"model"`
	Known   []string          `json:"known"`
	Expect  string            `json:"expect,omitempty"` // label expected to fail ("" = none)
	Kind    string            `json:"kind,omitempty"`
	Detail  string            `json:"detail,omitempty"`
	Stubs   []string          `json:"stubs,omitempty"`
	Replay  string            `json:"replay,omitempty"` // native | interpreter
}

func verifDir() string {
	if d := os.Getenv("VERIF_DIR"); d != "" {
		return d
	}
	return "/verif"
}

func cmdCheck(argv []string) {
	fs := flag.NewFlagSet("check", flag.ExitOnError)
	repo := fs.String("repo", "/repo", "repository directory")
	workers := fs.Int("j", 16, "workers")
	only := fs.String("only", "", "run only this harness")
	fs.Parse(argv)
	if fs.NArg() < 1 {
		fmt.Fprintln(os.Stderr, "usage: symgo check [flags] <property> [quick|thorough]")
		os.Exit(2)
	}
	prop := fs.Arg(0)
	tier := "quick"
	if fs.NArg() > 1 {
		tier = fs.Arg(1)
	}
	if t := os.Getenv("VERIF_TIER"); t == "quick" || t == "thorough" {
		if fs.NArg() <= 1 {
			tier = t
		}
	}
	seed := 0
	if s := os.Getenv("VERIF_SEED"); s != "" {
		seed, _ = strconv.Atoi(s)
	}
	code := runCheck(*repo, prop, tier, seed, *workers, *only)
	os.Exit(code)
}

func expandRanges(r [][2]int) [][]int {
	out := [][]int{{}}
	for _, rg := range r {
		var next [][]int
		for _, pre := range out {
			for v := rg[0]; v <= rg[1]; v++ {
				next = append(next, append(append([]int(nil), pre...), v))
			}
		}
		out = next
	}
	return out
}

func runCheck(repo, prop, tier string, seed, workers int, only string) int {
	start := time.Now()
	vd := verifDir()
	var cfg checkCfg
	data, err := os.ReadFile(filepath.Join(vd, "checks", prop+".json"))
	if err != nil {
		fmt.Fprintln(os.Stderr, "no check configuration:", err)
		return 2
	}
	if err := json.Unmarshal(data, &cfg); err != nil {
		fmt.Fprintln(os.Stderr, "bad check configuration:", err)
		return 2
	}
	var kf knownFile
	if data, err := os.ReadFile(filepath.Join(vd, "known_findings.json")); err == nil {
		if err := json.Unmarshal(data, &kf); err != nil {
			fmt.Fprintln(os.Stderr, "bad known_findings.json:", err)
			return 2
		}
	}
	var known []knownFinding
	for _, k := range kf.Findings {
		if k.Property == prop && k.Status == "known" {
			known = append(known, k)
		}
	}

	// replay files are run-time output: drop those of earlier runs of this property
	if only == "" {
		os.RemoveAll(filepath.Join(vd, "replays", prop))
	}

	t0 := time.Now()
	prog, err := interp.Load(repo, filepath.Join(vd, "harness"), cfg.Packages)
	if err != nil {
		fmt.Fprintf(os.Stderr, "BUILD-FAILURE: harnesses do not build against the current tree:\n%v\n", err)
		writeEvidence(vd, prop, tier, seed, start, nil, nil, 0, []string{"build failure: " + firstLineS(err.Error())}, &cfg, nil, 0)
		return 2
	}
	loadS := time.Since(t0).Seconds()
	var hnames []string
	for _, h := range cfg.Harnesses {
		if prog.Harnesses[h.Name] == nil {
			fmt.Fprintf(os.Stderr, "BUILD-FAILURE: harness %s not found\n", h.Name)
			return 2
		}
		hnames = append(hnames, h.Name)
	}
	timeout := cfg.SolverTimeMs
	if timeout == 0 {
		timeout = 10000
	}
	pool, err := interp.NewPool(prog, workers, timeout, prog.InitPackagesFor(hnames))
	if err != nil {
		fmt.Fprintln(os.Stderr, "pool:", err)
		return 2
	}
	defer pool.Close()
	fmt.Fprintf(os.Stderr, "[%s %s] loaded %s in %.1fs, %d workers ready in %.1fs\n", prop, tier, strings.Join(cfg.Packages, ","), loadS, workers, time.Since(t0).Seconds()-loadS)

	type instResult struct {
		h   harnessCfg
		res *interp.RunResult
		// which known exclusions were enabled
		known []string
		probe string // id of the known finding being probed ("" = main run)
	}
	var results []instResult
	allKnownIDs := []string{}
	for _, k := range known {
		allKnownIDs = append(allKnownIDs, k.ID)
	}
	mkKnown := func(except string) (map[string]bool, []string) {
		m := map[string]bool{}
		var l []string
		for _, id := range allKnownIDs {
			if id != except {
				m[id] = true
				l = append(l, id)
			}
		}
		return m, l
	}
	var labelFilter func(string) bool
	if len(cfg.LabelPrefixes) > 0 {
		labelFilter = func(l string) bool { return labelCounts(cfg.LabelPrefixes, l) }
	}
	var cross []smt.OneShot
	if tier == "thorough" {
		cross = []smt.OneShot{smt.Z3New, smt.CVC5}
	}

	for _, h := range cfg.Harnesses {
		if only != "" && h.Name != only {
			continue
		}
		tc := h.Quick
		if tier == "thorough" && (len(h.Thorough.Ranges) > 0 || h.Thorough.MaxSteps > 0 || len(h.Thorough.Instances) > 0) {
			tc = h.Thorough
		}
		if tc.Skip {
			continue
		}
		insts := expandRanges(tc.Ranges)
		if len(tc.Instances) > 0 {
			insts = tc.Instances
		}
		for _, args := range insts {
			km, kl := mkKnown("")
			rc := interp.RunConfig{Harness: h.Name, Args: args, MaxSteps: tc.MaxSteps, MaxDecs: tc.MaxDecs, MaxPaths: tc.MaxPaths, MaxConc: tc.MaxConc,
				Known: km, LabelFilter: labelFilter, StopOnViolation: true, CrossCheck: cross, CrossTimeout: 20 * time.Second, Solver: tc.Solver}
			res, err := interp.Explore(prog, pool, rc)
			if err != nil {
				fmt.Fprintln(os.Stderr, "explore:", err)
				return 2
			}
			results = append(results, instResult{h: h, res: res, known: kl})
			fmt.Fprintf(os.Stderr, "  %s%v: %d paths, %d queries (%d assertion), %.1fs solver, %.1fs wall, violations=%d uncaught=%d inconclusive=%d\n",
				h.Name, args, res.Paths, res.Queries, res.AssertQ, res.SolverTime, res.Wall, len(res.Violations), len(res.UncaughtPanics), len(res.Inconclusive))
			// probe each known finding this harness consults
			for _, id := range res.KnownSeen {
				if !km[id] {
					continue
				}
				pm, pl := mkKnown(id)
				rc2 := rc
				rc2.Known = pm
				rc2.CrossCheck = nil
				rc2.MaxViolations = 3
				res2, err := interp.Explore(prog, pool, rc2)
				if err != nil {
					fmt.Fprintln(os.Stderr, "explore:", err)
					return 2
				}
				results = append(results, instResult{h: h, res: res2, known: pl, probe: id})
			}
		}
	}

	// ---- collect
	var cases []replayCase
	var inconclusive []string
	paths, queries, assertQ, crossN, crossU := 0, 0, 0, 0, 0
	solverT := 0.0
	coversSeen := map[string]bool{}
	assertsSeen := map[string]bool{}
	fnSeen := map[string]bool{}
	stubsUsed := map[string]int{}
	var samples []interface{}
	knownHit := map[string]*replayCase{}
	var newViol []replayCase
	perHarness := map[string]map[string]interface{}{}
	for _, r := range results {
		res := r.res
		paths += res.Paths
		queries += res.Queries
		assertQ += res.AssertQ
		solverT += res.SolverTime
		crossN += res.CrossChecked
		crossU += res.CrossUnknown
		hstats := perHarness[r.h.Name]
		if hstats == nil {
			hstats = map[string]interface{}{"instances": 0, "paths": 0, "queries": 0}
			perHarness[r.h.Name] = hstats
		}
		hstats["instances"] = hstats["instances"].(int) + 1
		hstats["paths"] = hstats["paths"].(int) + res.Paths
		hstats["queries"] = hstats["queries"].(int) + res.Queries
		for _, f := range res.Functions {
			fnSeen[f] = true
		}
		for k, n := range res.StubCalls {
			stubsUsed[k] += n
		}
		for _, m := range res.Inconclusive {
			inconclusive = append(inconclusive, fmt.Sprintf("%s%v: %s", r.h.Name, res.Args, m))
		}
		for _, d := range res.CrossDisagree {
			inconclusive = append(inconclusive, fmt.Sprintf("%s%v: solver disagreement: %s", r.h.Name, res.Args, d))
		}
		if r.probe == "" {
			for l, m := range res.Covers {
				if !coversSeen[l] {
					coversSeen[l] = true
					c := replayCase{ID: fmt.Sprintf("cover-%s-%s", r.h.Name, sanitize(l)), Harness: r.h.Name, Args: res.Args, Model: m, Known: r.known, Kind: "cover", Expect: l}
					cases = append(cases, c)
					if len(samples) < 12 {
						samples = append(samples, map[string]interface{}{"kind": "cover-witness", "harness": r.h.Name, "args": res.Args, "label": l, "inputs": renderModel(m)})
					}
				}
			}
			for l := range res.Asserts {
				assertsSeen[r.h.Name+"/"+l] = true
			}
		}
		viols := append([]interp.Violation(nil), res.Violations...)
		if !r.h.PanicsOK {
			viols = append(viols, res.UncaughtPanics...)
		}
		for i, v := range viols {
			if !labelCounts(cfg.LabelPrefixes, v.Label) {
				continue
			}
			c := replayCase{ID: fmt.Sprintf("%s-%s-%d", r.h.Name, argsStr(res.Args), i), Harness: r.h.Name, Args: res.Args, Model: v.Model, Known: r.known,
				Expect: v.Label, Kind: v.Kind, Detail: v.Detail}
			if r.probe != "" {
				if _, ok := knownHit[r.probe]; !ok {
					cc := c
					cc.ID = "known-" + r.probe
					knownHit[r.probe] = &cc
				}
			} else {
				newViol = append(newViol, c)
			}
		}
	}

	// ---- vacuity
	var vacuous []string
	if only == "" {
		for _, h := range cfg.Harnesses {
			tc := h.Quick
			if tier == "thorough" && (len(h.Thorough.Ranges) > 0 || len(h.Thorough.Instances) > 0) {
				tc = h.Thorough
			}
			if tc.Skip {
				continue
			}
			for _, l := range h.Covers {
				if !coversSeen[l] {
					vacuous = append(vacuous, fmt.Sprintf("%s: cover label %q never reached", h.Name, l))
				}
			}
			for _, l := range h.Asserts {
				if !assertsSeen[h.Name+"/"+l] {
					vacuous = append(vacuous, fmt.Sprintf("%s: assertion %q never reached", h.Name, l))
				}
			}
		}
		for _, f := range cfg.Functions {
			found := false
			for fn := range fnSeen {
				if strings.Contains(fn, f) {
					found = true
					break
				}
			}
			if !found {
				vacuous = append(vacuous, fmt.Sprintf("claimed function %q was not executed by any harness", f))
			}
		}
	}

	// ---- replay: violations (new + known probes) and cover witnesses
	var toReplay []replayCase
	toReplay = append(toReplay, newViol...)
	for _, id := range sortedKeysRC(knownHit) {
		toReplay = append(toReplay, *knownHit[id])
	}
	nCover := 0
	for _, c := range cases {
		// translator self-test witnesses are always replayed: the native run
		// has to reach the same (checksum-bearing) label
		if nCover < 6 || tier == "thorough" || strings.HasPrefix(c.Expect, "self-test ") {
			toReplay = append(toReplay, c)
			nCover++
		}
	}
	rr := replayAll(prog, pool, repo, vd, prop, toReplay, cfg.LabelPrefixes)
	validated := 0
	exit := 0
	var violLines []string
	for i := range newViol {
		c := newViol[i]
		st := rr[c.ID]
		path := filepath.Join(vd, "replays", prop, c.ID+".json")
		c.Replay = st.mode
		c.Stubs = st.stubs
		writeJSON(path, c)
		if st.confirmed {
			validated++
			violLines = append(violLines, fmt.Sprintf("VIOLATION property=%s replay=%s", prop, path))
			fmt.Fprintf(os.Stderr, "  violation %s: %s [%s] inputs=%v (replay: %s)\n", c.ID, c.Expect, c.Kind, renderModel(c.Model), st.mode)
			if len(samples) < 20 {
				samples = append(samples, map[string]interface{}{"kind": "counterexample", "harness": c.Harness, "args": c.Args, "label": c.Expect, "inputs": renderModel(c.Model), "replay": st.mode})
			}
		} else {
			inconclusive = append(inconclusive, fmt.Sprintf("ENGINE-DISAGREEMENT: counterexample %s (%s) did not reproduce: %s", c.ID, c.Expect, st.note))
			fmt.Printf("ENGINE-DISAGREEMENT property=%s case=%s label=%q note=%s\n", prop, c.ID, c.Expect, st.note)
		}
	}
	for _, k := range known {
		c, hit := knownHit[k.ID]
		if !hit {
			fmt.Fprintf(os.Stderr, "  note: known finding %s did not reproduce in this run (bound too small or defect gone)\n", k.ID)
			continue
		}
		st := rr[c.ID]
		if st.confirmed {
			validated++
			fmt.Printf("KNOWN-FINDING: property=%s %s [%s; witness %v]\n", prop, k.What, k.ID, renderModel(c.Model))
			if len(samples) < 20 {
				samples = append(samples, map[string]interface{}{"kind": "known-finding-witness", "id": k.ID, "harness": c.Harness, "args": c.Args, "label": c.Expect, "inputs": renderModel(c.Model), "replay": st.mode})
			}
		} else {
			inconclusive = append(inconclusive, fmt.Sprintf("ENGINE-DISAGREEMENT: known finding %s witness did not reproduce: %s", k.ID, st.note))
		}
	}
	for _, c := range cases {
		if st, ok := rr[c.ID]; ok {
			if st.confirmed {
				validated++
			} else {
				inconclusive = append(inconclusive, fmt.Sprintf("ENGINE-DISAGREEMENT: cover witness %s did not replay cleanly: %s", c.ID, st.note))
			}
		}
	}
	sort.Strings(inconclusive)
	inconclusive = dedup(inconclusive)

	for _, l := range violLines {
		fmt.Println(l)
	}
	switch {
	case len(violLines) > 0:
		exit = 1
	case len(vacuous) > 0:
		exit = 2
	case len(inconclusive) > 0:
		exit = 3
	}
	for _, v := range vacuous {
		fmt.Printf("VACUOUS: %s\n", v)
	}
	for _, m := range inconclusive {
		fmt.Printf("INCONCLUSIVE: %s\n", m)
	}
	cov := map[string]interface{}{
		"states":                        paths,
		"transitions":                   queries,
		"traces_validated_against_impl": validated,
		"samples":                       samples,
		"obligations":                   assertQ,
		"discharged":                    assertQ,
		"assertion_queries":             assertQ,
		"cross_checked_queries":         crossN,
		"cross_check_timeouts":          crossU,
		"solver_time_s":                 solverT,
		"solvers":                       solversUsed(tier),
		"functions_encoded":             filterFns(fnSeen),
		"stubs":                         stubsUsed,
		"per_harness":                   perHarness,
		"bounds":                        boundsOf(&cfg, tier),
		"outside_claim":                 cfg.Outside,
		"inconclusive":                  inconclusive,
		"vacuous":                       vacuous,
		"known_findings_reproduced":     sortedKeysRC(knownHit),
		"init_problems":                 len(pool.InitProblems),
		"explanation":                   cfg.Explanation,
		"exit_code":                     exit,
	}
	if len(samples) == 0 {
		cov["samples"] = []interface{}{map[string]interface{}{"kind": "none", "note": "no cover witness produced"}}
	}
	writeEvidence(vd, prop, tier, seed, start, cov, cfg.Assumptions, len(violLines), nil, &cfg, pool.InitProblems, exit)
	fmt.Fprintf(os.Stderr, "[%s %s] exit %d: %d paths, %d queries, %d assertion queries, %d replays validated, %.1fs\n", prop, tier, exit, paths, queries, assertQ, validated, time.Since(start).Seconds())
	return exit
}

func solversUsed(tier string) []string {
	if tier == "thorough" {
		return []string{"z3 4.8.12 (incremental, deciding)", "z3 5.1.0 (cross-check of assertion queries)", "cvc5 1.0 (cross-check of assertion queries)"}
	}
	return []string{"z3 4.8.12 (incremental, deciding)"}
}

func boundsOf(cfg *checkCfg, tier string) map[string]interface{} {
	b := map[string]interface{}{}
	for _, h := range cfg.Harnesses {
		tc := h.Quick
		if tier == "thorough" && (len(h.Thorough.Ranges) > 0 || len(h.Thorough.Instances) > 0) {
			tc = h.Thorough
		}
		b[h.Name] = map[string]interface{}{"parameter_ranges": tc.Ranges, "parameter_instances": tc.Instances, "max_steps": tc.MaxSteps, "what": h.What}
	}
	return b
}

func filterFns(m map[string]bool) []string {
	var out []string
	for f := range m {
		if strings.Contains(f, "verif") || strings.Contains(f, ".H_") {
			continue
		}
		out = append(out, f)
	}
	sort.Strings(out)
	if len(out) > 400 {
		out = append(out[:400], fmt.Sprintf("... and %d more", len(out)-400))
	}
	return out
}

func dedup(s []string) []string {
	var out []string
	for i, x := range s {
		if i == 0 || x != s[i-1] {
			out = append(out, x)
		}
	}
	return out
}

func sortedKeysRC(m map[string]*replayCase) []string {
	var ks []string
	for k := range m {
		ks = append(ks, k)
	}
	sort.Strings(ks)
	return ks
}

func sanitize(s string) string {
	var sb strings.Builder
	for _, c := range s {
		if c >= 'a' && c <= 'z' || c >= 'A' && c <= 'Z' || c >= '0' && c <= '9' {
			sb.WriteRune(c)
		} else {
			sb.WriteByte('_')
		}
	}
	r := sb.String()
	if len(r) > 40 {
		// keep ids of long labels distinct
		h := fnv.New32a()
		h.Write([]byte(s))
		r = fmt.Sprintf("%s_%08x", r[:40], h.Sum32())
	}
	return r
}

func argsStr(a []int) string {
	s := make([]string, len(a))
	for i, x := range a {
		s[i] = strconv.Itoa(x)
	}
	return strings.Join(s, "_")
}

func firstLineS(s string) string {
	if i := strings.IndexByte(s, '\n'); i >= 0 {
		return s[:i]
	}
	return s
}

// renderModel groups name[i] variables into byte strings for readability.
func renderModel(m map[string]uint64) map[string]interface{} {
	out := map[string]interface{}{}
	arrays := map[string]map[int]uint64{}
	for k, v := range m {
		if strings.HasPrefix(k, "$") {
			continue
		}
		if i := strings.LastIndexByte(k, '['); i > 0 && strings.HasSuffix(k, "]") {
			idx, err := strconv.Atoi(k[i+1 : len(k)-1])
			if err == nil {
				if arrays[k[:i]] == nil {
					arrays[k[:i]] = map[int]uint64{}
				}
				arrays[k[:i]][idx] = v
				continue
			}
		}
		out[k] = v
	}
	for name, a := range arrays {
		n := 0
		for i := range a {
			if i+1 > n {
				n = i + 1
			}
		}
		b := make([]byte, n)
		for i, v := range a {
			b[i] = byte(v)
		}
		out[name] = strconv.QuoteToASCII(string(b))
	}
	return out
}

func writeJSON(path string, v interface{}) {
	os.MkdirAll(filepath.Dir(path), 0o755)
	data, _ := json.MarshalIndent(v, "", " ")
	os.WriteFile(path, append(data, '\n'), 0o644)
}

func writeEvidence(vd, prop, tier string, seed int, start time.Time, cov map[string]interface{}, assumptions []string, nviol int, problems []string, cfg *checkCfg, initProblems []string, exit int) {
	if cov == nil {
		cov = map[string]interface{}{
			"evaluations": 1, "distinct_nontrivial": 0,
			"samples":     []interface{}{map[string]interface{}{"kind": "failure", "problems": problems}},
			"explanation": "the check could not run: " + strings.Join(problems, "; "),
		}
	}
	if assumptions == nil {
		assumptions = []string{}
	}
	assumptions = append(assumptions,
		"trusted: go/packages + go/ssa lowering, the symgo interpreter's instruction semantics and term simplifier, z3; in-harness reference oracles",
		"bounded: every claim holds only inside the parameter ranges and step budgets listed under coverage.bounds")
	ev := evidence{PropertyID: prop, Tier: tier, Seed: seed, Level: "model_checking", Coverage: cov, Assumptions: assumptions,
		WallS: time.Since(start).Seconds(), Violations: nviol}
	writeJSON(filepath.Join(vd, "evidence", prop+".json"), ev)
}

// ---- replay

type replayStatus struct {
	confirmed bool
	mode      string
	note      string
	stubs     []string
}

func replayAll(prog *interp.Program, pool *interp.Pool, repo, vd, prop string, cases []replayCase, prefixes []string) map[string]replayStatus {
	out := map[string]replayStatus{}
	if len(cases) == 0 {
		return out
	}
	// 1. interpreter (concrete) replay for every case
	interpOK := map[string]bool{}
	for _, c := range cases {
		km := map[string]bool{}
		for _, k := range c.Known {
			km[k] = true
		}
		var lf func(string) bool
		if len(prefixes) > 0 {
			lf = func(l string) bool { return labelCounts(prefixes, l) }
		}
		labels, outcome := pool.RunConcrete(prog, interp.RunConfig{Harness: c.Harness, Args: c.Args, Known: km, LabelFilter: lf}, interp.Model(c.Model))
		ok := false
		note := ""
		switch {
		case c.Kind == "cover":
			mine := 0
			for _, l := range labels {
				if labelCounts(prefixes, l) {
					mine++
				}
			}
			reached := false
			for _, l := range outcome.Covers {
				if l == c.Expect {
					reached = true
				}
			}
			// a witness fixes only the inputs read before the cover point: an
			// assumption about a later input failing on its default value is
			// not a disagreement, provided the cover point itself was reached
			ok = mine == 0 && (outcome.Kind == "ok" || (mine == 0 && len(labels) > 0) || (reached && outcome.Kind == "infeasible"))
			if !ok {
				note = fmt.Sprintf("interpreter replay of cover witness: outcome=%s %s failed=%v", outcome.Kind, outcome.Msg, labels)
			}
		case c.Kind == "assert":
			for _, l := range labels {
				if l == c.Expect {
					ok = true
				}
			}
			if !ok {
				note = fmt.Sprintf("interpreter replay: outcome=%s %s failed=%v", outcome.Kind, outcome.Msg, labels)
			}
		default: // panic / fatal / blocked
			ok = outcome.Kind == c.Kind
			if !ok {
				note = fmt.Sprintf("interpreter replay: outcome=%s %s", outcome.Kind, outcome.Msg)
			}
		}
		interpOK[c.ID] = ok
		h := prog.Harnesses[c.Harness]
		var stubs []string
		for s := range h.Stubs {
			stubs = append(stubs, s)
		}
		sort.Strings(stubs)
		out[c.ID] = replayStatus{confirmed: ok, mode: "interpreter", note: note, stubs: stubs}
	}
	// 2. native replay for //verif:native harnesses
	var native []replayCase
	for _, c := range cases {
		// assertions over ghost state (lock discipline) have no native
		// observable: they replay in the interpreter only
		// (a fatal outcome - stack overflow, non-termination - would take the
		// whole native test process down with it)
		if prog.Harnesses[c.Harness].Native && !strings.Contains(c.Expect, "(ghost)") && c.Kind != "fatal" {
			native = append(native, c)
		}
	}
	if len(native) > 0 {
		nres, err := nativeReplay(prog, repo, vd, prop, native)
		for _, c := range native {
			st := out[c.ID]
			if err != nil {
				st.confirmed = false
				st.note = "native replay failed to run: " + err.Error()
				out[c.ID] = st
				continue
			}
			r, ok := nres[c.ID]
			if !ok {
				st.confirmed = false
				st.note = "native replay produced no result"
				out[c.ID] = st
				continue
			}
			good := false
			switch {
			case c.Kind == "cover":
				mine := 0
				for _, l := range r.Failed {
					if labelCounts(prefixes, l) {
						mine++
					}
				}
				reached := false
				for _, l := range r.Covered {
					if l == c.Expect {
						reached = true
					}
				}
				// the real build must reach the same cover point on the witness
				// (an assumption about an input read after it may fail on its
				// default value)
				good = reached && mine == 0 && (r.Status == "ok" || r.Status == "assume-failed")
			case c.Kind == "assert":
				for _, l := range r.Failed {
					if l == c.Expect {
						good = true
					}
				}
			case c.Kind == "panic":
				good = r.Status == "panic"
			default:
				good = false
			}
			st.mode = "native+interpreter"
			if !good {
				st.note = fmt.Sprintf("native replay: status=%s failed=%v msg=%s", r.Status, r.Failed, r.Msg)
			}
			st.confirmed = st.confirmed && good
			out[c.ID] = st
		}
	}
	return out
}

type nativeResult struct {
	ID      string   `json:"id"`
	Status  string   `json:"status"` // ok | assume-failed | panic
	Failed  []string `json:"failed"`
	Covered []string `json:"covered"`
	Msg     string   `json:"msg"`
}

func nativeReplay(prog *interp.Program, repo, vd, prop string, cases []replayCase) (map[string]nativeResult, error) {
	scratch := filepath.Join(vd, ".scratch", "replay-"+prop)
	os.RemoveAll(scratch)
	if err := os.MkdirAll(scratch, 0o755); err != nil {
		return nil, err
	}
	defer os.RemoveAll(scratch)
	// group by package dir
	byDir := map[string][]replayCase{}
	for _, c := range cases {
		h := prog.Harnesses[c.Harness]
		byDir[filepath.Dir(h.File)] = append(byDir[filepath.Dir(h.File)], c)
	}
	results := map[string]nativeResult{}
	for dir, cs := range byDir {
		pkgName := prog.Harnesses[cs[0].Harness].Pkg.Pkg.Name()
		overlay := map[string]string{}
		odirs := map[string]string{}
		for v, real := range prog.Overlay {
			overlay[v] = real
			if data, err := os.ReadFile(real); err == nil {
				odirs[filepath.Dir(v)] = interp.PackageClause(data)
			}
		}
		for od, pn := range odirs {
			rt, err := interp.RtSource(filepath.Join(vd, "harness"), pn)
			if err != nil {
				return nil, err
			}
			rtPath := filepath.Join(scratch, sanitize(od)+"_"+pn+"_rt.go")
			os.WriteFile(rtPath, []byte(rt), 0o644)
			overlay[filepath.Join(od, "zz_verif_rt.go")] = rtPath
		}
		// test file with registry
		var names []string
		for n, h := range prog.Harnesses {
			if filepath.Dir(h.File) == dir && h.Native {
				names = append(names, n)
			}
		}
		sort.Strings(names)
		var sb strings.Builder
		fmt.Fprintf(&sb, "package %s\n\nimport (\n\t\"encoding/json\"\n\t\"fmt\"\n\t\"os\"\n\t\"reflect\"\n\t\"testing\"\n)\n\n", pkgName)
		sb.WriteString("var verifRegistry = map[string]interface{}{\n")
		for _, n := range names {
			fmt.Fprintf(&sb, "\t%q: %s,\n", n, n)
		}
		sb.WriteString("}\n\n")
		sb.WriteString(nativeTestBody)
		testPath := filepath.Join(scratch, pkgName+"_replay_test.go")
		os.WriteFile(testPath, []byte(sb.String()), 0o644)
		overlay[filepath.Join(dir, "zz_verif_replay_test.go")] = testPath
		ovPath := filepath.Join(scratch, pkgName+"_overlay.json")
		writeJSON(ovPath, map[string]interface{}{"Replace": overlay})
		casesPath := filepath.Join(scratch, pkgName+"_cases.json")
		writeJSON(casesPath, cs)
		outPath := filepath.Join(scratch, pkgName+"_out.json")
		rel, _ := filepath.Rel(repo, dir)
		cmd := exec.Command("go", "test", "-tags", "verif", "-vet=off", "-count=1", "-timeout", "180s", "-run", "^TestVerifReplay$", "-overlay", ovPath, "./"+rel)
		cmd.Dir = repo
		cmd.Env = append(os.Environ(), "GOFLAGS=-mod=mod", "GOPROXY=off", "GOSUMDB=off", "GOTOOLCHAIN=local",
			"VERIF_REPLAY_CASES="+casesPath, "VERIF_REPLAY_OUT="+outPath, "VERIF_REPO_ROOT="+repo)
		outb, err := runWithTimeout(cmd, 5*time.Minute)
		data, rerr := os.ReadFile(outPath)
		if rerr != nil {
			return nil, fmt.Errorf("go test produced no results (%v): %s", err, tail(string(outb), 2000))
		}
		var rs []nativeResult
		if err := json.Unmarshal(data, &rs); err != nil {
			return nil, err
		}
		for _, r := range rs {
			results[r.ID] = r
		}
	}
	return results, nil
}

func tail(s string, n int) string {
	if len(s) > n {
		return s[len(s)-n:]
	}
	return s
}

func runWithTimeout(cmd *exec.Cmd, d time.Duration) ([]byte, error) {
	type res struct {
		out []byte
		err error
	}
	ch := make(chan res, 1)
	go func() {
		out, err := cmd.CombinedOutput()
		ch <- res{out, err}
	}()
	select {
	case r := <-ch:
		return r.out, r.err
	case <-time.After(d):
		if cmd.Process != nil {
			cmd.Process.Kill()
		}
		return nil, fmt.Errorf("timeout after %v", d)
	}
}

const nativeTestBody = `type verifCase struct {
	ID      string            ` + "`json:\"id\"`" + `
	Harness string            ` + "`json:\"harness\"`" + `
	Args    []int             ` + "`json:\"args\"`" + `
	Model   map[string]uint64 ` + "`json:\"model\"`" + `
	Known   []string          ` + "`json:\"known\"`" + `
}

type verifResult struct {
	ID     string   ` + "`json:\"id\"`" + `
	Status string   ` + "`json:\"status\"`" + `
	Failed []string ` + "`json:\"failed\"`" + `
	Covered []string ` + "`json:\"covered\"`" + `
	Msg    string   ` + "`json:\"msg\"`" + `
}

func verifRunCase(c verifCase) (res verifResult) {
	res.ID = c.ID
	res.Status = "ok"
	verifReplay = &verifReplayData{Harness: c.Harness, Args: c.Args, Model: c.Model, Known: c.Known}
	if verifReplay.Model == nil {
		verifReplay.Model = map[string]uint64{}
	}
	verifVarCtr = map[string]int{}
	verifFailed = nil
	verifCovered = nil
	defer func() {
		res.Failed = verifFailed
		res.Covered = verifCovered
		if r := recover(); r != nil {
			if _, ok := r.(verifAssumeFailed); ok {
				res.Status = "assume-failed"
			} else {
				res.Status = "panic"
				res.Msg = fmt.Sprint(r)
			}
		}
	}()
	fn := reflect.ValueOf(verifRegistry[c.Harness])
	if !fn.IsValid() {
		res.Status = "no-such-harness"
		return
	}
	args := make([]reflect.Value, len(c.Args))
	for i, a := range c.Args {
		args[i] = reflect.ValueOf(a)
	}
	fn.Call(args)
	return
}

func TestVerifReplay(t *testing.T) {
	data, err := os.ReadFile(os.Getenv("VERIF_REPLAY_CASES"))
	if err != nil {
		t.Skip("no replay cases")
	}
	var cases []verifCase
	if err := json.Unmarshal(data, &cases); err != nil {
		t.Fatal(err)
	}
	var results []verifResult
	for _, c := range cases {
		results = append(results, verifRunCase(c))
	}
	out, _ := json.Marshal(results)
	if err := os.WriteFile(os.Getenv("VERIF_REPLAY_OUT"), out, 0o644); err != nil {
		t.Fatal(err)
	}
}
`

// labelCounts decides whether a violated label belongs to this property.
func labelCounts(prefixes []string, label string) bool {
	if len(prefixes) == 0 {
		return true
	}
	// labels look like "C02: ..." or "C02/C03: ..."
	head := label
	if i := strings.Index(label, ":"); i >= 0 {
		head = label[:i]
	} else {
		return true
	}
	hasTag := false
	for _, part := range strings.Split(head, "/") {
		part = strings.TrimSpace(part)
		if len(part) == 3 && part[0] == 'C' && part[1] >= '0' && part[1] <= '9' && part[2] >= '0' && part[2] <= '9' {
			hasTag = true
			for _, p := range prefixes {
				if part == p {
					return true
				}
			}
		}
	}
	return !hasTag
}
