package interp

import (
	"fmt"
	"go/token"
	"os"
	"runtime/debug"
	"sort"
	"strings"
	"sync"
	"sync/atomic"
	"time"

	"golang.org/x/tools/go/ssa"

	"symgo/smt"
	"symgo/term"
)

// RunConfig configures the exploration of one harness instance.
type RunConfig struct {
	Harness   string
	Args      []int
	MaxSteps  int
	MaxDecs   int
	MaxConc   int
	MaxPaths  int
	Known     map[string]bool
	Workers   int
	TimeoutMs int // per solver query
	Deadline  time.Time
	// StopOnViolation ends a path at its first violation.
	StopOnViolation bool
	MaxViolations   int
	CrossCheck      []smt.OneShot // thorough: re-discharge assertion queries
	CrossTimeout    time.Duration
	LabelFilter     func(label string) bool // nil: every assertion counts; else assertions whose label is rejected are skipped
	CrossMax        int64 // at most this many assertion queries are cross-checked per instance (0: 300)
	crossUsed       *int64
	Trace           bool
	// Solver selects a one-shot back end for every query of this run:
	// "" (incremental z3), "cvc5-int", "cvc5", "z3-new".
	Solver string
}

// PathOutcome summarises one completed path.
type PathOutcome struct {
	Kind   string // ok | panic | blocked | fatal | unsupported | budget | infeasible | engine-error | stop
	Msg    string
	Decs   int
	Steps  int
	Covers []string // RunConcrete: cover labels reached
}

// RunResult aggregates an exploration.
type RunResult struct {
	Harness        string           `json:"harness"`
	Args           []int            `json:"args"`
	Paths          int              `json:"paths"`
	Outcomes       map[string]int   `json:"outcomes"`
	Violations     []Violation      `json:"violations,omitempty"`
	Covers         map[string]Model `json:"covers,omitempty"`
	Asserts        map[string]int   `json:"asserts"`
	Inconclusive   []string         `json:"inconclusive,omitempty"`
	Queries        int              `json:"queries"`
	AssertQ        int              `json:"assert_queries"`
	SolverTime     float64          `json:"solver_time_s"`
	ModelTime      float64          `json:"model_time_s"`
	Wall           float64          `json:"wall_s"`
	Steps          int64            `json:"steps"`
	Functions      []string         `json:"functions,omitempty"`
	StubCalls      map[string]int   `json:"stub_calls,omitempty"`
	KnownSeen      []string         `json:"known_seen,omitempty"`
	Cuts           map[string]int   `json:"cuts,omitempty"`
	Fallbacks      int              `json:"fallback_queries,omitempty"`
	CrossChecked   int              `json:"cross_checked,omitempty"`
	CrossUnknown   int              `json:"cross_unknown,omitempty"`
	CrossDisagree  []string         `json:"cross_disagree,omitempty"`
	Truncated      bool             `json:"truncated,omitempty"`
	UncaughtPanics []Violation      `json:"uncaught_panics,omitempty"`
}

// NewInterp creates a worker and runs package initialisers.
func NewInterp(prog *Program, timeoutMs int) (*Interp, error) {
	s, err := smt.NewZ3(timeoutMs)
	if err != nil {
		return nil, err
	}
	in := &Interp{
		prog:        prog,
		tb:          term.NewTable(),
		solver:      s,
		globals:     make(map[*ssa.Global]*value),
		initDone:    make(map[*ssa.Package]bool),
		externCache: make(map[*ssa.Function]externFn),
		regexCache:  make(map[string]*regexModel),
		fnNameCache: make(map[*ssa.Function]string),
		fnsSeen:     make(map[string]bool),
	}
	if rt := prog.ssa.ImportedPackage("runtime"); rt != nil {
		in.runtimeErrorString = rt.Type("errorString").Object().Type()
	}
	if u := prog.ssa.ImportedPackage("unicode/utf8"); u != nil {
		in.utf8Decode = u.Func("DecodeRuneInString")
	}
	return in, nil
}

func (in *Interp) Close() { in.solver.Close() }

// InitPackage runs the initialiser of pkg (and transitively its allowed deps).
func (in *Interp) InitPackage(pkg *ssa.Package) (problems []string) {
	if in.initDone[pkg] {
		return nil
	}
	initFn := pkg.Func("init")
	if initFn == nil {
		return nil
	}
	in.inInit = true
	in.initDone[pkg] = true
	defer func() { in.inInit = false }()
	defer func() {
		if r := recover(); r != nil {
			problems = append(in.initProblems, fmt.Sprintf("init of %s aborted: %v", pkg.Pkg.Path(), describePanic(in, r)))
		}
	}()
	in.call(nil, token.NoPos, initFn, nil)
	return in.initProblems
}

func describePanic(in *Interp, r interface{}) string {
	switch r := r.(type) {
	case abortPath:
		return r.kind.String() + ": " + r.msg
	case targetPanic:
		return "panic: " + in.panicString(nil, r.v)
	case blockedPanic:
		return "blocked: " + r.why
	case fatalError:
		return "fatal error: " + r.msg
	}
	return fmt.Sprintf("%v\n%s", r, debug.Stack())
}

// panicString renders a panic value (calls Error() for error values when possible).
func (in *Interp) panicString(fr *frame, v value) string {
	if it, ok := v.(iface); ok && it.t != nil {
		if s, ok := it.v.(str); ok {
			if cs, ok := s.concrete(); ok {
				if it.t == in.runtimeErrorString {
					return "runtime error: " + cs
				}
				return cs
			}
		}
		if m := in.findMethod(it.t, "Error"); m != nil && in.path != nil {
			var out string
			func() {
				defer func() { recover() }()
				res := in.call(fr, token.NoPos, m, []value{it.v})
				if cs, ok := res.(str).concrete(); ok {
					out = cs
				} else {
					out = "<symbolic error string>"
				}
			}()
			if out != "" {
				return out
			}
		}
	}
	return in.toString(v)
}

// runPath executes one path of the harness.
func (in *Interp) runPath(h *Harness, cfg *RunConfig, item *WorkItem, res *pathResult) {
	p := &pathState{
		prefix:          item.Prefix,
		item:            item,
		maxSteps:        cfg.MaxSteps,
		maxDecs:         cfg.MaxDecs,
		maxConc:         cfg.MaxConc,
		covers:          map[string]Model{},
		asserts:         map[string]int{},
		varCtr:          map[string]int{},
		ghost:           map[string]value{},
		known:           cfg.Known,
		knownSeen:       map[string]bool{},
		cuts:            map[string]int{},
		pcVars:          map[*term.Term]bool{},
		stubCalls:       map[string]int{},
		stopOnViolation: cfg.StopOnViolation,
		harness:         h,
	}
	if len(h.stubMap) > 0 {
		p.stubs = h.stubMap
	}
	switch cfg.Solver {
	case "cvc5-int":
		o := smt.CVC5Int
		p.oneShot = &o
	case "cvc5":
		o := smt.CVC5
		p.oneShot = &o
	case "z3-new":
		o := smt.Z3New
		p.oneShot = &o
	}
	if p.oneShot != nil {
		p.oneShotTimeout = time.Duration(cfg.TimeoutMs) * time.Millisecond
		if p.oneShotTimeout == 0 {
			p.oneShotTimeout = 120 * time.Second
		}
	}
	p.labelFilter = cfg.LabelFilter
	if len(cfg.CrossCheck) > 0 {
		p.queryHook = func(label string, pc []T, neg T, r smt.Result) {
			if cfg.crossUsed != nil && atomic.AddInt64(cfg.crossUsed, 1) > cfg.CrossMax {
				return
			}
			asserts := append(append([]T(nil), pc...), neg)
			for _, o := range cfg.CrossCheck {
				r2, _, out, _ := o.Solve(asserts, nil, cfg.CrossTimeout)
				p.crossChecked++
				if r2 == smt.Unknown {
					// the deciding solver's verdict stands; the cross-checker merely
					// could not confirm it within its time limit
					p.crossUnknown++
					_ = out
				} else if r != smt.Unknown && r2 != r {
					p.crossDisagree = append(p.crossDisagree, fmt.Sprintf("%q: z3=%s %s=%s", label, r, o.Name, r2))
				}
			}
		}
	}
	if len(item.Prefix) == 0 {
		p.model = term.Env{}
		p.modelOK = true
	}
	in.path = p
	mark := len(in.trail)
	in.solver.Push()
	in.Trace = cfg.Trace
	outcome := PathOutcome{Kind: "ok"}
	func() {
		defer func() {
			if r := recover(); r != nil {
				switch r := r.(type) {
				case abortPath:
					outcome.Kind = r.kind.String()
					outcome.Msg = r.msg
				case targetPanic:
					outcome.Kind = "panic"
					outcome.Msg = in.panicString(nil, r.v) + " [at " + in.lastPanicSite + "]"
				case blockedPanic:
					outcome.Kind = "blocked"
					outcome.Msg = r.why
				case fatalError:
					outcome.Kind = "fatal"
					outcome.Msg = r.msg
				default:
					outcome.Kind = "engine-error"
					outcome.Msg = fmt.Sprintf("%v\n%s", r, debug.Stack())
				}
			}
		}()
		args := make([]value, len(cfg.Args))
		for i, a := range cfg.Args {
			args[i] = in.int64v(int64(a))
		}
		in.call(nil, token.NoPos, h.Fn, args)
		if p.pos < len(p.prefix) {
			panic(abortPath{abortEngine, fmt.Sprintf("replay divergence: path ended with %d of %d prefix decisions consumed", p.pos, len(p.prefix))})
		}
	}()
	// An uncaught Go panic / fatal error / deadlock is itself a finding for
	// harnesses: record with a model of the path condition.
	if outcome.Kind == "panic" || outcome.Kind == "fatal" || outcome.Kind == "blocked" {
		func() {
			defer func() {
				if r := recover(); r != nil {
					p.notes = append(p.notes, "no model for uncaught "+outcome.Kind+": "+fmt.Sprint(r))
				}
			}()
			if p.pos >= len(p.prefix) {
				in.ensureModel()
				p.uncaught = append(p.uncaught, Violation{
					Label: "uncaught-" + outcome.Kind, Model: in.envToModel(p.model),
					Decisions: append([]Decision(nil), p.decs...), Kind: outcome.Kind, Detail: outcome.Msg,
				})
			}
		}()
	}
	outcome.Decs = len(p.decs)
	outcome.Steps = p.steps
	in.solver.Pop()
	in.rollback(mark)
	in.path = nil
	res.outcome = outcome
	res.p = p
}

type pathResult struct {
	outcome PathOutcome
	p       *pathState
}

// Explore runs all paths of a harness instance using a pool of workers.
func Explore(prog *Program, pool *Pool, cfg RunConfig) (*RunResult, error) {
	h := prog.Harnesses[cfg.Harness]
	if h == nil {
		return nil, fmt.Errorf("no harness %q", cfg.Harness)
	}
	if len(cfg.Args) != h.Params {
		return nil, fmt.Errorf("harness %s takes %d int parameters, got %d", h.Name, h.Params, len(cfg.Args))
	}
	if cfg.MaxSteps == 0 {
		cfg.MaxSteps = 400000
	}
	if cfg.MaxDecs == 0 {
		cfg.MaxDecs = 4000
	}
	if cfg.MaxConc == 0 {
		cfg.MaxConc = 64
	}
	if cfg.MaxPaths == 0 {
		cfg.MaxPaths = 2000000
	}
	if cfg.MaxViolations == 0 {
		cfg.MaxViolations = 50
	}
	if cfg.CrossMax == 0 {
		cfg.CrossMax = 300
	}
	cfg.crossUsed = new(int64)
	start := time.Now()
	res := &RunResult{Harness: cfg.Harness, Args: cfg.Args, Outcomes: map[string]int{}, Covers: map[string]Model{},
		Asserts: map[string]int{}, StubCalls: map[string]int{}}
	var mu sync.Mutex
	work := []WorkItem{{}}
	active := 0
	cond := sync.NewCond(&mu)
	fnsCalled := map[string]bool{}
	knownSeen := map[string]bool{}
	inconc := map[string]int{}
	stop := false

	var wg sync.WaitGroup
	workers := pool.workers
	if cfg.Workers > 0 && cfg.Workers < len(workers) {
		workers = workers[:cfg.Workers]
	}
	startQ := make([]smt.Stats, len(workers))
	for i, w := range workers {
		// fresh solver process per instance: accumulated definitions make
		// model construction slow
		w.solver.Restart()
		w.pathsSinceRestart = 0
		startQ[i] = w.solver.Stats
	}
	for _, w := range workers {
		wg.Add(1)
		go func(in *Interp) {
			defer wg.Done()
			for {
				mu.Lock()
				for len(work) == 0 && active > 0 && !stop {
					cond.Wait()
				}
				if stop || (len(work) == 0 && active == 0) {
					mu.Unlock()
					cond.Broadcast()
					return
				}
				item := work[len(work)-1]
				work = work[:len(work)-1]
				active++
				mu.Unlock()

				var pr pathResult
				in.pathsSinceRestart++
				if in.pathsSinceRestart > 3000 {
					in.solver.Restart()
					in.pathsSinceRestart = 0
				}
				in.runPath(h, &cfg, &item, &pr)

				mu.Lock()
				active--
				res.Paths++
				res.Outcomes[pr.outcome.Kind]++
				res.Steps += int64(pr.outcome.Steps)
				switch pr.outcome.Kind {
				case "unsupported", "budget", "engine-error":
					msg := pr.outcome.Kind + ": " + firstLine(pr.outcome.Msg)
					inconc[msg]++
					if pr.outcome.Kind == "engine-error" && inconc[msg] == 1 {
						fmt.Fprintln(os.Stderr, "ENGINE-ERROR:", pr.outcome.Msg)
					}
				}
				p := pr.p
				for _, n := range p.notes {
					inconc[n]++
				}
				work = append(work, p.newItems...)
				for _, v := range p.violations {
					if len(res.Violations) < cfg.MaxViolations {
						res.Violations = append(res.Violations, v)
					}
				}
				for _, v := range p.uncaught {
					if len(res.UncaughtPanics) < cfg.MaxViolations {
						res.UncaughtPanics = append(res.UncaughtPanics, v)
					}
				}
				for l, m := range p.covers {
					if _, ok := res.Covers[l]; !ok {
						res.Covers[l] = m
					}
				}
				for l, n := range p.asserts {
					res.Asserts[l] += n
				}
				for k, n := range p.stubCalls {
					res.StubCalls[k] += n
				}
				for k := range p.knownSeen {
					knownSeen[k] = true
				}
				for k, n := range p.cuts {
					if res.Cuts == nil {
						res.Cuts = map[string]int{}
					}
					res.Cuts[k] += n
				}
				res.AssertQ += p.assertQueries
				res.Fallbacks += p.fallbackQueries
				res.SolverTime += p.fallbackTime.Seconds()
				res.Queries += p.oneShotQueries
				res.SolverTime += p.oneShotTime.Seconds()
				res.CrossChecked += p.crossChecked
				res.CrossUnknown += p.crossUnknown
				res.CrossDisagree = append(res.CrossDisagree, p.crossDisagree...)
				if res.Paths >= cfg.MaxPaths || (!cfg.Deadline.IsZero() && time.Now().After(cfg.Deadline)) {
					if len(work) > 0 || active > 0 {
						res.Truncated = true
					}
					stop = true
				}
				mu.Unlock()
				cond.Broadcast()
			}
		}(w)
	}
	wg.Wait()
	for i, w := range workers {
		res.Queries += w.solver.Stats.Queries - startQ[i].Queries
		res.SolverTime += (w.solver.Stats.Time - startQ[i].Time).Seconds()
		res.ModelTime += (w.solver.Stats.ModelTime - startQ[i].ModelTime).Seconds()
		for fn := range w.fnsSeen {
			fnsCalled[fn] = true
		}
	}
	for m, n := range inconc {
		res.Inconclusive = append(res.Inconclusive, fmt.Sprintf("%s (x%d)", m, n))
	}
	sort.Strings(res.Inconclusive)
	if res.Truncated {
		res.Inconclusive = append(res.Inconclusive, fmt.Sprintf("exploration truncated after %d paths (%d work items left)", res.Paths, len(work)))
	}
	for k := range knownSeen {
		res.KnownSeen = append(res.KnownSeen, k)
	}
	sort.Strings(res.KnownSeen)
	for fn := range fnsCalled {
		res.Functions = append(res.Functions, fn)
	}
	sort.Strings(res.Functions)
	res.Wall = time.Since(start).Seconds()
	return res, nil
}

func firstLine(s string) string {
	if i := strings.IndexByte(s, '\n'); i >= 0 {
		return s[:i]
	}
	return s
}

// Pool is a set of initialised workers.
type Pool struct {
	workers      []*Interp
	InitProblems []string
}

// NewPool creates n workers and initialises the packages of all harnesses.
func NewPool(prog *Program, n int, timeoutMs int, initPkgs []*ssa.Package) (*Pool, error) {
	pool := &Pool{}
	var mu sync.Mutex
	var wg sync.WaitGroup
	var firstErr error
	pool.workers = make([]*Interp, n)
	for i := 0; i < n; i++ {
		wg.Add(1)
		go func(i int) {
			defer wg.Done()
			in, err := NewInterp(prog, timeoutMs)
			if err != nil {
				mu.Lock()
				firstErr = err
				mu.Unlock()
				return
			}
			var probs []string
			for _, pkg := range initPkgs {
				probs = append(probs, in.InitPackage(pkg)...)
			}
			mu.Lock()
			pool.workers[i] = in
			if i == 0 {
				pool.InitProblems = probs
			}
			mu.Unlock()
		}(i)
	}
	wg.Wait()
	if firstErr != nil {
		return nil, firstErr
	}
	return pool, nil
}

func (p *Pool) Close() {
	for _, w := range p.workers {
		if w != nil {
			w.Close()
		}
	}
}

// RunConcrete replays a model concretely on worker 0 and reports the failing
// labels / outcome.
func (p *Pool) RunConcrete(prog *Program, cfg RunConfig, input Model) (labels []string, outcome PathOutcome) {
	in := p.workers[0]
	h := prog.Harnesses[cfg.Harness]
	ps := &pathState{
		maxSteps: 400000000, maxDecs: 100000, maxConc: 64,
		covers: map[string]Model{}, asserts: map[string]int{}, varCtr: map[string]int{}, ghost: map[string]value{},
		known: cfg.Known, knownSeen: map[string]bool{}, cuts: map[string]int{}, pcVars: map[*term.Term]bool{}, stubCalls: map[string]int{},
		concrete: true, input: input, harness: h, labelFilter: cfg.LabelFilter,
	}
	ps.model = term.Env{}
	ps.modelOK = true
	if len(h.stubMap) > 0 {
		ps.stubs = h.stubMap
	}
	in.path = ps
	mark := len(in.trail)
	in.solver.Push()
	outcome = PathOutcome{Kind: "ok"}
	func() {
		defer func() {
			if r := recover(); r != nil {
				switch r := r.(type) {
				case abortPath:
					outcome.Kind, outcome.Msg = r.kind.String(), r.msg
				case targetPanic:
					outcome.Kind, outcome.Msg = "panic", in.panicString(nil, r.v)
				case blockedPanic:
					outcome.Kind, outcome.Msg = "blocked", r.why
				case fatalError:
					outcome.Kind, outcome.Msg = "fatal", r.msg
				default:
					outcome.Kind, outcome.Msg = "engine-error", fmt.Sprintf("%v\n%s", r, debug.Stack())
				}
			}
		}()
		args := make([]value, len(cfg.Args))
		for i, a := range cfg.Args {
			args[i] = in.int64v(int64(a))
		}
		in.call(nil, token.NoPos, h.Fn, args)
	}()
	for _, v := range ps.violations {
		labels = append(labels, v.Label)
	}
	for l := range ps.covers {
		outcome.Covers = append(outcome.Covers, l)
	}
	in.solver.Pop()
	in.rollback(mark)
	in.path = nil
	return
}
