package interp

import (
	"fmt"
	"go/constant"
	"go/token"
	"go/types"
	"math"
	"unicode/utf8"

	"golang.org/x/tools/go/ssa"

	"symgo/term"
)

func (in *Interp) constValue(c *ssa.Const) value {
	if c.Value == nil {
		return in.zero(c.Type())
	}
	if t, ok := c.Type().Underlying().(*types.Basic); ok {
		switch {
		case t.Kind() == types.Bool || t.Kind() == types.UntypedBool:
			return in.tb.Bool(constant.BoolVal(c.Value))
		case t.Info()&types.IsInteger != 0:
			w := widthOf(t)
			if t.Info()&types.IsUnsigned != 0 {
				return in.tb.BV(w, c.Uint64())
			}
			if v, ok := constant.Int64Val(constant.ToInt(c.Value)); ok {
				return in.tb.BV(w, uint64(v))
			}
			return in.tb.BV(w, c.Uint64())
		case t.Kind() == types.Float32:
			return float32(c.Float64())
		case t.Kind() == types.Float64 || t.Kind() == types.UntypedFloat:
			return c.Float64()
		case t.Kind() == types.Complex64:
			return complex64(c.Complex128())
		case t.Kind() == types.Complex128 || t.Kind() == types.UntypedComplex:
			return c.Complex128()
		case t.Kind() == types.String || t.Kind() == types.UntypedString:
			if c.Value.Kind() == constant.String {
				return in.mkStr(constant.StringVal(c.Value))
			}
			return in.mkStr(string(rune(c.Int64())))
		}
	}
	panic(fmt.Sprintf("constValue: %s", c))
}

// strCompare returns the term for x < y (lexicographic, unsigned bytes).
func (in *Interp) strLess(x, y str) T {
	in.checkOpaque(x)
	in.checkOpaque(y)
	// less = OR_i (prefix equal up to i-1 AND x[i] < y[i])  OR (x is proper prefix of y)
	n := len(x.b)
	if len(y.b) < n {
		n = len(y.b)
	}
	res := in.tb.Bool(len(x.b) < len(y.b)) // if common prefix all equal
	for i := n - 1; i >= 0; i-- {
		lt := in.tb.Bin(term.ULt, x.b[i], y.b[i])
		eq := in.tb.Bin(term.Eq, x.b[i], y.b[i])
		res = in.tb.OrB(lt, in.tb.AndB(eq, res))
	}
	return res
}

func (in *Interp) binop(op token.Token, t types.Type, x, y value) value {
	tb := in.tb
	switch xv := x.(type) {
	case T:
		yv, ok := y.(T)
		if !ok {
			panic(fmt.Sprintf("binop %s: %T vs %T", op, x, y))
		}
		signed := isSigned(t)
		if xv.W == 0 { // booleans
			switch op {
			case token.EQL:
				return tb.Bin(term.Eq, xv, yv)
			case token.NEQ:
				return tb.Not(tb.Bin(term.Eq, xv, yv))
			case token.AND, token.LAND:
				return tb.AndB(xv, yv)
			case token.OR, token.LOR:
				return tb.OrB(xv, yv)
			}
			panic("bad bool binop " + op.String())
		}
		switch op {
		case token.ADD:
			return tb.Bin(term.Add, xv, yv)
		case token.SUB:
			return tb.Bin(term.Sub, xv, yv)
		case token.MUL:
			return tb.Bin(term.Mul, xv, yv)
		case token.QUO, token.REM:
			// division by zero panics
			z := tb.Bin(term.Eq, yv, tb.BV(yv.W, 0))
			if in.decide(z) {
				in.rtPanic("integer divide by zero")
			}
			var o term.Op
			switch {
			case op == token.QUO && signed:
				o = term.SDiv
			case op == token.QUO:
				o = term.UDiv
			case signed:
				o = term.SRem
			default:
				o = term.URem
			}
			return tb.Bin(o, xv, yv)
		case token.AND:
			return tb.Bin(term.And, xv, yv)
		case token.OR:
			return tb.Bin(term.Or, xv, yv)
		case token.XOR:
			return tb.Bin(term.Xor, xv, yv)
		case token.AND_NOT:
			return tb.Bin(term.And, xv, tb.Un(term.BvNot, yv))
		case token.SHL, token.SHR:
			// y may have a different width and signedness (handled by caller via yType)
			panic("shift must go through shiftop")
		case token.EQL:
			return tb.Bin(term.Eq, xv, yv)
		case token.NEQ:
			return tb.Not(tb.Bin(term.Eq, xv, yv))
		case token.LSS:
			if signed {
				return tb.Bin(term.SLt, xv, yv)
			}
			return tb.Bin(term.ULt, xv, yv)
		case token.LEQ:
			if signed {
				return tb.Bin(term.SLe, xv, yv)
			}
			return tb.Bin(term.ULe, xv, yv)
		case token.GTR:
			if signed {
				return tb.Bin(term.SLt, yv, xv)
			}
			return tb.Bin(term.ULt, yv, xv)
		case token.GEQ:
			if signed {
				return tb.Bin(term.SLe, yv, xv)
			}
			return tb.Bin(term.ULe, yv, xv)
		}
	case float64:
		yv := y.(float64)
		switch op {
		case token.ADD:
			return xv + yv
		case token.SUB:
			return xv - yv
		case token.MUL:
			return xv * yv
		case token.QUO:
			return xv / yv
		case token.EQL:
			return tb.Bool(xv == yv)
		case token.NEQ:
			return tb.Bool(xv != yv)
		case token.LSS:
			return tb.Bool(xv < yv)
		case token.LEQ:
			return tb.Bool(xv <= yv)
		case token.GTR:
			return tb.Bool(xv > yv)
		case token.GEQ:
			return tb.Bool(xv >= yv)
		}
	case float32:
		yv := y.(float32)
		switch op {
		case token.ADD:
			return xv + yv
		case token.SUB:
			return xv - yv
		case token.MUL:
			return xv * yv
		case token.QUO:
			return xv / yv
		case token.EQL:
			return tb.Bool(xv == yv)
		case token.NEQ:
			return tb.Bool(xv != yv)
		case token.LSS:
			return tb.Bool(xv < yv)
		case token.LEQ:
			return tb.Bool(xv <= yv)
		case token.GTR:
			return tb.Bool(xv > yv)
		case token.GEQ:
			return tb.Bool(xv >= yv)
		}
	case str:
		yv := y.(str)
		switch op {
		case token.ADD:
			if xv.opaque || yv.opaque {
				return str{opaque: true}
			}
			b := make([]T, 0, len(xv.b)+len(yv.b))
			b = append(b, xv.b...)
			b = append(b, yv.b...)
			return str{b: b}
		case token.EQL:
			return in.strEq(xv, yv)
		case token.NEQ:
			return tb.Not(in.strEq(xv, yv))
		case token.LSS:
			return in.strLess(xv, yv)
		case token.GTR:
			return in.strLess(yv, xv)
		case token.LEQ:
			return tb.Not(in.strLess(yv, xv))
		case token.GEQ:
			return tb.Not(in.strLess(xv, yv))
		}
	}
	switch op {
	case token.EQL:
		return in.eqnil(t, x, y)
	case token.NEQ:
		return tb.Not(in.eqnil(t, x, y))
	}
	if _, ok := x.(symFloat); ok {
		unsupported("arithmetic or comparison on an opaque float")
	}
	if _, ok := y.(symFloat); ok {
		unsupported("arithmetic or comparison on an opaque float")
	}
	if _, ok := x.(poison); ok {
		unsupported("use of poison value: %s", x.(poison).why)
	}
	if _, ok := y.(poison); ok {
		unsupported("use of poison value: %s", y.(poison).why)
	}
	panic(fmt.Sprintf("invalid binary op: %T %s %T", x, op, y))
}

// shiftop implements x << y and x >> y; yT is the static type of y.
func (in *Interp) shiftop(op token.Token, xT, yT types.Type, x, y T) T {
	tb := in.tb
	if isSigned(yT) {
		neg := tb.Bin(term.SLt, y, tb.BV(y.W, 0))
		if in.decide(neg) {
			in.rtPanic("negative shift amount")
		}
	}
	w := x.W
	// bring y to x's width, saturating
	var amt T
	if y.W > w {
		// if y >= w (as unsigned) then the result is all-0 / sign fill
		big := tb.Bin(term.ULe, tb.BV(y.W, uint64(w)), y)
		lowy := tb.ExtractBits(y, w-1, 0)
		amt = tb.Ite(big, tb.BV(w, uint64(w)), lowy)
	} else {
		amt = tb.ZExtTo(y, w)
	}
	switch op {
	case token.SHL:
		return tb.Bin(term.Shl, x, amt)
	case token.SHR:
		if isSigned(xT) {
			return tb.Bin(term.AShr, x, amt)
		}
		return tb.Bin(term.LShr, x, amt)
	}
	panic("shiftop")
}

func (in *Interp) unop(fr *frame, instr *ssa.UnOp, x value) value {
	tb := in.tb
	switch instr.Op {
	case token.ARROW:
		return in.chanRecv(x.(*chanObj), instr.X.Type().Underlying().(*types.Chan).Elem(), instr.CommaOk)
	case token.SUB:
		switch x := x.(type) {
		case T:
			return tb.Un(term.Neg, x)
		case float64:
			return -x
		case float32:
			return -x
		}
	case token.MUL:
		return in.loadPtr(deref(instr.X.Type()), x)
	case token.NOT:
		return tb.Not(x.(T))
	case token.XOR:
		return tb.Un(term.BvNot, x.(T))
	}
	if p, ok := x.(poison); ok {
		unsupported("use of poison value: %s", p.why)
	}
	panic(fmt.Sprintf("invalid unary op %s %T", instr.Op, x))
}

// loadPtr loads through a pointer value (concrete or symbolic index).
func (in *Interp) loadPtr(T types.Type, p value) value {
	switch p := p.(type) {
	case *value:
		if p == nil {
			in.rtPanic("invalid memory address or nil pointer dereference")
		}
		return in.load(T, p)
	case symPtr:
		// balanced ITE tree over scalar elements (index is in bounds here)
		elems := make([]*term.Term, len(p.base))
		for i := range p.base {
			e, ok := p.base[i].(*term.Term)
			if !ok {
				unsupported("symbolic index into non-scalar element %T", p.base[i])
			}
			elems[i] = e
		}
		return in.selectTree(elems, p.idx)
	case poison:
		unsupported("use of poison value: %s", p.why)
	}
	panic(fmt.Sprintf("loadPtr: unexpected %T", p))
}

func (in *Interp) storePtr(T types.Type, p value, v value) {
	switch p := p.(type) {
	case *value:
		if p == nil {
			in.rtPanic("invalid memory address or nil pointer dereference")
		}
		in.store(T, p, v)
	case symPtr:
		nv := v.(*term.Term)
		for i := range p.base {
			old := p.base[i].(*term.Term)
			in.setCell(&p.base[i], in.tb.Ite(in.tb.Bin(term.Eq, p.idx, in.int64v(int64(i))), nv, old))
		}
	case poison:
		unsupported("use of poison value: %s", p.why)
	default:
		panic(fmt.Sprintf("storePtr: unexpected %T", p))
	}
}

func (in *Interp) typeAssert(instr *ssa.TypeAssert, itf iface) value {
	var v value
	err := ""
	if itf.t == nil {
		err = fmt.Sprintf("interface conversion: interface is nil, not %s", instr.AssertedType)
	} else if idst, ok := instr.AssertedType.Underlying().(*types.Interface); ok {
		v = itf
		if meth, _ := types.MissingMethod(itf.t, idst, true); meth != nil {
			err = fmt.Sprintf("interface conversion: %v is not %v: missing method %s", itf.t, idst, meth.Name())
		}
	} else if types.Identical(itf.t, instr.AssertedType) {
		v = itf.v
	} else {
		err = fmt.Sprintf("interface conversion: interface is %s, not %s", itf.t, instr.AssertedType)
	}
	if err != "" {
		if !instr.CommaOk {
			in.rtPanic(err)
		}
		return tuple{in.zero(instr.AssertedType), in.tb.False}
	}
	if instr.CommaOk {
		return tuple{v, in.tb.True}
	}
	return v
}

// conv implements ssa.Convert.
func (in *Interp) conv(fr *frame, tDst, tSrc types.Type, x value) value {
	tb := in.tb
	utSrc := tSrc.Underlying()
	utDst := tDst.Underlying()

	switch utSrc := utSrc.(type) {
	case *types.Pointer:
		if b, ok := utDst.(*types.Basic); ok && b.Kind() == types.UnsafePointer {
			return unsafePtr{x}
		}
	case *types.Slice:
		// []byte / []rune -> string
		switch utSrc.Elem().Underlying().(*types.Basic).Kind() {
		case types.Byte:
			xs := x.([]value)
			b := make([]T, len(xs))
			for i := range xs {
				b[i] = xs[i].(T)
			}
			return str{b: b}
		case types.Rune:
			xs := x.([]value)
			var b []T
			for i := range xs {
				b = append(b, in.encodeRune(xs[i].(T))...)
			}
			return str{b: b}
		}
	case *types.Basic:
		if p, ok := x.(poison); ok {
			unsupported("use of poison value: %s", p.why)
		}
		// integer -> string
		if utSrc.Info()&types.IsInteger != 0 {
			if d, ok := utDst.(*types.Basic); ok && d.Kind() == types.String {
				xt := x.(T)
				// widen to rune
				var r T
				if isSigned(tSrc) {
					r = tb.SExtTo(xt, 64)
				} else {
					r = tb.ZExtTo(xt, 64)
				}
				// out of range -> RuneError
				inRange := tb.AndB(tb.Bin(term.SLe, in.int64v(0), r), tb.Bin(term.SLe, r, in.int64v(0x10FFFF)))
				if !in.decide(inRange) {
					return in.mkStr("�")
				}
				return str{b: in.encodeRune(tb.ExtractBits(r, 31, 0))}
			}
		}
		if s, ok := x.(str); ok {
			switch d := utDst.(type) {
			case *types.Slice:
				in.checkOpaque(s)
				switch d.Elem().Underlying().(*types.Basic).Kind() {
				case types.Byte:
					res := make([]value, len(s.b))
					for i, b := range s.b {
						res[i] = b
					}
					if len(res) == 0 {
						return []value{}
					}
					return res
				case types.Rune:
					var res []value
					rest := s
					for len(rest.b) > 0 {
						r, n := in.decodeRune(fr, rest)
						res = append(res, r)
						rest = str{b: rest.b[n:]}
					}
					if res == nil {
						return []value{}
					}
					// (no spare capacity holding unset cells: the run time
					// may round the capacity up, but then to zeroed runes)
					return res[:len(res):len(res)]
				}
			case *types.Basic:
				if d.Kind() == types.String {
					return s
				}
			}
			break
		}
		if utSrc.Kind() == types.UnsafePointer {
			up := x.(unsafePtr)
			if up.v == nil {
				return in.zero(tDst)
			}
			if _, ok := utDst.(*types.Pointer); ok {
				if p, ok := up.v.(*value); ok {
					return p // type punning is not modelled; same cell
				}
			}
			if b, ok := utDst.(*types.Basic); ok && b.Kind() == types.Uintptr {
				unsupported("unsafe.Pointer -> uintptr")
			}
			unsupported("unsafe.Pointer conversion to %v", tDst)
		}
		if utSrc.Info()&types.IsNumeric != 0 {
			d, ok := utDst.(*types.Basic)
			if !ok {
				break
			}
			switch xv := x.(type) {
			case T:
				switch {
				case d.Info()&types.IsInteger != 0:
					w := widthOf(d)
					if w <= xv.W {
						if w == xv.W {
							return xv
						}
						return tb.ExtractBits(xv, w-1, 0)
					}
					if isSigned(tSrc) {
						return tb.SExtTo(xv, w)
					}
					return tb.ZExtTo(xv, w)
				case d.Kind() == types.Float64 || d.Kind() == types.Float32:
					if xv.Op != term.Const {
						unsupported("symbolic integer -> float conversion")
					}
					var f float64
					if isSigned(tSrc) {
						f = float64(xv.SVal())
					} else {
						f = float64(xv.Val)
					}
					if d.Kind() == types.Float32 {
						return float32(f)
					}
					return f
				case d.Kind() == types.UnsafePointer:
					unsupported("uintptr -> unsafe.Pointer")
				}
			case float64, float32:
				var f float64
				if f32, ok := xv.(float32); ok {
					f = float64(f32)
				} else {
					f = xv.(float64)
				}
				switch {
				case d.Kind() == types.Float64:
					return f
				case d.Kind() == types.Float32:
					return float32(f)
				case d.Info()&types.IsInteger != 0:
					w := widthOf(d)
					if d.Info()&types.IsUnsigned != 0 {
						return tb.BV(w, uint64(f))
					}
					return tb.BV(w, uint64(int64(f)))
				}
			case symFloat:
				if d.Kind() == types.Float64 || d.Kind() == types.Float32 {
					return xv
				}
				unsupported("conversion of an opaque float to %v", tDst)
			case complex128:
				switch d.Kind() {
				case types.Complex128:
					return xv
				case types.Complex64:
					return complex64(xv)
				}
			case complex64:
				switch d.Kind() {
				case types.Complex128:
					return complex128(xv)
				case types.Complex64:
					return xv
				}
			}
		}
		if utSrc.Kind() == types.Bool {
			return x
		}
	}
	panic(fmt.Sprintf("unsupported conversion: %s  -> %s, dynamic type %T", tSrc, tDst, x))
}

// encodeRune returns the UTF-8 bytes for rune r (32-bit term), forking on its range.
func (in *Interp) encodeRune(r T) []T {
	tb := in.tb
	if r.Op == term.Const {
		var buf [4]byte
		n := utf8.EncodeRune(buf[:], rune(int32(r.Val)))
		out := make([]T, n)
		for i := 0; i < n; i++ {
			out[i] = tb.BV(8, uint64(buf[i]))
		}
		return out
	}
	c := func(v uint32) T { return tb.BV(32, uint64(v)) }
	lo8 := func(t T) T { return tb.ExtractBits(t, 7, 0) }
	shr := func(t T, n uint32) T { return tb.Bin(term.LShr, t, c(n)) }
	and := func(t T, m uint32) T { return tb.Bin(term.And, t, c(m)) }
	or := func(t T, m uint32) T { return tb.Bin(term.Or, t, c(m)) }
	switch {
	case in.decide(tb.Bin(term.ULt, r, c(0x80))):
		return []T{lo8(r)}
	case in.decide(tb.Bin(term.ULt, r, c(0x800))):
		return []T{lo8(or(shr(r, 6), 0xC0)), lo8(or(and(r, 0x3F), 0x80))}
	}
	// invalid: surrogates or > 0x10FFFF or negative
	surr := tb.AndB(tb.Bin(term.ULe, c(0xD800), r), tb.Bin(term.ULe, r, c(0xDFFF)))
	big := tb.Bin(term.ULt, c(0x10FFFF), r)
	if in.decide(tb.OrB(surr, big)) {
		return []T{tb.BV(8, 0xEF), tb.BV(8, 0xBF), tb.BV(8, 0xBD)}
	}
	if in.decide(tb.Bin(term.ULt, r, c(0x10000))) {
		return []T{lo8(or(shr(r, 12), 0xE0)), lo8(or(and(shr(r, 6), 0x3F), 0x80)), lo8(or(and(r, 0x3F), 0x80))}
	}
	return []T{lo8(or(shr(r, 18), 0xF0)), lo8(or(and(shr(r, 12), 0x3F), 0x80)), lo8(or(and(shr(r, 6), 0x3F), 0x80)), lo8(or(and(r, 0x3F), 0x80))}
}

// decodeRune decodes the first rune of s by running the real
// unicode/utf8.DecodeRuneInString from SSA.
func (in *Interp) decodeRune(fr *frame, s str) (T, int) {
	if cs, ok := (str{b: s.b[:minInt(len(s.b), 4)]}).concrete(); ok {
		r, n := utf8.DecodeRuneInString(cs)
		return in.tb.BV(32, uint64(uint32(r))), n
	}
	fn := in.utf8Decode
	if fn == nil {
		unsupported("unicode/utf8.DecodeRuneInString not loaded")
	}
	res := in.call(fr, token.NoPos, fn, []value{s}).(tuple)
	n, ok := asConstInt(res[1])
	if !ok {
		n = in.concretise(res[1].(T))
	}
	return res[0].(T), int(n)
}

func minInt(a, b int) int {
	if a < b {
		return a
	}
	return b
}

var _ = math.Inf

// selectTree returns elems[idx] for an in-bounds symbolic idx as a balanced
// ITE tree over the bits of idx (shared sub-trees are hash-consed).
func (in *Interp) selectTree(elems []*term.Term, idx *term.Term) *term.Term {
	n := len(elems)
	if n == 0 {
		panic("selectTree: empty")
	}
	bits := 0
	for (1 << bits) < n {
		bits++
	}
	var rec func(lo, size, bit int) *term.Term
	rec = func(lo, size, bit int) *term.Term {
		if lo >= n {
			return nil
		}
		if size == 1 {
			return elems[lo]
		}
		half := size / 2
		l := rec(lo, half, bit-1)
		h := rec(lo+half, half, bit-1)
		if h == nil {
			return l
		}
		if l == h {
			return l
		}
		b := in.tb.Bin(term.Eq, in.tb.ExtractBits(idx, uint8(bit-1), uint8(bit-1)), in.tb.BV(1, 1))
		return in.tb.Ite(b, h, l)
	}
	return rec(0, 1<<bits, bits)
}
