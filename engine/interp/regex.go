package interp

import (
	"fmt"
	"regexp/syntax"
	"unicode"

	"symgo/term"
)

// regexModel is the value a *regexp.Regexp pointer cell holds in the engine.
// The program is Go's own regexp/syntax program for the pattern as written
// in the source (Perl flags, simplified, compiled) — the one the real
// matcher runs — executed by a symbolic Pike VM (leftmost-first).
type regexModel struct {
	pattern       string
	prog          *syntax.Prog
	ncap          int
	anchoredStart bool
}

func (in *Interp) compileRegex(pattern string) (*regexModel, error) {
	if m, ok := in.regexCache[pattern]; ok {
		return m, nil
	}
	re, err := syntax.Parse(pattern, syntax.Perl)
	if err != nil {
		return nil, err
	}
	ncap := re.MaxCap()
	re = re.Simplify()
	prog, err := syntax.Compile(re)
	if err != nil {
		return nil, err
	}
	m := &regexModel{pattern: pattern, prog: prog, ncap: 2 * (ncap + 1)}
	m.anchoredStart = prog.StartCond()&syntax.EmptyBeginText != 0
	in.regexCache[pattern] = m
	return m, nil
}

type rxThread struct {
	pc   int
	cond T
	caps []int
}

type rxMatch struct {
	cond T
	caps []int
}

type rxQueue struct {
	threads []rxThread
	visited map[int]T // pc -> condition under which pc was already visited in this step
}

func newRxQueue() *rxQueue { return &rxQueue{visited: map[int]T{}} }

// rune at a position: r is a 32-bit term; -1 at end of text
type rxRune struct {
	r     T
	width int
	eof   bool
}

func (in *Interp) rxIsWord(r rxRune) T {
	tb := in.tb
	if r.eof {
		return tb.False
	}
	c := func(v rune) T { return tb.BV(32, uint64(uint32(v))) }
	rng := func(lo, hi rune) T {
		return tb.AndB(tb.Bin(term.ULe, c(lo), r.r), tb.Bin(term.ULe, r.r, c(hi)))
	}
	return tb.OrB(tb.OrB(rng('a', 'z'), rng('A', 'Z')), tb.OrB(rng('0', '9'), tb.Bin(term.Eq, r.r, c('_'))))
}

func (in *Interp) rxEmptyCond(op syntax.EmptyOp, prev, next rxRune, pos, n int) T {
	tb := in.tb
	res := tb.True
	nl := tb.BV(32, '\n')
	if op&syntax.EmptyBeginText != 0 {
		res = tb.AndB(res, tb.Bool(pos == 0))
	}
	if op&syntax.EmptyEndText != 0 {
		res = tb.AndB(res, tb.Bool(pos == n))
	}
	if op&syntax.EmptyBeginLine != 0 {
		if pos != 0 {
			res = tb.AndB(res, tb.Bin(term.Eq, prev.r, nl))
		}
	}
	if op&syntax.EmptyEndLine != 0 {
		if pos != n {
			res = tb.AndB(res, tb.Bin(term.Eq, next.r, nl))
		}
	}
	if op&(syntax.EmptyWordBoundary|syntax.EmptyNoWordBoundary) != 0 {
		pw := tb.False
		if pos != 0 {
			pw = in.rxIsWord(prev)
		}
		nw := in.rxIsWord(next)
		differ := tb.Not(tb.Bin(term.Eq, pw, nw))
		if op&syntax.EmptyWordBoundary != 0 {
			res = tb.AndB(res, differ)
		}
		if op&syntax.EmptyNoWordBoundary != 0 {
			res = tb.AndB(res, tb.Not(differ))
		}
	}
	return res
}

func (in *Interp) rxAdd(m *regexModel, q *rxQueue, pc int, cond T, caps []int, prev, next rxRune, pos, n int) {
	cond = in.fold(cond)
	if cond.IsFalse() {
		return
	}
	if v, ok := q.visited[pc]; ok {
		cond = in.tb.AndB(cond, in.tb.Not(v))
		if cond.IsFalse() {
			return
		}
		q.visited[pc] = in.tb.OrB(v, cond)
	} else {
		q.visited[pc] = cond
	}
	i := &m.prog.Inst[pc]
	switch i.Op {
	case syntax.InstFail:
	case syntax.InstAlt, syntax.InstAltMatch:
		in.rxAdd(m, q, int(i.Out), cond, caps, prev, next, pos, n)
		in.rxAdd(m, q, int(i.Arg), cond, caps, prev, next, pos, n)
	case syntax.InstEmptyWidth:
		c := in.rxEmptyCond(syntax.EmptyOp(i.Arg), prev, next, pos, n)
		in.rxAdd(m, q, int(i.Out), in.tb.AndB(cond, c), caps, prev, next, pos, n)
	case syntax.InstNop:
		in.rxAdd(m, q, int(i.Out), cond, caps, prev, next, pos, n)
	case syntax.InstCapture:
		if int(i.Arg) < len(caps) {
			nc := append([]int(nil), caps...)
			nc[i.Arg] = pos
			in.rxAdd(m, q, int(i.Out), cond, nc, prev, next, pos, n)
		} else {
			in.rxAdd(m, q, int(i.Out), cond, caps, prev, next, pos, n)
		}
	case syntax.InstMatch, syntax.InstRune, syntax.InstRune1, syntax.InstRuneAny, syntax.InstRuneAnyNotNL:
		q.threads = append(q.threads, rxThread{pc: pc, cond: cond, caps: caps})
	default:
		unsupported("regex: unhandled instruction %v", i.Op)
	}
}

// rxRuneMatch returns the condition under which rune r matches instruction i.
func (in *Interp) rxRuneMatch(i *syntax.Inst, r rxRune) T {
	tb := in.tb
	if r.eof {
		return tb.False
	}
	c := func(v rune) T { return tb.BV(32, uint64(uint32(v))) }
	switch i.Op {
	case syntax.InstRuneAny:
		return tb.True
	case syntax.InstRuneAnyNotNL:
		return tb.Not(tb.Bin(term.Eq, r.r, c('\n')))
	case syntax.InstRune1, syntax.InstRune:
		rs := i.Rune
		if len(rs) == 1 {
			r0 := rs[0]
			res := tb.Bin(term.Eq, r.r, c(r0))
			if syntax.Flags(i.Arg)&syntax.FoldCase != 0 {
				for r1 := unicode.SimpleFold(r0); r1 != r0; r1 = unicode.SimpleFold(r1) {
					res = tb.OrB(res, tb.Bin(term.Eq, r.r, c(r1)))
				}
			}
			return res
		}
		res := tb.False
		for j := 0; j+1 < len(rs); j += 2 {
			lo, hi := rs[j], rs[j+1]
			var rc T
			if lo == hi {
				rc = tb.Bin(term.Eq, r.r, c(lo))
			} else {
				rc = tb.AndB(tb.Bin(term.ULe, c(lo), r.r), tb.Bin(term.ULe, r.r, c(hi)))
			}
			res = tb.OrB(res, rc)
		}
		return res
	}
	panic("rxRuneMatch")
}

// rxRun runs the VM over s and returns the candidate matches in time order
// (the last candidate whose condition holds is the result).
func (in *Interp) rxRun(fr *frame, m *regexModel, s str) []rxMatch {
	tb := in.tb
	n := len(s.b)
	in.checkOpaque(s)
	// rune decoding is lazy and forks on the UTF-8 structure of the input
	runeAt := func(pos int) rxRune {
		if pos >= n {
			return rxRune{r: tb.BV(32, 0xffffffff), width: 0, eof: true}
		}
		b := s.b[pos]
		if in.decide(tb.Bin(term.ULt, b, tb.BV(8, 0x80))) {
			return rxRune{r: tb.ZExtTo(b, 32), width: 1}
		}
		r, w := in.decodeRune(fr, str{b: s.b[pos:]})
		return rxRune{r: r, width: w}
	}
	var matches []rxMatch
	matchedSoFar := tb.False
	runq := newRxQueue()
	pos := 0
	prev := rxRune{eof: true, r: tb.BV(32, 0xffffffff)}
	next := runeAt(0)
	for {
		if len(runq.threads) == 0 {
			if m.anchoredStart && pos > 0 {
				break
			}
			if matchedSoFar.IsTrue() {
				break
			}
		}
		if !matchedSoFar.IsTrue() && (pos == 0 || !m.anchoredStart) {
			caps := make([]int, m.ncap)
			for i := range caps {
				caps[i] = -1
			}
			caps[0] = pos
			in.rxAdd(m, runq, m.prog.Start, tb.Not(matchedSoFar), caps, prev, next, pos, n)
		}
		// step
		nextq := newRxQueue()
		notCut := tb.True
		var after rxRune
		if !next.eof {
			after = runeAt(pos + next.width)
		} else {
			after = next
		}
		for _, t := range runq.threads {
			cond := tb.AndB(t.cond, notCut)
			if cond.IsFalse() {
				continue
			}
			i := &m.prog.Inst[t.pc]
			switch i.Op {
			case syntax.InstMatch:
				caps := append([]int(nil), t.caps...)
				caps[1] = pos
				matches = append(matches, rxMatch{cond: cond, caps: caps})
				matchedSoFar = tb.OrB(matchedSoFar, cond)
				notCut = tb.AndB(notCut, tb.Not(t.cond))
			default:
				mc := in.fold(in.rxRuneMatch(i, next))
				in.rxAdd(m, nextq, int(i.Out), tb.AndB(cond, mc), t.caps, next, after, pos+next.width, n)
			}
		}
		if next.eof {
			break
		}
		pos += next.width
		prev = next
		next = after
		runq = nextq
		// threads only continue where no higher-priority match cut them; matches at
		// later steps override earlier ones (leftmost-first): handled by ordering.
	}
	return matches
}

// rxSelect forks over the candidates and returns the capture vector of the
// winning match, or nil if there is none.
func (in *Interp) rxSelect(matches []rxMatch) []int {
	for k := len(matches) - 1; k >= 0; k-- {
		if in.decide(matches[k].cond) {
			return matches[k].caps
		}
	}
	return nil
}

func (in *Interp) regexOf(v value) *regexModel {
	p, ok := v.(*value)
	if !ok || p == nil {
		in.rtPanic("invalid memory address or nil pointer dereference (nil *regexp.Regexp)")
	}
	m, ok := (*p).(*regexModel)
	if !ok {
		unsupported("regexp value is not a modelled regex (%T)", *p)
	}
	return m
}

func initRegexExternals() {
	compile := func(fr *frame, a []value) *value {
		in := fr.in
		pat := in.concreteStrArg(a[0], "regexp pattern")
		m, err := in.compileRegex(pat)
		if err != nil {
			return nil
		}
		cell := new(value)
		*cell = m
		return cell
	}
	externals["regexp.MustCompile"] = func(fr *frame, a []value) value {
		c := compile(fr, a)
		if c == nil {
			fr.in.rtPanic("regexp: Compile failed: " + fr.in.concreteStrArg(a[0], "pattern"))
		}
		return c
	}
	externals["regexp.Compile"] = func(fr *frame, a []value) value {
		c := compile(fr, a)
		if c == nil {
			unsupported("regexp.Compile error path")
		}
		return tuple{c, iface{}}
	}
	externals["(*regexp.Regexp).MatchString"] = func(fr *frame, a []value) value {
		in := fr.in
		ms := in.rxRun(fr, in.regexOf(a[0]), a[1].(str))
		res := in.tb.False
		for _, m := range ms {
			res = in.tb.OrB(res, m.cond)
		}
		return res
	}
	externals["(*regexp.Regexp).Match"] = func(fr *frame, a []value) value {
		in := fr.in
		ms := in.rxRun(fr, in.regexOf(a[0]), str{b: bytesOf(a[1])})
		res := in.tb.False
		for _, m := range ms {
			res = in.tb.OrB(res, m.cond)
		}
		return res
	}
	externals["(*regexp.Regexp).FindString"] = func(fr *frame, a []value) value {
		in := fr.in
		s := a[1].(str)
		caps := in.rxSelect(in.rxRun(fr, in.regexOf(a[0]), s))
		if caps == nil {
			return str{}
		}
		return str{b: s.b[caps[0]:caps[1]]}
	}
	externals["(*regexp.Regexp).Find"] = func(fr *frame, a []value) value {
		in := fr.in
		b := a[1].([]value)
		caps := in.rxSelect(in.rxRun(fr, in.regexOf(a[0]), str{b: bytesOf(a[1])}))
		if caps == nil {
			return []value(nil)
		}
		return b[caps[0]:caps[1]:caps[1]]
	}
	externals["(*regexp.Regexp).FindStringSubmatch"] = func(fr *frame, a []value) value {
		in := fr.in
		s := a[1].(str)
		m := in.regexOf(a[0])
		caps := in.rxSelect(in.rxRun(fr, m, s))
		if caps == nil {
			return []value(nil)
		}
		res := make([]value, m.ncap/2)
		for i := range res {
			if caps[2*i] >= 0 && caps[2*i+1] >= 0 {
				res[i] = str{b: s.b[caps[2*i]:caps[2*i+1]]}
			} else {
				res[i] = str{}
			}
		}
		return res
	}
	externals["(*regexp.Regexp).String"] = func(fr *frame, a []value) value {
		return fr.in.mkStr(fr.in.regexOf(a[0]).pattern)
	}
	_ = fmt.Sprint
}

// ---------------------------------------------------------------------
// strings.Replacer model: leftmost, non-overlapping, argument order.

type replacerModel struct {
	olds       []string
	news       []str // replacement texts may be symbolic; the patterns are concrete
	singleByte bool
}

func initReplacerExternals() {
	externals["strings.NewReplacer"] = func(fr *frame, a []value) value {
		in := fr.in
		args := a[0].([]value)
		if len(args)%2 == 1 {
			in.rtPanic("strings.NewReplacer: odd argument count")
		}
		m := &replacerModel{singleByte: true}
		for i := 0; i < len(args); i += 2 {
			o := in.concreteStrArg(args[i], "Replacer old string")
			n, ok := args[i+1].(str)
			if !ok {
				unsupported("Replacer new string: %T", args[i+1])
			}
			in.checkOpaque(n)
			m.olds = append(m.olds, o)
			m.news = append(m.news, n)
			if len(o) != 1 {
				m.singleByte = false
			}
		}
		cell := new(value)
		*cell = m
		return cell
	}
	externals["(*strings.Replacer).Replace"] = func(fr *frame, a []value) value {
		in := fr.in
		p, ok := a[0].(*value)
		if !ok || p == nil {
			in.rtPanic("nil *strings.Replacer")
		}
		m, ok := (*p).(*replacerModel)
		if !ok {
			unsupported("strings.Replacer value is not a modelled replacer (%T)", *p)
		}
		s := a[1].(str)
		in.checkOpaque(s)
		if m.singleByte {
			var out []T
			for _, b := range s.b {
				replaced := false
				for k, o := range m.olds {
					if in.decide(in.tb.Bin(term.Eq, b, in.tb.BV(8, uint64(o[0])))) {
						out = append(out, m.news[k].b...)
						replaced = true
						break
					}
				}
				if !replaced {
					out = append(out, b)
				}
			}
			return str{b: out}
		}
		cs, ok := s.concrete()
		if !ok {
			unsupported("strings.Replacer with multi-byte patterns on a symbolic string")
		}
		// generic algorithm on concrete input (replacement texts may be symbolic)
		var out []T
		for i := 0; i < len(cs); {
			matched := false
			for k, o := range m.olds {
				if o != "" && len(cs)-i >= len(o) && cs[i:i+len(o)] == o {
					out = append(out, m.news[k].b...)
					i += len(o)
					matched = true
					break
				}
			}
			if !matched {
				out = append(out, s.b[i])
				i++
			}
		}
		return str{b: out}
	}
}
