package interp

import (
	"math/bits"

	"symgo/term"
)

// Unsigned interval analysis over terms: a cheap, sound pre-check that
// settles many one-sided branches without a solver query.

type urange struct{ lo, hi uint64 }

func maskW(w uint8) uint64 {
	if w >= 64 {
		return ^uint64(0)
	}
	if w == 0 {
		return 1
	}
	return (uint64(1) << w) - 1
}

func (in *Interp) rangeOf(t T) urange {
	if t.Op == term.Const {
		return urange{t.Val, t.Val}
	}
	p := in.path
	if p.rangeVer != p.boundsVer || p.rangeMemo == nil {
		p.rangeMemo = map[*term.Term]urange{}
		p.rangeVer = p.boundsVer
	}
	if r, ok := p.rangeMemo[t]; ok {
		return r
	}
	m := maskW(t.W)
	r := urange{0, m}
	a := t.A
	switch t.Op {
	case term.Var:
		if b, ok := p.bounds[t]; ok {
			r = b
		}
	case term.And:
		x, y := in.rangeOf(a[0]), in.rangeOf(a[1])
		r = urange{0, minU(x.hi, y.hi)}
	case term.Or, term.Xor:
		x, y := in.rangeOf(a[0]), in.rangeOf(a[1])
		h := maxU(x.hi, y.hi)
		if h != 0 {
			h = (uint64(1) << uint(bits.Len64(h))) - 1
			if bits.Len64(maxU(x.hi, y.hi)) == 64 {
				h = ^uint64(0)
			}
		}
		lo := uint64(0)
		if t.Op == term.Or {
			lo = maxU(x.lo, y.lo)
		}
		r = urange{lo, h & m}
	case term.LShr:
		x, y := in.rangeOf(a[0]), in.rangeOf(a[1])
		if y.lo == y.hi && y.lo < 64 {
			r = urange{x.lo >> y.lo, x.hi >> y.lo}
		} else {
			r = urange{0, x.hi}
		}
	case term.Shl:
		x, y := in.rangeOf(a[0]), in.rangeOf(a[1])
		if y.lo == y.hi && y.lo < 64 && bits.Len64(x.hi)+int(y.lo) <= int(t.W) {
			r = urange{x.lo << y.lo, x.hi << y.lo}
		}
	case term.ZExt:
		r = in.rangeOf(a[0])
	case term.Extract:
		lo := uint8(t.Val & 0xff)
		if lo == 0 {
			x := in.rangeOf(a[0])
			if x.hi <= m {
				r = x
			}
		}
	case term.Add:
		x, y := in.rangeOf(a[0]), in.rangeOf(a[1])
		if s := x.hi + y.hi; s >= x.hi && s <= m {
			r = urange{x.lo + y.lo, s}
		}
	case term.Mul:
		x, y := in.rangeOf(a[0]), in.rangeOf(a[1])
		hi, lo := bits.Mul64(x.hi, y.hi)
		if hi == 0 && lo <= m {
			r = urange{x.lo * y.lo, lo}
		}
	case term.Sub:
		x, y := in.rangeOf(a[0]), in.rangeOf(a[1])
		if x.lo >= y.hi {
			r = urange{x.lo - y.hi, x.hi - y.lo}
		}
	case term.UDiv:
		x, y := in.rangeOf(a[0]), in.rangeOf(a[1])
		if y.lo > 0 {
			r = urange{x.lo / y.hi, x.hi / y.lo}
		}
	case term.URem:
		x, y := in.rangeOf(a[0]), in.rangeOf(a[1])
		if y.lo > 0 {
			r = urange{0, minU(x.hi, y.hi-1)}
		}
	case term.Ite:
		if v, ok := in.known(a[0]); ok {
			if v {
				r = in.rangeOf(a[1])
			} else {
				r = in.rangeOf(a[2])
			}
		} else {
			x, y := in.rangeOf(a[1]), in.rangeOf(a[2])
			r = urange{minU(x.lo, y.lo), maxU(x.hi, y.hi)}
		}
	}
	p.rangeMemo[t] = r
	return r
}

func minU(a, b uint64) uint64 {
	if a < b {
		return a
	}
	return b
}

func maxU(a, b uint64) uint64 {
	if a > b {
		return a
	}
	return b
}

// rangeDecide tries to settle a predicate from intervals.
func (in *Interp) rangeDecide(c T) (bool, bool) {
	switch c.Op {
	case term.Not:
		v, ok := in.rangeDecide(c.A[0])
		return !v, ok
	case term.Eq:
		if c.A[0].W == 0 {
			return false, false
		}
		x, y := in.rangeOf(c.A[0]), in.rangeOf(c.A[1])
		if x.hi < y.lo || y.hi < x.lo {
			return false, true
		}
		if x.lo == x.hi && y.lo == y.hi && x.lo == y.lo {
			return true, true
		}
	case term.ULt:
		x, y := in.rangeOf(c.A[0]), in.rangeOf(c.A[1])
		if x.hi < y.lo {
			return true, true
		}
		if x.lo >= y.hi {
			return false, true
		}
	case term.ULe:
		x, y := in.rangeOf(c.A[0]), in.rangeOf(c.A[1])
		if x.hi <= y.lo {
			return true, true
		}
		if x.lo > y.hi {
			return false, true
		}
	case term.SLt, term.SLe:
		w := c.A[0].W
		x, y := in.rangeOf(c.A[0]), in.rangeOf(c.A[1])
		half := uint64(1) << (w - 1)
		if x.hi < half && y.hi < half {
			if c.Op == term.SLt {
				if x.hi < y.lo {
					return true, true
				}
				if x.lo >= y.hi {
					return false, true
				}
			} else {
				if x.hi <= y.lo {
					return true, true
				}
				if x.lo > y.hi {
					return false, true
				}
			}
		}
	case term.BAnd:
		a, oka := in.rangeDecide(c.A[0])
		b, okb := in.rangeDecide(c.A[1])
		if oka && !a || okb && !b {
			return false, true
		}
		if oka && okb {
			return true, true
		}
	case term.BOr:
		a, oka := in.rangeDecide(c.A[0])
		b, okb := in.rangeDecide(c.A[1])
		if oka && a || okb && b {
			return true, true
		}
		if oka && okb {
			return false, true
		}
	}
	return false, false
}

// learnBound narrows variable bounds from a decided comparison.
func (in *Interp) learnBound(c T, val bool) {
	p := in.path
	set := func(v T, lo, hi uint64) {
		if v.Op != term.Var || v.W == 0 {
			return
		}
		if p.bounds == nil {
			p.bounds = map[*term.Term]urange{}
		}
		b, ok := p.bounds[v]
		if !ok {
			b = urange{0, maskW(v.W)}
		}
		if lo > b.lo {
			b.lo = lo
		}
		if hi < b.hi {
			b.hi = hi
		}
		p.bounds[v] = b
		p.boundsVer++
	}
	x, y := c.A[0], c.A[1]
	switch c.Op {
	case term.ULt:
		if y.Op == term.Const { // x < k
			if val && y.Val > 0 {
				set(x, 0, y.Val-1)
			} else if !val {
				set(x, y.Val, ^uint64(0))
			}
		} else if x.Op == term.Const { // k < y
			if val {
				set(y, x.Val+1, ^uint64(0))
			} else {
				set(y, 0, x.Val)
			}
		}
	case term.ULe:
		if y.Op == term.Const { // x <= k
			if val {
				set(x, 0, y.Val)
			} else {
				set(x, y.Val+1, ^uint64(0))
			}
		} else if x.Op == term.Const { // k <= y
			if val {
				set(y, x.Val, ^uint64(0))
			} else if x.Val > 0 {
				set(y, 0, x.Val-1)
			}
		}
	case term.Eq:
		if val && y.Op == term.Const {
			set(x, y.Val, y.Val)
		}
	}
}

// impliedBounds returns per-variable unsigned bounds implied by c being val.
// And: intersection; Or: hull over variables bounded on both sides.
func (in *Interp) impliedBounds(c T, val bool) map[*term.Term]urange {
	full := func(v T) urange { return urange{0, maskW(v.W)} }
	one := func(v T, lo, hi uint64) map[*term.Term]urange {
		if v.Op != term.Var || v.W == 0 {
			return nil
		}
		f := full(v)
		if lo < f.lo {
			lo = f.lo
		}
		if hi > f.hi {
			hi = f.hi
		}
		return map[*term.Term]urange{v: {lo, hi}}
	}
	switch c.Op {
	case term.Not:
		return in.impliedBounds(c.A[0], !val)
	case term.BAnd, term.BOr:
		conj := (c.Op == term.BAnd) == val // behaves as a conjunction of (possibly negated) parts
		a := in.impliedBounds(c.A[0], val)
		b := in.impliedBounds(c.A[1], val)
		out := map[*term.Term]urange{}
		if conj {
			for v, r := range a {
				out[v] = r
			}
			for v, r := range b {
				if o, ok := out[v]; ok {
					out[v] = urange{maxU(o.lo, r.lo), minU(o.hi, r.hi)}
				} else {
					out[v] = r
				}
			}
		} else {
			for v, r := range a {
				if o, ok := b[v]; ok {
					out[v] = urange{minU(o.lo, r.lo), maxU(o.hi, r.hi)}
				}
			}
		}
		return out
	case term.ULt:
		x, y := c.A[0], c.A[1]
		if y.Op == term.Const {
			if val {
				if y.Val == 0 {
					return nil
				}
				return one(x, 0, y.Val-1)
			}
			return one(x, y.Val, ^uint64(0))
		}
		if x.Op == term.Const {
			if val {
				if x.Val == ^uint64(0) {
					return nil
				}
				return one(y, x.Val+1, ^uint64(0))
			}
			return one(y, 0, x.Val)
		}
	case term.ULe:
		x, y := c.A[0], c.A[1]
		if y.Op == term.Const {
			if val {
				return one(x, 0, y.Val)
			}
			if y.Val == ^uint64(0) {
				return nil
			}
			return one(x, y.Val+1, ^uint64(0))
		}
		if x.Op == term.Const {
			if val {
				return one(y, x.Val, ^uint64(0))
			}
			if x.Val == 0 {
				return nil
			}
			return one(y, 0, x.Val-1)
		}
	case term.Eq:
		if val && c.A[1].Op == term.Const {
			return one(c.A[0], c.A[1].Val, c.A[1].Val)
		}
	}
	return nil
}

func (in *Interp) learnImplied(c T, val bool) {
	p := in.path
	for v, r := range in.impliedBounds(c, val) {
		if p.bounds == nil {
			p.bounds = map[*term.Term]urange{}
		}
		b, ok := p.bounds[v]
		if !ok {
			b = urange{0, maskW(v.W)}
		}
		nb := urange{maxU(b.lo, r.lo), minU(b.hi, r.hi)}
		if nb != b {
			p.bounds[v] = nb
			p.boundsVer++
		}
	}
}

// fold replaces a condition by a constant when facts/intervals settle it.
func (in *Interp) fold(c T) T {
	if c.Op == term.Const || in.path == nil {
		return c
	}
	if v, ok := in.settled(c); ok {
		return in.tb.Bool(v)
	}
	return c
}
