package interp

import (
	"fmt"
	"go/token"
	"os"
	"sort"
	"time"

	"golang.org/x/tools/go/ssa"

	"symgo/smt"
	"symgo/term"
)

// Model is a variable assignment by name (portable between workers).
type Model map[string]uint64

type spawnedGo struct {
	fn   value
	args []value
	pos  token.Pos
}

// Violation is a failed assertion with a model.
type Violation struct {
	Label     string            `json:"label"`
	Pos       string            `json:"pos"`
	Model     Model             `json:"model"`
	Decisions []Decision        `json:"decisions"`
	Kind      string            `json:"kind"` // assert | panic
	Detail    string            `json:"detail,omitempty"`
	Known     string            `json:"known,omitempty"`
	Extra     map[string]string `json:"extra,omitempty"`
}

// Decision is one entry of a path's decision vector: a branch direction,
// or (HasV) the outcome of comparing a concretised term with value V.
type Decision struct {
	B    bool   `json:"b"`
	V    uint64 `json:"v,omitempty"`
	HasV bool   `json:"c,omitempty"`
}

// WorkItem is a decision prefix to explore.
type WorkItem struct {
	Prefix []Decision
	Model  Model // satisfies the path condition at the end of Prefix (may be nil)
}

type pathState struct {
	prefix   []Decision
	pos      int
	decs     []Decision
	item     *WorkItem
	pc       []T
	model    term.Env // valid iff modelOK
	modelOK  bool
	pcVars   map[*term.Term]bool
	steps    int
	maxSteps int
	maxDecs  int
	maxConc  int

	newItems   []WorkItem
	violations []Violation
	covers     map[string]Model
	asserts    map[string]int // label -> times checked
	notes      []string       // inconclusive notes (solver unknown etc.)
	spawned    []spawnedGo
	varCtr     map[string]int
	freshCtr   int
	ghost      map[string]value

	nondetMapOrder  bool
	reverseMapOrder bool
	keyMapOrder     int // +1 ascending by key, -1 descending (ghost orders)
	concrete        bool // replay mode: all nondet values come from input model
	input           Model
	known           map[string]bool // enabled known-finding exclusions
	assertQueries   int
	queryHook       func(label string, pc []T, neg T, r smt.Result) // thorough: cross-solver
	crossChecked    int
	crossUnknown    int
	crossDisagree   []string
	stopOnViolation bool
	stubs           map[*ssa.Function]*ssa.Function
	stubCalls       map[string]int
	lockEvents      int
	condWaitHook    value
	recursionLimit  int
	stepLimit       int64 // verifStepLimit: more steps than this is non-termination (fatal)
	condSignals     int
	labelFilter     func(string) bool
	condBroadcasts  int
	condWaits       int
	fnsCalled       map[*ssa.Function]bool
	harness         *Harness
	oneShot         *smt.OneShot
	oneShotTimeout  time.Duration
	oneShotErr      string
	oneShotQueries  int
	oneShotTime     time.Duration
	pathVars        map[string]bool
	fallbackQueries int
	fallbackTime    time.Duration
	knownSeen       map[string]bool
	cuts            map[string]int
	facts           map[*term.Term]bool
	consts          term.Env
	constsVer       int
	pevalVer        int
	pevalMemo       map[*term.Term]pevalRes
	bounds          map[*term.Term]urange
	boundsVer       int
	rangeVer        int
	rangeMemo       map[*term.Term]urange
	uncaught        []Violation
}

func (in *Interp) newVarName(base string) string {
	p := in.path
	n := p.varCtr[base]
	p.varCtr[base] = n + 1
	if n == 0 {
		return base
	}
	return fmt.Sprintf("%s#%d", base, n)
}

// nondet creates (or, in concrete mode, looks up) an input value.
func (in *Interp) nondet(name string, w uint8) T {
	p := in.path
	if p == nil {
		unsupported("nondet outside of a path")
	}
	if p.concrete {
		v, ok := p.input[name]
		if !ok {
			v = 0
		}
		if w == 0 {
			return in.tb.Bool(v != 0)
		}
		return in.tb.BV(w, v)
	}
	v := in.tb.NewVar(name, w)
	if p.pathVars == nil {
		p.pathVars = map[string]bool{}
	}
	p.pathVars[name] = true
	return v
}

func (in *Interp) freshBool(base string) T {
	p := in.path
	p.freshCtr++
	return in.nondet(fmt.Sprintf("$%s%d", base, p.freshCtr), 0)
}

func (in *Interp) envToModel(env term.Env) Model {
	m := Model{}
	for v, x := range env {
		if in.path != nil && in.path.pathVars != nil && !in.path.pathVars[v.Name] {
			continue
		}
		m[v.Name] = x
	}
	return m
}

func (in *Interp) modelToEnv(m Model) term.Env {
	env := term.Env{}
	for name, x := range m {
		if v := in.tb.LookupVar(name); v != nil {
			env[v] = x
		}
	}
	return env
}

func (in *Interp) addPC(c T) {
	p := in.path
	p.pc = append(p.pc, c)
	if p.oneShot == nil {
		in.solver.Assert(c)
	}
	in.learn(c, true)
}

func (in *Interp) lastSolverErr() string {
	if in.path != nil && in.path.oneShot != nil {
		return in.path.oneShotErr
	}
	return in.solver.LastErr
}

// query asks whether PC (plus an optional assumption) is satisfiable.
func (in *Interp) query(assume T, wantModel bool) (smt.Result, term.Env, error) {
	p := in.path
	if p.oneShot != nil {
		asserts := append([]T(nil), p.pc...)
		if assume != nil {
			asserts = append(asserts, assume)
		}
		var vars []T
		if wantModel {
			vars = in.tb.Vars
		}
		r, env, out, d := p.oneShot.Solve(asserts, vars, p.oneShotTimeout)
		p.oneShotQueries++
		p.oneShotTime += d
		if r == smt.Unknown {
			p.oneShotErr = firstLine(out)
		}
		if r == smt.Sat && env != nil {
			// variables not occurring in the query are unconstrained
			for _, v := range in.tb.Vars {
				if _, ok := env[v]; !ok {
					env[v] = 0
				}
			}
		}
		if r == smt.Sat && env == nil && wantModel {
			return r, nil, fmt.Errorf("no model from %s: %s", p.oneShot.Name, firstLine(out))
		}
		return r, env, nil
	}
	var r smt.Result
	if assume != nil {
		r = in.solver.Check(assume)
	} else {
		r = in.solver.Check()
	}
	if r == smt.Sat && wantModel {
		env, err := in.solver.Model(in.tb.Vars)
		return r, env, err
	}
	if r == smt.Unknown && !noFallback {
		// fall back to one-shot back ends: integer encoding first (linear
		// arithmetic, decimal kernels), then cvc5's bit-blaster
		asserts := append([]T(nil), p.pc...)
		if assume != nil {
			asserts = append(asserts, assume)
		}
		var vars []T
		if wantModel {
			vars = in.tb.Vars
		}
		for _, o := range []smt.OneShot{smt.CVC5Int, smt.CVC5} {
			r2, env, _, d := o.Solve(asserts, vars, 120*time.Second)
			p.fallbackQueries++
			p.fallbackTime += d
			if r2 == smt.Unknown {
				continue
			}
			if r2 == smt.Sat && wantModel {
				if env == nil {
					continue
				}
				for _, v := range in.tb.Vars {
					if _, ok := env[v]; !ok {
						env[v] = 0
					}
				}
			}
			return r2, env, nil
		}
	}
	return r, nil, nil
}

var noFallback = os.Getenv("SYMGO_NOFALLBACK") != ""

// learn records facts implied syntactically by a path-condition conjunct:
// the truth value of the conjunct itself (and of its negation / conjuncts),
// and variable = constant bindings.
func (in *Interp) learn(c T, val bool) {
	p := in.path
	if p.facts == nil {
		p.facts = map[*term.Term]bool{}
		p.consts = term.Env{}
	}
	if _, ok := p.facts[c]; ok {
		return
	}
	p.facts[c] = val
	switch c.Op {
	case term.Not:
		in.learn(c.A[0], !val)
	case term.BAnd:
		if val {
			in.learn(c.A[0], true)
			in.learn(c.A[1], true)
		}
	case term.BOr:
		if !val {
			in.learn(c.A[0], false)
			in.learn(c.A[1], false)
		} else {
			in.learnImplied(c, true)
		}
	case term.Var:
		p.consts[c] = b2u(val)
		p.constsVer++
	case term.Eq:
		if val && c.A[0].Op == term.Var && c.A[1].Op == term.Const {
			p.consts[c.A[0]] = c.A[1].Val
			p.constsVer++
		}
		in.learnBound(c, val)
	case term.ULt, term.ULe:
		in.learnBound(c, val)
	}
}

func b2u(b bool) uint64 {
	if b {
		return 1
	}
	return 0
}

// known returns the value of c if it follows from recorded facts.
func (in *Interp) known(c T) (bool, bool) {
	p := in.path
	if p.facts == nil {
		p.facts = map[*term.Term]bool{}
		p.consts = term.Env{}
	}
	if v, ok := p.facts[c]; ok {
		return v, true
	}
	if len(p.consts) == 0 {
		return false, false
	}
	if p.pevalVer != p.constsVer {
		p.pevalMemo = map[*term.Term]pevalRes{}
		p.pevalVer = p.constsVer
	}
	r := in.peval(c)
	if r.ok {
		return r.v != 0, true
	}
	return false, false
}

// settled combines syntactic facts, partial evaluation and intervals.
func (in *Interp) settled(c T) (bool, bool) {
	if v, ok := in.known(c); ok {
		return v, true
	}
	if noRanges {
		return false, false
	}
	return in.rangeDecide(c)
}

var noRanges = os.Getenv("SYMGO_NORANGES") != ""

type pevalRes struct {
	v  uint64
	ok bool
}

// peval evaluates t under the known variable bindings; ok=false if the value
// depends on an unbound variable.
func (in *Interp) peval(t T) pevalRes {
	if t.Op == term.Const {
		return pevalRes{t.Val, true}
	}
	p := in.path
	if r, ok := p.pevalMemo[t]; ok {
		return r
	}
	var r pevalRes
	switch t.Op {
	case term.Var:
		v, ok := p.consts[t]
		r = pevalRes{v, ok}
	case term.Ite:
		c := in.peval(t.A[0])
		if c.ok {
			if c.v != 0 {
				r = in.peval(t.A[1])
			} else {
				r = in.peval(t.A[2])
			}
		} else {
			a, b := in.peval(t.A[1]), in.peval(t.A[2])
			if a.ok && b.ok && a.v == b.v {
				r = a
			}
		}
	case term.BAnd:
		a, b := in.peval(t.A[0]), in.peval(t.A[1])
		switch {
		case a.ok && a.v == 0, b.ok && b.v == 0:
			r = pevalRes{0, true}
		case a.ok && b.ok:
			r = pevalRes{1, true}
		}
	case term.BOr:
		a, b := in.peval(t.A[0]), in.peval(t.A[1])
		switch {
		case a.ok && a.v == 1, b.ok && b.v == 1:
			r = pevalRes{1, true}
		case a.ok && b.ok:
			r = pevalRes{0, true}
		}
	default:
		if f, ok := p.facts[t]; ok && t.W == 0 {
			r = pevalRes{b2u(f), true}
			break
		}
		all := true
		env := term.Env{}
		var kids [3]*term.Term
		for i, c := range t.A {
			if c == nil {
				break
			}
			cr := in.peval(c)
			if !cr.ok {
				all = false
				break
			}
			kids[i] = in.tb.ConstLike(c, cr.v)
		}
		if all {
			r = pevalRes{in.tb.EvalOp(t, kids), true}
		}
		_ = env
	}
	p.pevalMemo[t] = r
	return r
}

// ensureModel makes p.model a model of the path condition.
func (in *Interp) ensureModel() {
	p := in.path
	if p.modelOK {
		// verify lazily that new variables default to 0: nothing to do
		return
	}
	r, env, err := in.query(nil, true)
	switch r {
	case smt.Sat:
		if err != nil {
			panic(abortPath{abortEngine, "model extraction failed: " + err.Error()})
		}
		p.model = env
		p.modelOK = true
	case smt.Unsat:
		panic(abortPath{abortInfeasible, "path condition unsatisfiable"})
	default:
		panic(abortPath{abortUnsupported, "solver returned unknown for path condition: " + in.lastSolverErr()})
	}
}

func (in *Interp) evalModel(c T) uint64 {
	ev := term.NewEvaluator(in.path.model)
	return ev.Eval(c)
}

// decide returns the truth value of c on this path, forking if both are feasible.
func (in *Interp) decide(c T) bool {
	if c.Op == term.Const {
		return c.Val != 0
	}
	p := in.path
	if p == nil {
		unsupported("symbolic branch outside of a path")
	}
	if v, ok := in.settled(c); ok {
		return v
	}
	if len(p.decs) >= p.maxDecs {
		panic(abortPath{abortBudget, fmt.Sprintf("decision budget %d exceeded", p.maxDecs)})
	}
	if p.pos < len(p.prefix) {
		d := p.prefix[p.pos]
		if d.HasV {
			panic(abortPath{abortEngine, "replay divergence: branch decision expected, concretisation recorded"})
		}
		p.pos++
		p.decs = append(p.decs, d)
		if d.B {
			in.addPC(c)
		} else {
			in.addPC(in.tb.Not(c))
		}
		in.endOfPrefix()
		return d.B
	}
	in.ensureModel()
	mv := in.evalModel(c) != 0
	var other T
	if mv {
		other = in.tb.Not(c)
	} else {
		other = c
	}
	r, oenv, oerr := in.query(other, true)
	if debugOneSided && r == smt.Unsat {
		fmt.Fprintf(os.Stderr, "ONESIDED %v: %s\n", mv, c)
	}
	if r == smt.Sat || r == smt.Unknown {
		item := WorkItem{Prefix: append(append([]Decision(nil), p.decs...), Decision{B: !mv})}
		if r == smt.Sat {
			if oerr == nil && oenv != nil {
				item.Model = in.envToModel(oenv)
			}
		} else {
			p.notes = append(p.notes, "branch feasibility unknown: "+in.lastSolverErr())
		}
		p.newItems = append(p.newItems, item)
	}
	p.decs = append(p.decs, Decision{B: mv})
	if mv {
		in.addPC(c)
	} else {
		in.addPC(in.tb.Not(c))
	}
	return mv
}

// endOfPrefix installs the stored model once the prefix has been consumed.
func (in *Interp) endOfPrefix() {
	p := in.path
	if p.pos == len(p.prefix) && p.item != nil && p.item.Model != nil {
		p.model = in.modelToEnv(p.item.Model)
		p.modelOK = true
	}
}

// concretise returns a feasible concrete value of t, forking over the others.
func (in *Interp) concretise(t T) int64 {
	if t.Op == term.Const {
		return t.SVal()
	}
	p := in.path
	if p == nil {
		unsupported("symbolic value needs concretisation outside of a path")
	}
	for n := 0; ; n++ {
		if n >= p.maxConc {
			panic(abortPath{abortBudget, fmt.Sprintf("concretisation budget %d exceeded (in %s)", p.maxConc, in.stackTail(5))})
		}
		if len(p.decs) >= p.maxDecs {
			panic(abortPath{abortBudget, fmt.Sprintf("decision budget %d exceeded", p.maxDecs)})
		}
		if p.pos < len(p.prefix) {
			d := p.prefix[p.pos]
			if !d.HasV {
				panic(abortPath{abortEngine, "replay divergence: concretisation expected, branch recorded"})
			}
			p.pos++
			p.decs = append(p.decs, d)
			c := in.tb.Bin(term.Eq, t, in.tb.BV(t.W, d.V))
			if d.B {
				in.addPC(c)
				in.endOfPrefix()
				return in.tb.BV(t.W, d.V).SVal()
			}
			in.addPC(in.tb.Not(c))
			in.endOfPrefix()
			continue
		}
		in.ensureModel()
		v := in.evalModel(t)
		c := in.tb.Bin(term.Eq, t, in.tb.BV(t.W, v))
		nc := in.tb.Not(c)
		r, oenv, oerr := in.query(nc, true)
		if r == smt.Sat || r == smt.Unknown {
			item := WorkItem{Prefix: append(append([]Decision(nil), p.decs...), Decision{B: false, V: v, HasV: true})}
			if r == smt.Sat {
				if oerr == nil && oenv != nil {
					item.Model = in.envToModel(oenv)
				}
			} else {
				p.notes = append(p.notes, "concretisation feasibility unknown: "+in.lastSolverErr())
			}
			p.newItems = append(p.newItems, item)
		}
		p.decs = append(p.decs, Decision{B: true, V: v, HasV: true})
		in.addPC(c)
		return in.tb.BV(t.W, v).SVal()
	}
}

// assume adds c to the path condition; aborts if infeasible.
func (in *Interp) assume(c T) {
	if c.IsTrue() {
		return
	}
	p := in.path
	if c.IsFalse() {
		panic(abortPath{abortInfeasible, "assume(false)"})
	}
	in.addPC(c)
	if p.pos < len(p.prefix) {
		return // replaying; feasibility was established before
	}
	if p.modelOK && in.evalModel(c) != 0 {
		return
	}
	p.modelOK = false
	in.ensureModel()
}

// check verifies an assertion: PC && !c must be unsat.
func (in *Interp) check(c T, label string, pos string) {
	p := in.path
	if p.labelFilter != nil && !p.labelFilter(label) {
		// an assertion of another property: not this check's business (and it
		// must not end the path before this property's assertions are reached)
		return
	}
	p.asserts[label]++
	if c.IsTrue() {
		return
	}
	if p.pos < len(p.prefix) {
		// Replaying a prefix: this assertion was already checked on the
		// path that produced the prefix.  Re-assume and continue.
		in.addPC(c)
		return
	}
	neg := in.tb.Not(c)
	var r smt.Result
	var env term.Env
	if c.IsFalse() {
		in.ensureModel()
		r = smt.Sat
		env = p.model
	} else {
		p.assertQueries++
		var err error
		r, env, err = in.query(neg, true)
		if r == smt.Sat && (err != nil || env == nil) {
			p.notes = append(p.notes, "model extraction failed for "+label)
			r = smt.Unknown
		}
		if p.queryHook != nil {
			p.queryHook(label, p.pc, neg, r)
		}
	}
	switch r {
	case smt.Unsat:
		// holds on this path
	case smt.Sat:
		p.violations = append(p.violations, Violation{
			Label: label, Pos: pos, Model: in.envToModel(env),
			Decisions: append([]Decision(nil), p.decs...), Kind: "assert",
		})
		if p.stopOnViolation {
			panic(abortPath{abortStop, "violation recorded"})
		}
	default:
		p.notes = append(p.notes, fmt.Sprintf("assertion %q: solver unknown (%s)", label, in.lastSolverErr()))
	}
	// continue under the assumption that the assertion holds
	if c.IsFalse() {
		panic(abortPath{abortStop, "assert(false)"})
	}
	in.addPC(c)
	if p.modelOK && in.evalModel(c) == 0 {
		p.modelOK = false
		rr, _, _ := in.query(nil, false)
		if rr == smt.Unsat {
			panic(abortPath{abortStop, "assertion fails on the whole path"})
		}
	}
}

func (in *Interp) cover(label string) {
	p := in.path
	if _, ok := p.covers[label]; ok {
		return
	}
	if p.pos < len(p.prefix) {
		return
	}
	in.ensureModel()
	p.covers[label] = in.envToModel(p.model)
}

func sortedKeys[V any](m map[string]V) []string {
	ks := make([]string, 0, len(m))
	for k := range m {
		ks = append(ks, k)
	}
	sort.Strings(ks)
	return ks
}

var debugOneSided = os.Getenv("SYMGO_ONESIDED") != ""

func (in *Interp) stackTail(n int) string {
	st := in.fnStack
	if len(st) > n {
		st = st[len(st)-n:]
	}
	out := ""
	for i, f := range st {
		if i > 0 {
			out += " > "
		}
		out += f
	}
	return out
}
