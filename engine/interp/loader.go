package interp

import (
	"fmt"
	"go/ast"
	"go/token"
	"go/types"
	"os"
	"path/filepath"
	"sort"
	"strings"

	"golang.org/x/tools/go/packages"
	"golang.org/x/tools/go/ssa"
	"golang.org/x/tools/go/ssa/ssautil"
)

// Program is the loaded SSA program plus harness metadata (shared, read-only).
type Program struct {
	ssa       *ssa.Program
	pkgs      []*packages.Package
	Fset      *token.FileSet
	Harnesses map[string]*Harness // by function name
	allowInit map[string]bool
	LoadTime  float64
	RepoDir   string
	Overlay   map[string]string // virtual path -> real harness path
	errorsNew *ssa.Function
}

// Harness describes one harness function.
type Harness struct {
	Name    string
	Fn      *ssa.Function
	Pkg     *ssa.Package
	File    string            // virtual file path
	Stubs   map[string]string // target SSA function name -> stub function name (same package)
	Native  bool              // //verif:native : no stubs, replayable natively
	Params  int
	Doc     string
	stubFns map[string]*ssa.Function
	stubMap map[*ssa.Function]*ssa.Function
}

// packages whose initialisers are executed concretely at start-up.
var defaultAllowInit = []string{
	"unicode/utf8", "unicode", "unicode/utf16", "strconv", "strings", "bytes", "net/url", "path", "path/filepath",
	"sort", "slices", "errors", "math", "math/bits", "io", "fmt", "regexp", "regexp/syntax", "bufio",
	"internal/bytealg", "internal/itoa", "internal/stringslite", "internal/oserror", "io/fs", "time",
	"encoding/json", "sync", "sync/atomic", "os", "syscall", "context", "text/tabwriter", "encoding/base64", "encoding/hex",
	"cmp", "maps", "iter", "container/heap", "container/list", "hash/crc32", "math/rand",
}

func (p *Program) initAllowed(pkg *ssa.Package) bool {
	path := pkg.Pkg.Path()
	if p.allowInit[path] {
		return true
	}
	return strings.HasPrefix(path, "github.com/martian-lang/martian/")
}

// Load loads the given package patterns from repoDir with harness files from
// harnessDir overlaid (harnessDir/<import path relative to module>/zz_verif_*.go).
func Load(repoDir, harnessDir string, patterns []string) (*Program, error) {
	overlay := map[string][]byte{}
	virt := map[string]string{}
	if harnessDir != "" {
		err := filepath.Walk(harnessDir, func(path string, info os.FileInfo, err error) error {
			if err != nil {
				return err
			}
			if info.IsDir() || !strings.HasSuffix(path, ".go") || strings.HasSuffix(path, "_test.go") {
				return nil
			}
			rel, _ := filepath.Rel(harnessDir, path)
			data, err := os.ReadFile(path)
			if err != nil {
				return err
			}
			v := filepath.Join(repoDir, rel)
			overlay[v] = data
			virt[v] = path
			return nil
		})
		if err != nil {
			return nil, err
		}
	}
	// generated runtime file per harness package
	if harnessDir != "" {
		tmpl, err := os.ReadFile(filepath.Join(harnessDir, "_rt", "rt.go.tmpl"))
		if err != nil {
			return nil, err
		}
		dirs := map[string]string{}
		for v, data := range overlay {
			if strings.Contains(v, "/_rt/") {
				delete(overlay, v)
				continue
			}
			dirs[filepath.Dir(v)] = packageClause(data)
		}
		for d, pkgName := range dirs {
			if pkgName == "" {
				return nil, fmt.Errorf("cannot determine package name for harness dir %s", d)
			}
			overlay[filepath.Join(d, "zz_verif_rt.go")] = []byte(strings.Replace(string(tmpl), "PKGNAME", pkgName, 1))
		}
	}
	cfg := &packages.Config{
		Mode:       packages.LoadAllSyntax,
		Dir:        repoDir,
		Overlay:    overlay,
		Env:        append(os.Environ(), "GOFLAGS=-mod=mod", "GOPROXY=off", "GOSUMDB=off", "GOTOOLCHAIN=local", "CGO_ENABLED=0"),
		BuildFlags: []string{"-tags=verif"},
	}
	pkgs, err := packages.Load(cfg, patterns...)
	if err != nil {
		return nil, err
	}
	var errs []string
	packages.Visit(pkgs, nil, func(p *packages.Package) {
		for _, e := range p.Errors {
			errs = append(errs, e.Error())
		}
	})
	if len(errs) > 0 {
		return nil, fmt.Errorf("load errors:\n%s", strings.Join(errs, "\n"))
	}
	prog, spkgs := ssautil.AllPackages(pkgs, ssa.InstantiateGenerics|ssa.SanityCheckFunctions&0)
	prog.Build()
	p := &Program{ssa: prog, pkgs: pkgs, Harnesses: map[string]*Harness{}, allowInit: map[string]bool{}, RepoDir: repoDir, Overlay: virt}
	for _, a := range defaultAllowInit {
		p.allowInit[a] = true
	}
	if len(pkgs) > 0 {
		p.Fset = pkgs[0].Fset
	}
	if ep := prog.ImportedPackage("errors"); ep != nil {
		p.errorsNew = ep.Func("New")
	}
	byName := map[string]*ssa.Function{}
	for fn := range ssautil.AllFunctions(prog) {
		byName[fn.String()] = fn
	}
	// harness discovery: functions named H_* in overlay files
	for i, pkg := range pkgs {
		sp := spkgs[i]
		if sp == nil {
			continue
		}
		for fi, f := range pkg.Syntax {
			fname := pkg.CompiledGoFiles[fi]
			if _, isOverlay := overlay[fname]; !isOverlay {
				continue
			}
			fileStubs := map[string]string{}
			native := false
			nativeEnv := false // stubs describe the environment the native run finds (absent files): replay natively too
			for _, cg := range f.Comments {
				for _, c := range cg.List {
					txt := strings.TrimSpace(strings.TrimPrefix(c.Text, "//"))
					if strings.HasPrefix(txt, "verif:native") {
						native = true
					}
					if strings.HasPrefix(txt, "verif:native-env") {
						nativeEnv = true
					}
				}
			}
			for _, d := range f.Decls {
				fd, ok := d.(*ast.FuncDecl)
				if !ok || fd.Recv != nil {
					continue
				}
				if fd.Doc != nil {
					for _, c := range fd.Doc.List {
						txt := strings.TrimSpace(strings.TrimPrefix(c.Text, "//"))
						if strings.HasPrefix(txt, "verif:stub ") {
							target := strings.TrimSpace(strings.TrimPrefix(txt, "verif:stub "))
							fileStubs[target] = fd.Name.Name
						}
					}
				}
			}
			for _, d := range f.Decls {
				fd, ok := d.(*ast.FuncDecl)
				if !ok || fd.Recv != nil || !strings.HasPrefix(fd.Name.Name, "H_") {
					continue
				}
				fn := sp.Func(fd.Name.Name)
				if fn == nil {
					continue
				}
				h := &Harness{Name: fd.Name.Name, Fn: fn, Pkg: sp, File: fname, Stubs: fileStubs,
					Native: native && (len(fileStubs) == 0 || nativeEnv), Params: len(fn.Params), stubFns: map[string]*ssa.Function{}}
				if fd.Doc != nil {
					h.Doc = fd.Doc.Text()
				}
				for _, prm := range fn.Params {
					if b, ok := prm.Type().Underlying().(*types.Basic); !ok || b.Kind() != types.Int {
						return nil, fmt.Errorf("harness %s: parameters must be int", h.Name)
					}
				}
				for target, stub := range fileStubs {
					sf := sp.Func(stub)
					if sf == nil {
						return nil, fmt.Errorf("harness file %s: stub function %s not found", fname, stub)
					}
					h.stubFns[target] = sf
					tf := byName[target]
					if tf == nil {
						return nil, fmt.Errorf("harness file %s: stub target %q does not exist in the program", fname, target)
					}
					if h.stubMap == nil {
						h.stubMap = map[*ssa.Function]*ssa.Function{}
					}
					h.stubMap[tf] = sf
				}
				if _, dup := p.Harnesses[h.Name]; dup {
					return nil, fmt.Errorf("duplicate harness name %s", h.Name)
				}
				p.Harnesses[h.Name] = h
			}
		}
	}
	return p, nil
}

// HarnessNames returns the sorted harness names.
func (p *Program) HarnessNames() []string {
	var ns []string
	for n := range p.Harnesses {
		ns = append(ns, n)
	}
	sort.Strings(ns)
	return ns
}

// CheckStubTargets verifies that every stub target names an existing function
// with an identical signature.
func (p *Program) CheckStubTargets() []string {
	var problems []string
	byName := map[string]*ssa.Function{}
	for fn := range ssautil.AllFunctions(p.ssa) {
		byName[fn.String()] = fn
	}
	for _, h := range p.Harnesses {
		for target, sf := range h.stubFns {
			tf := byName[target]
			if tf == nil {
				problems = append(problems, fmt.Sprintf("%s: stub target %q does not exist", h.Name, target))
				continue
			}
			// compare signatures modulo receiver: the stub takes the receiver as first parameter
			if len(tf.Params) != len(sf.Params) {
				problems = append(problems, fmt.Sprintf("%s: stub for %q has %d params, target has %d", h.Name, target, len(sf.Params), len(tf.Params)))
				continue
			}
			for i := range tf.Params {
				if !types.Identical(tf.Params[i].Type(), sf.Params[i].Type()) {
					problems = append(problems, fmt.Sprintf("%s: stub for %q param %d type %v != %v", h.Name, target, i, sf.Params[i].Type(), tf.Params[i].Type()))
				}
			}
			if !types.Identical(tf.Signature.Results(), sf.Signature.Results()) {
				problems = append(problems, fmt.Sprintf("%s: stub for %q results %v != %v", h.Name, target, sf.Signature.Results(), tf.Signature.Results()))
			}
		}
	}
	sort.Strings(problems)
	return problems
}

// FuncByName finds a function by its SSA name (slow; for setup only).
func (p *Program) FuncByName(name string) *ssa.Function {
	for fn := range ssautil.AllFunctions(p.ssa) {
		if fn.String() == name {
			return fn
		}
	}
	return nil
}

func (p *Program) pos(pos token.Pos) string {
	if pos == token.NoPos || p.Fset == nil {
		return ""
	}
	ps := p.Fset.Position(pos)
	return fmt.Sprintf("%s:%d", ps.Filename, ps.Line)
}

// InitPackagesFor returns the SSA packages that must be initialised to run
// the named harnesses.
func (p *Program) InitPackagesFor(names []string) []*ssa.Package {
	seen := map[*ssa.Package]bool{}
	var out []*ssa.Package
	for _, n := range names {
		if h := p.Harnesses[n]; h != nil && !seen[h.Pkg] {
			seen[h.Pkg] = true
			out = append(out, h.Pkg)
		}
	}
	return out
}

// PackageClause returns the package name declared in a Go source file.
func PackageClause(src []byte) string { return packageClause(src) }

func packageClause(src []byte) string {
	for _, line := range strings.Split(string(src), "\n") {
		line = strings.TrimSpace(line)
		if strings.HasPrefix(line, "package ") {
			return strings.TrimSpace(strings.TrimPrefix(line, "package "))
		}
	}
	return ""
}

// RtSource returns the generated runtime file for a package name.
func RtSource(harnessDir, pkgName string) (string, error) {
	tmpl, err := os.ReadFile(filepath.Join(harnessDir, "_rt", "rt.go.tmpl"))
	if err != nil {
		return "", err
	}
	return strings.Replace(string(tmpl), "PKGNAME", pkgName, 1), nil
}
