package interp

import (
	"fmt"
	"go/types"
	"sort"

	"symgo/term"
)

// mapObj is an ordered entry list.  Keys may be symbolic; so may presence.
type mapEntry struct {
	key     value
	val     value
	present T // Bool term
	deleted bool
}

type mapObj struct {
	keyT, valT types.Type
	entries    []*mapEntry
	index      map[string]int // canonical concrete key -> entry index (only live entries)
	symKeys    int            // number of live entries whose key has no canonical form
}

func (in *Interp) makeMap(keyT, valT types.Type) *mapObj {
	return &mapObj{keyT: keyT, valT: valT, index: make(map[string]int)}
}

// canonKey returns a canonical string for concrete comparable keys.
func (in *Interp) canonKey(v value) (string, bool) {
	switch v := v.(type) {
	case T:
		if v.Op == term.Const {
			return fmt.Sprintf("i%d:%d", v.W, v.Val), true
		}
		return "", false
	case str:
		s, ok := v.concrete()
		if !ok {
			return "", false
		}
		return "s" + s, true
	case *value:
		return fmt.Sprintf("p%p", v), true
	case *chanObj:
		return fmt.Sprintf("c%p", v), true
	case float64:
		return fmt.Sprintf("f%v", v), true
	case float32:
		return fmt.Sprintf("g%v", v), true
	case iface:
		if v.t == nil {
			return "nil", true
		}
		s, ok := in.canonKey(v.v)
		if !ok {
			return "", false
		}
		return "I" + v.t.String() + "\x00" + s, true
	case structure:
		r := "S"
		for _, f := range v {
			s, ok := in.canonKey(f)
			if !ok {
				return "", false
			}
			r += fmt.Sprintf("%d:", len(s)) + s
		}
		return r, true
	case array:
		r := "A"
		for _, f := range v {
			s, ok := in.canonKey(f)
			if !ok {
				return "", false
			}
			r += fmt.Sprintf("%d:", len(s)) + s
		}
		return r, true
	case rtypeVal:
		return "T" + v.t.String(), true
	}
	return "", false
}

// find locates the entry for key, forking on symbolic comparisons.
// Returns nil if absent (in this path).
func (in *Interp) mapFind(m *mapObj, key value) *mapEntry {
	if m == nil {
		return nil
	}
	ck, concrete := in.canonKey(key)
	if concrete {
		if i, ok := m.index[ck]; ok {
			return m.entries[i]
		}
		if m.symKeys == 0 {
			return nil
		}
	}
	for _, e := range m.entries {
		if e.deleted {
			continue
		}
		if concrete {
			if _, ok := in.canonKey(e.key); ok {
				continue // concrete entries were handled by the index
			}
		}
		c := in.equals(m.keyT, key, e.key)
		if in.decide(c) {
			return e
		}
	}
	return nil
}

func (in *Interp) mapLookup(m *mapObj, key value, commaOk bool) value {
	var v value
	ok := in.tb.False
	if e := in.mapFind(m, key); e != nil {
		if e.present.IsTrue() {
			v = in.copyVal(m.valT, e.val)
			ok = in.tb.True
		} else {
			// symbolic presence
			if z, isT := e.val.(T); isT {
				zero := in.zero(m.valT).(T)
				v = in.tb.Ite(e.present, z, zero)
				ok = e.present
			} else if st, isS := e.val.(structure); isS && len(st) == 0 {
				v = structure{}
				ok = e.present
			} else if in.decide(e.present) {
				v = in.copyVal(m.valT, e.val)
				ok = in.tb.True
			}
		}
	}
	if v == nil {
		if m == nil {
			panic("mapLookup: nil map needs element type")
		}
		v = in.zero(m.valT)
	}
	if commaOk {
		return tuple{v, ok}
	}
	return v
}

func (in *Interp) mapInsert(m *mapObj, key, val value) {
	if m == nil {
		in.rtPanic("assignment to entry in nil map")
	}
	val = in.copyVal(m.valT, val)
	if e := in.mapFind(m, key); e != nil {
		oldV, oldP := e.val, e.present
		in.logUndo(func() { e.val, e.present = oldV, oldP })
		e.val = val
		e.present = in.tb.True
		return
	}
	e := &mapEntry{key: in.copyVal(m.keyT, key), val: val, present: in.tb.True}
	n := len(m.entries)
	m.entries = append(m.entries, e)
	ck, concrete := in.canonKey(key)
	if concrete {
		m.index[ck] = n
	} else {
		m.symKeys++
	}
	in.logUndo(func() {
		m.entries = m.entries[:n]
		if concrete {
			delete(m.index, ck)
		} else {
			m.symKeys--
		}
	})
}

// mapInsertIf inserts key with a symbolic presence condition (harness API).
func (in *Interp) mapInsertIf(m *mapObj, key, val value, present T) {
	in.mapInsert(m, key, val)
	e := in.mapFind(m, key)
	old := e.present
	in.logUndo(func() { e.present = old })
	e.present = present
}

func (in *Interp) mapDelete(m *mapObj, key value) {
	if m == nil {
		return
	}
	e := in.mapFind(m, key)
	if e == nil {
		return
	}
	ck, concrete := in.canonKey(e.key)
	idx, had := 0, false
	if concrete {
		idx, had = m.index[ck]
		delete(m.index, ck)
	} else {
		m.symKeys--
	}
	e.deleted = true
	in.logUndo(func() {
		e.deleted = false
		if concrete {
			if had {
				m.index[ck] = idx
			}
		} else {
			m.symKeys++
		}
	})
}

// mapLen returns len(m) as a 64-bit term.
func (in *Interp) mapLen(m *mapObj) T {
	if m == nil {
		return in.int64v(0)
	}
	n := in.int64v(0)
	for _, e := range m.entries {
		if e.deleted {
			continue
		}
		n = in.tb.Bin(term.Add, n, in.tb.Ite(e.present, in.int64v(1), in.int64v(0)))
	}
	return n
}

type mapIter struct {
	m     *mapObj
	order []*mapEntry
	i     int
}

func (in *Interp) newMapIter(m *mapObj) *mapIter {
	it := &mapIter{m: m}
	if m != nil {
		for _, e := range m.entries {
			if !e.deleted {
				it.order = append(it.order, e)
			}
		}
		if in.path != nil && in.path.nondetMapOrder && len(it.order) > 1 {
			it.order = in.permute(it.order)
		} else if in.path != nil && in.path.keyMapOrder != 0 && sortByKey(it.order, in.path.keyMapOrder < 0) {
			// ordered by key (ascending or descending): unlike the two
			// insertion-based orders this one does not cancel out when a
			// map is filled by ranging over another map
		} else if in.path != nil && (in.path.reverseMapOrder || in.path.keyMapOrder < 0) {
			for i, j := 0, len(it.order)-1; i < j; i, j = i+1, j-1 {
				it.order[i], it.order[j] = it.order[j], it.order[i]
			}
		}
	}
	return it
}

func (it *mapIter) next(fr *frame) tuple {
	in := fr.in
	for it.i < len(it.order) {
		e := it.order[it.i]
		it.i++
		if e.deleted {
			continue
		}
		if !in.decide(e.present) {
			continue
		}
		return tuple{in.tb.True, in.copyVal(it.m.keyT, e.key), in.copyVal(it.m.valT, e.val)}
	}
	return tuple{in.tb.False, nil, nil}
}

// permute picks a nondeterministic permutation (forking through decisions on
// fresh boolean choice variables).
func (in *Interp) permute(es []*mapEntry) []*mapEntry {
	out := make([]*mapEntry, 0, len(es))
	rest := append([]*mapEntry(nil), es...)
	for len(rest) > 1 {
		k := 0
		for k < len(rest)-1 {
			c := in.freshBool("maporder")
			if in.decide(c) {
				break
			}
			k++
		}
		out = append(out, rest[k])
		rest = append(rest[:k], rest[k+1:]...)
	}
	return append(out, rest...)
}

// sortByKey orders the entries by their (concrete string or integer) keys;
// false if some key is neither, in which case the order is left untouched.
func sortByKey(es []*mapEntry, desc bool) bool {
	keys := make([]string, len(es))
	for i, e := range es {
		switch k := e.key.(type) {
		case str:
			c, ok := k.concrete()
			if !ok {
				return false
			}
			keys[i] = c
		case T:
			if k.Op != term.Const {
				return false
			}
			keys[i] = fmt.Sprintf("%020d", k.Val^(1<<63))
		default:
			return false
		}
	}
	idx := make([]int, len(es))
	for i := range idx {
		idx[i] = i
	}
	sort.SliceStable(idx, func(a, b int) bool {
		if desc {
			return keys[idx[a]] > keys[idx[b]]
		}
		return keys[idx[a]] < keys[idx[b]]
	})
	out := make([]*mapEntry, len(es))
	for i, j := range idx {
		out[i] = es[j]
	}
	copy(es, out)
	return true
}
