package interp

import (
	"path/filepath"
	"os"
	"fmt"
	"go/token"
	"go/types"
	"sort"
	"strconv"
	"strings"

	"symgo/term"
)

func (in *Interp) callerPos(fr *frame) string {
	return in.prog.pos(fr.callpos)
}

func initVerifAPI() {
	nd := func(w uint8) externFn {
		return func(fr *frame, a []value) value {
			in := fr.in
			name := in.newVarName(in.concreteStrArg(a[0], "verif nondet name"))
			return in.nondet(name, w)
		}
	}
	verifAPI = map[string]externFn{
		"verifInt64":  nd(64),
		"verifInt":    nd(64),
		"verifUint64": nd(64),
		"verifInt32":  nd(32),
		"verifUint32": nd(32),
		"verifInt16":  nd(16),
		"verifByte":   nd(8),
		"verifBool":   nd(0),
		"verifBytes": func(fr *frame, a []value) value {
			in := fr.in
			name := in.newVarName(in.concreteStrArg(a[0], "verifBytes name"))
			n := in.concretiseInt(a[1], "verifBytes length")
			res := make([]value, n)
			for i := range res {
				res[i] = in.nondet(fmt.Sprintf("%s[%d]", name, i), 8)
			}
			return res
		},
		"verifString": func(fr *frame, a []value) value {
			in := fr.in
			name := in.newVarName(in.concreteStrArg(a[0], "verifString name"))
			n := in.concretiseInt(a[1], "verifString length")
			b := make([]T, n)
			for i := range b {
				b[i] = in.nondet(fmt.Sprintf("%s[%d]", name, i), 8)
			}
			return str{b: b}
		},
		"verifAssume": func(fr *frame, a []value) value {
			fr.in.assume(a[0].(T))
			return nil
		},
		"verifAssert": func(fr *frame, a []value) value {
			in := fr.in
			label := in.concreteStrArg(a[1], "verifAssert label")
			in.check(a[0].(T), label, in.callerPos(fr))
			return nil
		},
		"verifCover": func(fr *frame, a []value) value {
			fr.in.cover(fr.in.concreteStrArg(a[0], "verifCover label"))
			return nil
		},
		"verifKnown": func(fr *frame, a []value) value {
			in := fr.in
			id := in.concreteStrArg(a[0], "verifKnown id")
			in.path.knownSeen[id] = true
			return in.tb.Bool(in.path.known[id])
		},
		"verifAll": func(fr *frame, a []value) value {
			in := fr.in
			r := in.tb.True
			for _, v := range a[0].([]value) {
				r = in.tb.AndB(r, v.(T))
			}
			return r
		},
		"verifAny": func(fr *frame, a []value) value {
			in := fr.in
			r := in.tb.False
			for _, v := range a[0].([]value) {
				r = in.tb.OrB(r, v.(T))
			}
			return r
		},
		"verifImplies": func(fr *frame, a []value) value {
			return fr.in.tb.Implies(a[0].(T), a[1].(T))
		},
		"verifIteInt": func(fr *frame, a []value) value {
			return fr.in.tb.Ite(a[0].(T), a[1].(T), a[2].(T))
		},
		"verifIteBool": func(fr *frame, a []value) value {
			return fr.in.tb.Ite(a[0].(T), a[1].(T), a[2].(T))
		},
		"verifIteByte": func(fr *frame, a []value) value {
			return fr.in.tb.Ite(a[0].(T), a[1].(T), a[2].(T))
		},
		"verifStrEq": func(fr *frame, a []value) value {
			return fr.in.strEq(a[0].(str), a[1].(str))
		},
		"verifBytesEq": func(fr *frame, a []value) value {
			return fr.in.bytesEqual(bytesOf(a[0]), bytesOf(a[1]))
		},
		// verifConcretize(x int) int: fork over the feasible values of x
		"verifConcretize": func(fr *frame, a []value) value {
			in := fr.in
			return in.int64v(in.concretiseInt(a[0], "verifConcretize"))
		},
		// verifMapSetIf(m, k, v, cond): m[k]=v present iff cond (lazy)
		"verifMapSetIf": func(fr *frame, a []value) value {
			in := fr.in
			in.mapInsertIf(a[0].(*mapObj), a[1], a[2], a[3].(T))
			return nil
		},
		"verifNumSpawned": func(fr *frame, a []value) value {
			return fr.in.int64v(int64(len(fr.in.path.spawned)))
		},
		"verifRunSpawned": func(fr *frame, a []value) value {
			in := fr.in
			i := in.concretiseInt(a[0], "verifRunSpawned")
			if i < 0 || int(i) >= len(in.path.spawned) {
				unsupported("verifRunSpawned(%d): only %d goroutines spawned", i, len(in.path.spawned))
			}
			g := in.path.spawned[i]
			if g.fn == nil {
				return nil
			}
			in.path.spawned[i].fn = nil
			in.call(fr, g.pos, g.fn, g.args)
			return nil
		},
		// verifTry(f) (blocked, panicked bool)
		"verifTry": func(fr *frame, a []value) (res value) {
			in := fr.in
			blocked, panicked := in.tb.False, in.tb.False
			func() {
				defer func() {
					if r := recover(); r != nil {
						switch r.(type) {
						case blockedPanic:
							blocked = in.tb.True
						case targetPanic:
							panicked = in.tb.True
						default:
							panic(r)
						}
					}
				}()
				in.call(fr, token.NoPos, a[0], nil)
			}()
			return tuple{blocked, panicked}
		},
		// verifLockCount(): number of sync.Mutex/RWMutex lock acquisitions so far on this path
		"verifLockCount": func(fr *frame, a []value) value {
			return fr.in.int64v(int64(fr.in.path.lockEvents))
		},
		// verifRepoFile(rel): the bytes of a file of the repository under check
		// (concrete; used to push the repo's own test inputs through the engine)
		"verifRepoFile": func(fr *frame, a []value) value {
			in := fr.in
			rel := in.concreteStrArg(a[0], "verifRepoFile path")
			data, err := os.ReadFile(filepath.Join(in.prog.RepoDir, rel))
			if err != nil {
				unsupported("verifRepoFile(%q): %v", rel, err)
			}
			res := make([]value, len(data))
			for i, c := range data {
				res[i] = in.tb.BV(8, uint64(c))
			}
			return res
		},
		// verifCached(key, build): a concrete fixture built once per worker.  The
		// heap writes of build() are kept (taken off the undo trail); build must
		// not branch on symbolic values.  Everything a path later does to the
		// fixture is undone at the end of the path as usual.
		"verifCached": func(fr *frame, a []value) value {
			in := fr.in
			key := in.concreteStrArg(a[0], "verifCached key")
			if v, ok := in.cached[key]; ok {
				return v
			}
			t0, d0 := len(in.trail), len(in.path.decs)
			v := in.call(fr, token.NoPos, a[1], nil)
			if len(in.path.decs) != d0 {
				unsupported("verifCached(%q): the fixture builder branched on symbolic values", key)
			}
			for i := t0; i < len(in.trail); i++ {
				in.trail[i] = trailEntry{}
			}
			in.trail = in.trail[:t0]
			if in.cached == nil {
				in.cached = map[string]value{}
			}
			in.cached[key] = v
			return v
		},
		// verifRecursionLimit(n): more than n nested calls from here on is a
		// stack overflow of the program under test (fatal, not recoverable)
		"verifRecursionLimit": func(fr *frame, a []value) value {
			in := fr.in
			n := in.concretiseInt(a[0], "verifRecursionLimit")
			if n > 0 {
				n += int64(in.depth(fr))
			}
			in.path.recursionLimit = int(n)
			return nil
		},
		// verifStepLimit(n): more than n further interpreter steps from here on
		// means the program under test does not terminate promptly (fatal);
		// 0 lifts the bound
		"verifStepLimit": func(fr *frame, a []value) value {
			in := fr.in
			n := in.concretiseInt(a[0], "verifStepLimit")
			if n > 0 {
				in.path.stepLimit = int64(in.path.steps) + n
			} else {
				in.path.stepLimit = 0
			}
			return nil
		},
		// verifCondSignals(): number of sync.Cond Signal/Broadcast calls so far on this path (ghost)
		"verifCondSignals": func(fr *frame, a []value) value {
			return fr.in.int64v(int64(fr.in.path.condSignals))
		},
		"verifCondBroadcasts": func(fr *frame, a []value) value {
			return fr.in.int64v(int64(fr.in.path.condBroadcasts))
		},
		"verifOnCondWait": func(fr *frame, a []value) value {
			fr.in.path.condWaitHook = a[0]
			return nil
		},
		"verifGhostSet": func(fr *frame, a []value) value {
			in := fr.in
			in.path.ghost[in.concreteStrArg(a[0], "ghost key")] = a[1]
			return nil
		},
		"verifNote": func(fr *frame, a []value) value {
			return nil
		},
		"verifOpaqueString": func(fr *frame, a []value) value {
			return str{opaque: true}
		},
		"verifIsReplay": func(fr *frame, a []value) value {
			return fr.in.tb.False
		},
		// verifReverseMapOrder(on): every range over a map visits the entries
		// in reverse insertion order (a second fixed order, cheap)
		"verifReverseMapOrder": func(fr *frame, a []value) value {
			in := fr.in
			in.path.reverseMapOrder = in.decideConst(a[0].(T))
			return nil
		},
		// verifKeyMapOrder(dir): every range over a map with concrete string
		// or integer keys visits them in ascending (dir > 0) or descending
		// (dir < 0) key order; 0 switches the mode off.  Other maps are
		// visited in insertion (dir > 0) or reverse insertion order.
		"verifKeyMapOrder": func(fr *frame, a []value) value {
			in := fr.in
			t := a[0].(T)
			if t.Op != term.Const {
				unsupported("verifKeyMapOrder: direction must be concrete")
			}
			in.path.keyMapOrder = int(t.SVal())
			return nil
		},
		"verifNondetMapOrder": func(fr *frame, a []value) value {
			in := fr.in
			in.path.nondetMapOrder = in.decideConst(a[0].(T))
			return nil
		},
		// verifMutexHeld(&mu) bool — ghost read of a sync.Mutex / RWMutex write lock
		"verifMutexHeld": func(fr *frame, a []value) value {
			in := fr.in
			it := a[0].(iface)
			ptr := it.v.(*value)
			st := (*ptr).(structure)
			switch c := st[0].(type) {
			case T:
				return in.tb.Not(in.tb.Bin(term.Eq, c, in.tb.BV(32, 0)))
			case structure:
				return in.tb.Not(in.tb.Bin(term.Eq, c[0].(T), in.tb.BV(32, 0)))
			}
			unsupported("verifMutexHeld on %T", st[0])
			return nil
		},
	}
}

func (in *Interp) decideConst(c T) bool {
	if c.Op != term.Const {
		unsupported("value must be concrete")
	}
	return c.Val != 0
}

// ---------------------------------------------------------------------
// fmt: concrete formatting where every operand is concrete; opaque otherwise.

// toNative converts a concrete interpreter value to a Go value for fmt.
func (in *Interp) toNative(fr *frame, v value, t types.Type, depth int) (interface{}, bool) {
	if depth > 3 {
		return nil, false
	}
	switch v := v.(type) {
	case T:
		if v.Op != term.Const {
			return nil, false
		}
		if v.W == 0 {
			return v.Val != 0, true
		}
		if t != nil && !isSigned(t) {
			switch v.W {
			case 8:
				return uint8(v.Val), true
			case 16:
				return uint16(v.Val), true
			case 32:
				return uint32(v.Val), true
			}
			return v.Val, true
		}
		switch v.W {
		case 8:
			return int8(v.SVal()), true
		case 16:
			return int16(v.SVal()), true
		case 32:
			return int32(v.SVal()), true
		}
		if t != nil {
			if b, ok := t.Underlying().(*types.Basic); ok && b.Kind() == types.Int {
				return int(v.SVal()), true
			}
		}
		return v.SVal(), true
	case str:
		s, ok := v.concrete()
		return s, ok
	case float64:
		return v, true
	case float32:
		return v, true
	case iface:
		if v.t == nil {
			return nil, true
		}
		// error / Stringer: call the method
		for _, mname := range []string{"Error", "String"} {
			if m := in.findMethod(v.t, mname); m != nil &&
				m.Signature.Params().Len() == 0 && m.Signature.Results().Len() == 1 {
				if b, ok := m.Signature.Results().At(0).Type().Underlying().(*types.Basic); ok && b.Kind() == types.String {
					res := in.call(fr, token.NoPos, m, []value{v.v})
					s, ok := res.(str).concrete()
					if !ok {
						return nil, false
					}
					return nativeStringer(s), true
				}
			}
		}
		return in.toNative(fr, v.v, v.t, depth+1)
	case []value:
		// []byte or []string
		if t != nil {
			if sl, ok := t.Underlying().(*types.Slice); ok {
				if b, ok := sl.Elem().Underlying().(*types.Basic); ok && b.Kind() == types.Byte {
					out := make([]byte, len(v))
					for i := range v {
						e, ok := v[i].(T)
						if !ok || e.Op != term.Const {
							return nil, false
						}
						out[i] = byte(e.Val)
					}
					return out, true
				}
				var out []interface{}
				for i := range v {
					e, ok := in.toNative(fr, v[i], sl.Elem(), depth+1)
					if !ok {
						return nil, false
					}
					out = append(out, e)
				}
				return out, true
			}
		}
	case *value:
		if v == nil {
			return nil, true
		}
		return fmt.Sprintf("%p", v), true
	}
	return nil, false
}

type nativeStringer string

func (s nativeStringer) String() string { return string(s) }

// fmtVerbs returns the verb consuming each operand (simple formats only).
func fmtVerbs(format string, n int) ([]byte, string, bool) {
	verbs := make([]byte, 0, n)
	out := []byte{}
	for i := 0; i < len(format); i++ {
		c := format[i]
		out = append(out, c)
		if c != '%' {
			continue
		}
		j := i + 1
		for j < len(format) && (format[j] == '+' || format[j] == '-' || format[j] == '#' || format[j] == ' ' || format[j] == '0' || format[j] == '.' || (format[j] >= '1' && format[j] <= '9')) {
			j++
		}
		if j >= len(format) {
			return nil, "", false
		}
		if format[j] == '[' {
			return nil, "", false
		}
		if format[j] == '*' {
			// width from an operand: it consumes one (integer) operand
			out = append(out, format[i+1:j+1]...)
			verbs = append(verbs, 'd')
			j++
			for j < len(format) && format[j] >= '0' && format[j] <= '9' {
				j++
			}
			if j >= len(format) {
				return nil, "", false
			}
			out = append(out, format[j])
			verbs = append(verbs, format[j])
			i = j
			continue
		}
		if format[j] == '%' {
			out = append(out, format[i+1:j+1]...)
			i = j
			continue
		}
		v := format[j]
		if v == 'T' {
			out = append(out, format[i+1:j]...)
			out = append(out, 's')
		} else {
			out = append(out, format[i+1:j+1]...)
		}
		verbs = append(verbs, v)
		i = j
	}
	return verbs, string(out), true
}

func (in *Interp) sprintf(fr *frame, format string, args []value) (string, bool) {
	nat := make([]interface{}, len(args))
	var verbs []byte
	if format != "\x00sprint" && format != "\x00sprintln" {
		vs, f2, ok := fmtVerbs(format, len(args))
		if !ok {
			return "", false
		}
		verbs, format = vs, f2
	}
	for i, a := range args {
		if i < len(verbs) && verbs[i] == 'T' {
			if it, ok := a.(iface); ok {
				if it.t == nil {
					nat[i] = "<nil>"
				} else {
					nat[i] = types.TypeString(it.t, func(p *types.Package) string { return p.Name() })
				}
				continue
			}
		}
		it, ok := a.(iface)
		if !ok {
			return "", false
		}
		if it.t == nil {
			nat[i] = nil
			continue
		}
		n, ok := in.toNative(fr, it, nil, 0)
		if !ok {
			return "", false
		}
		nat[i] = n
	}
	if format == "\x00sprint" {
		return fmt.Sprint(nat...), true
	}
	if format == "\x00sprintln" {
		return fmt.Sprintln(nat...), true
	}
	return fmt.Sprintf(format, nat...), true
}

func initFmtExternals() {
	spf := func(fr *frame, fmtv value, args value) value {
		in := fr.in
		f, ok := fmtv.(str).concrete()
		if !ok {
			return str{opaque: true}
		}
		var as []value
		if args != nil {
			as = args.([]value)
		}
		s, ok := in.sprintf(fr, f, as)
		if !ok {
			return str{opaque: true}
		}
		return in.mkStr(s)
	}
	externals["fmt.Sprintf"] = func(fr *frame, a []value) value { return spf(fr, a[0], a[1]) }
	externals["fmt.Sprint"] = func(fr *frame, a []value) value {
		return spf(fr, fr.in.mkStr("\x00sprint"), a[0])
	}
	externals["fmt.Sprintln"] = func(fr *frame, a []value) value {
		return spf(fr, fr.in.mkStr("\x00sprintln"), a[0])
	}
	externals["fmt.Errorf"] = func(fr *frame, a []value) value {
		in := fr.in
		msg := spf(fr, a[0], a[1])
		en := in.prog.errorsNew
		if en == nil {
			unsupported("errors.New not loaded")
		}
		return in.call(fr, token.NoPos, en, []value{msg})
	}
	pr := func(fr *frame, a []value) value {
		return tuple{fr.in.int64v(0), iface{}}
	}
	externals["fmt.Printf"] = pr
	externals["fmt.Println"] = pr
	externals["fmt.Print"] = pr
	// Fprint*: text written into a strings.Builder / bytes.Buffer is data and
	// is written through the real Write method; any other writer (os.Stdout,
	// the repo's log targets) is logging and is skipped.
	fpr := func(fr *frame, w value, text value) value {
		in := fr.in
		it, ok := w.(iface)
		if !ok || it.t == nil {
			return tuple{in.int64v(0), iface{}}
		}
		tn := types.TypeString(it.t, nil)
		if tn != "*strings.Builder" && tn != "*bytes.Buffer" {
			if in.path != nil {
				in.path.cuts["fmt.Fprint* to "+tn+" skipped (logging)"]++
			}
			return tuple{in.int64v(0), iface{}}
		}
		s := text.(str)
		if s.opaque {
			unsupported("fmt.Fprint* of a value the engine cannot format, into a %s", tn)
		}
		m := in.findMethod(it.t, "WriteString")
		if m == nil {
			unsupported("no WriteString method on %s", tn)
		}
		return in.call(fr, token.NoPos, m, []value{it.v, s})
	}
	externals["fmt.Fprintf"] = func(fr *frame, a []value) value { return fpr(fr, a[0], spf(fr, a[1], a[2])) }
	externals["fmt.Fprintln"] = func(fr *frame, a []value) value {
		return fpr(fr, a[0], spf(fr, fr.in.mkStr("\x00sprintln"), a[1]))
	}
	externals["fmt.Fprint"] = func(fr *frame, a []value) value {
		return fpr(fr, a[0], spf(fr, fr.in.mkStr("\x00sprint"), a[1]))
	}
	externals["strconv.Itoa$disabled"] = nil
	delete(externals, "strconv.Itoa$disabled")
	_ = strconv.Itoa
	_ = strings.Repeat
}

// ---------------------------------------------------------------------
// sort.Slice / sort.SliceStable: insertion sort through the real less func.

func initSortExternals() {
	ss := func(fr *frame, a []value) value {
		in := fr.in
		it := a[0].(iface)
		s, ok := it.v.([]value)
		if !ok {
			unsupported("sort.Slice on %T", it.v)
		}
		elemT := it.t.Underlying().(*types.Slice).Elem()
		less := a[1]
		n := len(s)
		for i := 1; i < n; i++ {
			for j := i; j > 0; j-- {
				c := in.call(fr, token.NoPos, less, []value{in.int64v(int64(j)), in.int64v(int64(j - 1))}).(T)
				if !in.decide(c) {
					break
				}
				x, y := in.copyVal(elemT, s[j]), in.copyVal(elemT, s[j-1])
				in.store(elemT, &s[j], y)
				in.store(elemT, &s[j-1], x)
			}
		}
		return nil
	}
	externals["sort.Slice"] = ss
	externals["sort.SliceStable"] = ss
	_ = sort.Ints
}

// errors.Is without reflection: identity on comparable dynamic types, the
// Is(error) bool hook, and Unwrap chains.
func initErrorsExternals() {
	externals["errors.Is"] = func(fr *frame, a []value) value {
		in := fr.in
		err, _ := a[0].(iface)
		target, _ := a[1].(iface)
		if err.t == nil || target.t == nil {
			return in.tb.Bool(err.t == nil && target.t == nil)
		}
		return in.errorsIs(fr, err, target, 0)
	}
}

var extraInits []func()

func (in *Interp) errorsIs(fr *frame, err, target iface, depth int) T {
	if depth > 20 {
		unsupported("errors.Is: unwrap chain too deep")
	}
	for {
		if sameType(err.t, target.t) && types.Comparable(err.t) {
			eq := in.equals(err.t, err.v, target.v)
			if in.decide(eq) {
				return in.tb.True
			}
		}
		if m := in.findMethod(err.t, "Is"); m != nil && m.Signature.Params().Len() == 1 && m.Signature.Results().Len() == 1 {
			r := in.call(fr, token.NoPos, m, []value{err.v, target}).(T)
			if in.decide(r) {
				return in.tb.True
			}
		}
		m := in.findMethod(err.t, "Unwrap")
		if m == nil || m.Signature.Params().Len() != 0 || m.Signature.Results().Len() != 1 {
			return in.tb.False
		}
		res := in.call(fr, token.NoPos, m, []value{err.v})
		switch r := res.(type) {
		case iface:
			if r.t == nil {
				return in.tb.False
			}
			err = r
		case []value:
			for _, e := range r {
				ei := e.(iface)
				if ei.t == nil {
					continue
				}
				if in.decide(in.errorsIs(fr, ei, target, depth+1)) {
					return in.tb.True
				}
			}
			return in.tb.False
		default:
			return in.tb.False
		}
	}
}
