package interp

import (
	"fmt"
	"go/token"
	"go/types"
	"os"
	"runtime"
	"slices"
	"strings"

	"golang.org/x/tools/go/ssa"

	"symgo/smt"
	"symgo/term"
)

type continuation int

const (
	kNext continuation = iota
	kReturn
	kJump
)

// Interp is one worker's interpreter state (heap, term table, solver).
type Interp struct {
	prog               *Program
	tb                 *term.Table
	solver             *smt.Solver
	globals            map[*ssa.Global]*value
	initDone           map[*ssa.Package]bool
	runtimeErrorString types.Type
	utf8Decode         *ssa.Function
	trail              []trailEntry
	cached             map[string]value // verifCached: fixtures built once per worker
	path               *pathState
	externCache        map[*ssa.Function]externFn
	Trace              bool
	inInit             bool
	chanCtr            int
	regexCache         map[string]*regexModel
	fnNameCache        map[*ssa.Function]string
	fnsSeen            map[string]bool
	pathsSinceRestart  int
	curFn              string
	fnStack            []string
	lastPanicSite      string
	initProblems       []string
}

type deferred struct {
	fn    value
	args  []value
	instr *ssa.Defer
	tail  *deferred
}

type frame struct {
	in               *Interp
	caller           *frame
	fn               *ssa.Function
	block, prevBlock *ssa.BasicBlock
	env              map[ssa.Value]value
	locals           []value
	defers           *deferred
	result           value
	panicking        bool
	panic            interface{}
	phitemps         []value
	callpos          token.Pos
}

func (fr *frame) get(key ssa.Value) value {
	switch key := key.(type) {
	case nil:
		return nil
	case *ssa.Function, *ssa.Builtin:
		return key
	case *ssa.Const:
		return fr.in.constValue(key)
	case *ssa.Global:
		if r, ok := fr.in.globals[key]; ok {
			return r
		}
		return fr.in.globalAddr(key)
	}
	if r, ok := fr.env[key]; ok {
		return r
	}
	panic(fmt.Sprintf("get: no value for %T: %v", key, key.Name()))
}

// globalAddr lazily allocates storage for a global; globals of packages
// whose initialiser was skipped hold poison unless zero-initialised types
// (sync primitives, plain zero vars) make that safe.
func (in *Interp) globalAddr(g *ssa.Global) *value {
	cell := new(value)
	pkg := g.Pkg
	if pkg != nil && !in.initDone[pkg] && !in.prog.initAllowed(pkg) && !zeroOKPackages[pkg.Pkg.Path()] {
		*cell = poison{"global " + g.String() + " of uninitialised package (read in " + in.stackTail(7) + ")"}
	} else {
		*cell = in.zero(deref(g.Type()))
	}
	in.globals[g] = cell
	return cell
}

func (fr *frame) runDefer(d *deferred) {
	var ok bool
	defer func() {
		if !ok {
			r := recover()
			if _, isT := r.(targetPanic); !isT {
				panic(r) // abortPath or engine error: propagate
			}
			fr.panicking = true
			fr.panic = r
		}
	}()
	fr.in.call(fr, d.instr.Pos(), d.fn, d.args)
	ok = true
}

func (fr *frame) runDefers() {
	for d := fr.defers; d != nil; d = d.tail {
		fr.runDefer(d)
	}
	fr.defers = nil
	if fr.panicking {
		panic(fr.panic)
	}
}

func (in *Interp) lookupMethod(typ types.Type, meth *types.Func) *ssa.Function {
	return in.prog.ssa.LookupMethod(typ, meth.Pkg(), meth.Name())
}

// findMethod returns the exported method name of type t, or nil.
func (in *Interp) findMethod(t types.Type, name string) *ssa.Function {
	sel := in.prog.ssa.MethodSets.MethodSet(t).Lookup(nil, name)
	if sel == nil {
		return nil
	}
	return in.prog.ssa.MethodValue(sel)
}

func (in *Interp) step() {
	p := in.path
	if p == nil {
		return
	}
	p.steps++
	if p.stepLimit > 0 && int64(p.steps) > p.stepLimit {
		// the harness declared a bound on the work the code under test can
		// legitimately need: beyond it the real program does not terminate
		// promptly
		lim := p.stepLimit
		p.stepLimit = 0
		panic(fatalError{fmt.Sprintf("no prompt termination: the step bound declared by the harness was exceeded (bound reached at step %d) in %s", lim, in.stackTail(3))})
	}
	if p.steps > p.maxSteps {
		panic(abortPath{abortBudget, fmt.Sprintf("step budget %d exceeded", p.maxSteps)})
	}
}

func (in *Interp) visitInstr(fr *frame, instr ssa.Instruction) continuation {
	in.step()
	switch instr := instr.(type) {
	case *ssa.DebugRef:
	case *ssa.UnOp:
		fr.env[instr] = in.unop(fr, instr, fr.get(instr.X))
	case *ssa.BinOp:
		x, y := fr.get(instr.X), fr.get(instr.Y)
		if instr.Op == token.SHL || instr.Op == token.SHR {
			fr.env[instr] = in.shiftop(instr.Op, instr.X.Type(), instr.Y.Type(), x.(T), y.(T))
		} else {
			fr.env[instr] = in.binop(instr.Op, instr.X.Type(), x, y)
		}
	case *ssa.Call:
		fn, args := in.prepareCall(fr, &instr.Call)
		if in.inInit {
			fr.env[instr] = in.initCall(fr, instr, fn, args)
		} else {
			fr.env[instr] = in.call(fr, instr.Pos(), fn, args)
		}
	case *ssa.ChangeInterface:
		fr.env[instr] = fr.get(instr.X)
	case *ssa.ChangeType:
		fr.env[instr] = fr.get(instr.X)
	case *ssa.Convert:
		fr.env[instr] = in.conv(fr, instr.Type(), instr.X.Type(), fr.get(instr.X))
	case *ssa.SliceToArrayPointer:
		x := fr.get(instr.X).([]value)
		arr := deref(instr.Type()).Underlying().(*types.Array)
		if arr.Len() > int64(len(x)) {
			in.rtPanic("cannot convert slice to array pointer: length mismatch")
		}
		if x == nil {
			fr.env[instr] = (*value)(nil)
		} else {
			v := value(array(x[:arr.Len()]))
			fr.env[instr] = &v
		}
	case *ssa.MakeInterface:
		fr.env[instr] = iface{t: instr.X.Type(), v: fr.get(instr.X)}
	case *ssa.Extract:
		fr.env[instr] = fr.get(instr.Tuple).(tuple)[instr.Index]
	case *ssa.Slice:
		fr.env[instr] = in.slice(fr, instr, fr.get(instr.X), fr.get(instr.Low), fr.get(instr.High), fr.get(instr.Max))
	case *ssa.Return:
		switch len(instr.Results) {
		case 0:
		case 1:
			fr.result = fr.get(instr.Results[0])
		default:
			var res []value
			for _, r := range instr.Results {
				res = append(res, fr.get(r))
			}
			fr.result = tuple(res)
		}
		fr.block = nil
		return kReturn
	case *ssa.RunDefers:
		fr.runDefers()
	case *ssa.Panic:
		panic(targetPanic{fr.get(instr.X)})
	case *ssa.Send:
		in.chanSend(fr.get(instr.Chan).(*chanObj), fr.get(instr.X))
	case *ssa.Store:
		in.storePtr(deref(instr.Addr.Type()), fr.get(instr.Addr), fr.get(instr.Val))
	case *ssa.If:
		succ := 1
		c, ok := fr.get(instr.Cond).(T)
		if !ok {
			if p, isP := fr.get(instr.Cond).(poison); isP {
				unsupported("branch on poison value: %s", p.why)
			}
			panic(fmt.Sprintf("If: cond is %T", fr.get(instr.Cond)))
		}
		if in.decide(c) {
			succ = 0
		}
		fr.prevBlock, fr.block = fr.block, fr.block.Succs[succ]
		return kJump
	case *ssa.Jump:
		fr.prevBlock, fr.block = fr.block, fr.block.Succs[0]
		return kJump
	case *ssa.Defer:
		fn, args := in.prepareCall(fr, &instr.Call)
		defers := &fr.defers
		if instr.DeferStack != nil {
			if into := fr.get(instr.DeferStack); into != nil {
				defers = into.(**deferred)
			}
		}
		*defers = &deferred{fn: fn, args: args, instr: instr, tail: *defers}
	case *ssa.Go:
		fn, args := in.prepareCall(fr, &instr.Call)
		if in.path == nil {
			unsupported("go statement during initialisation")
		}
		in.path.spawned = append(in.path.spawned, spawnedGo{fn, args, instr.Pos()})
	case *ssa.MakeChan:
		n, ok := asConstInt(fr.get(instr.Size))
		if !ok {
			unsupported("symbolic channel size")
		}
		in.chanCtr++
		fr.env[instr] = &chanObj{cap: int(n), id: in.chanCtr}
	case *ssa.Alloc:
		var addr *value
		if instr.Heap {
			addr = new(value)
			fr.env[instr] = addr
		} else {
			addr = fr.env[instr].(*value)
		}
		*addr = in.zero(deref(instr.Type()))
	case *ssa.MakeSlice:
		ln := in.concretiseInt(fr.get(instr.Len), "make len")
		cp := in.concretiseInt(fr.get(instr.Cap), "make cap")
		if ln < 0 || cp < ln {
			in.rtPanic("makeslice: len out of range")
		}
		if cp > 1<<24 {
			unsupported("make([]T, %d) too large", cp)
		}
		slice := make([]value, cp)
		tElt := instr.Type().Underlying().(*types.Slice).Elem()
		for i := range slice {
			slice[i] = in.zero(tElt)
		}
		fr.env[instr] = slice[:ln]
	case *ssa.MakeMap:
		mt := instr.Type().Underlying().(*types.Map)
		fr.env[instr] = in.makeMap(mt.Key(), mt.Elem())
	case *ssa.Range:
		fr.env[instr] = in.rangeIter(fr.get(instr.X), instr.X.Type())
	case *ssa.Next:
		fr.env[instr] = fr.get(instr.Iter).(iter).next(fr)
	case *ssa.FieldAddr:
		x := fr.get(instr.X)
		p, ok := x.(*value)
		if !ok {
			if ps, isP := x.(poison); isP {
				unsupported("use of poison value: %s", ps.why)
			}
			unsupported("FieldAddr on %T", x)
		}
		if p == nil {
			in.rtPanic("invalid memory address or nil pointer dereference")
		}
		st, ok := (*p).(structure)
		if !ok {
			if ps, isP := (*p).(poison); isP {
				unsupported("use of poison value: %s", ps.why)
			}
			unsupported("FieldAddr: cell holds %T (modelled object?) in %s", *p, fr.fn)
		}
		fr.env[instr] = &st[instr.Field]
	case *ssa.Field:
		fr.env[instr] = fr.get(instr.X).(structure)[instr.Field]
	case *ssa.IndexAddr:
		fr.env[instr] = in.indexAddr(fr, instr)
	case *ssa.Index:
		x := fr.get(instr.X)
		idx := fr.get(instr.Index).(T)
		switch x := x.(type) {
		case array:
			i := in.boundedIndex(idx, len(x), instr.Index.Type())
			fr.env[instr] = x[i]
		case str:
			fr.env[instr] = in.strIndex(x, idx, instr.Index.Type())
		default:
			panic(fmt.Sprintf("unexpected x type in Index: %T", x))
		}
	case *ssa.Lookup:
		fr.env[instr] = in.lookup(fr, instr, fr.get(instr.X), fr.get(instr.Index))
	case *ssa.MapUpdate:
		m := fr.get(instr.Map)
		mo, ok := m.(*mapObj)
		if !ok {
			panic(fmt.Sprintf("illegal map type: %T", m))
		}
		in.mapInsert(mo, fr.get(instr.Key), fr.get(instr.Value))
	case *ssa.TypeAssert:
		x := fr.get(instr.X)
		itf, ok := x.(iface)
		if !ok {
			if ps, isP := x.(poison); isP {
				unsupported("use of poison value: %s", ps.why)
			}
			panic(fmt.Sprintf("TypeAssert on %T", x))
		}
		fr.env[instr] = in.typeAssert(instr, itf)
	case *ssa.MakeClosure:
		var bindings []value
		for _, binding := range instr.Bindings {
			bindings = append(bindings, fr.get(binding))
		}
		fr.env[instr] = &closure{instr.Fn.(*ssa.Function), bindings}
	case *ssa.Phi:
		panic("unreachable: phi")
	case *ssa.Select:
		fr.env[instr] = in.doSelect(fr, instr)
	default:
		panic(fmt.Sprintf("unexpected instruction: %T", instr))
	}
	return kNext
}

// boundedIndex checks 0 <= idx < n, forking a panicking path, and returns a
// concrete index (concretising if necessary).
func (in *Interp) boundedIndex(idx T, n int, idxT types.Type) int {
	tb := in.tb
	i64 := in.toInt64(idx, idxT)
	if c, ok := asConstInt(i64); ok {
		if c < 0 || c >= int64(n) {
			in.rtPanic(fmt.Sprintf("index out of range [%d] with length %d", c, n))
		}
		return int(c)
	}
	inb := tb.Bin(term.ULt, i64, in.int64v(int64(n)))
	if !in.decide(inb) {
		in.rtPanic(fmt.Sprintf("index out of range [symbolic] with length %d", n))
	}
	return int(in.concretise(i64))
}

func (in *Interp) toInt64(x T, t types.Type) T {
	if x.W == 64 {
		return x
	}
	if isSigned(t) {
		return in.tb.SExtTo(x, 64)
	}
	return in.tb.ZExtTo(x, 64)
}

func isScalarType(t types.Type) bool {
	b, ok := t.Underlying().(*types.Basic)
	return ok && (b.Info()&types.IsInteger != 0 || b.Kind() == types.Bool)
}

func (in *Interp) indexAddr(fr *frame, instr *ssa.IndexAddr) value {
	x := fr.get(instr.X)
	idx := in.toInt64(fr.get(instr.Index).(T), instr.Index.Type())
	var base []value
	var elemT types.Type
	switch x := x.(type) {
	case []value:
		base = x
		elemT = instr.X.Type().Underlying().(*types.Slice).Elem()
	case *value:
		if x == nil {
			in.rtPanic("invalid memory address or nil pointer dereference")
		}
		base = (*x).(array)
		elemT = deref(instr.X.Type()).Underlying().(*types.Array).Elem()
	case poison:
		unsupported("use of poison value: %s", x.why)
	default:
		panic(fmt.Sprintf("unexpected x type in IndexAddr: %T", x))
	}
	n := len(base)
	if c, ok := asConstInt(idx); ok {
		if c < 0 || c >= int64(n) {
			in.rtPanic(fmt.Sprintf("index out of range [%d] with length %d", c, n))
		}
		return &base[c]
	}
	inb := in.tb.Bin(term.ULt, idx, in.int64v(int64(n)))
	if !in.decide(inb) {
		in.rtPanic(fmt.Sprintf("index out of range [symbolic] with length %d", n))
	}
	if isScalarType(elemT) && n <= 512 {
		return symPtr{base: base, idx: idx}
	}
	return &base[in.concretise(idx)]
}

func (in *Interp) lookup(fr *frame, instr *ssa.Lookup, x, idx value) value {
	switch x := x.(type) {
	case *mapObj:
		if x == nil {
			mt := instr.X.Type().Underlying().(*types.Map)
			v := in.zero(mt.Elem())
			if instr.CommaOk {
				return tuple{v, in.tb.False}
			}
			return v
		}
		return in.mapLookup(x, idx, instr.CommaOk)
	case str:
		return in.strIndex(x, idx.(T), instr.Index.Type())
	case poison:
		unsupported("use of poison value: %s", x.why)
	}
	panic(fmt.Sprintf("unexpected x type in Lookup: %T", x))
}

func (in *Interp) strIndex(x str, idx T, idxT types.Type) T {
	in.checkOpaque(x)
	i64 := in.toInt64(idx, idxT)
	n := len(x.b)
	if c, ok := asConstInt(i64); ok {
		if c < 0 || c >= int64(n) {
			in.rtPanic(fmt.Sprintf("index out of range [%d] with length %d", c, n))
		}
		return x.b[c]
	}
	inb := in.tb.Bin(term.ULt, i64, in.int64v(int64(n)))
	if !in.decide(inb) {
		in.rtPanic(fmt.Sprintf("index out of range [symbolic] with length %d", n))
	}
	return in.selectTree(x.b, i64)
}

func (in *Interp) slice(fr *frame, instr *ssa.Slice, x, lo, hi, max value) value {
	var Len, Cap int
	switch x := x.(type) {
	case str:
		in.checkOpaque(x)
		Len = len(x.b)
		Cap = Len
	case []value:
		Len = len(x)
		Cap = cap(x)
	case *value:
		if x == nil {
			in.rtPanic("invalid memory address or nil pointer dereference")
		}
		a := (*x).(array)
		Len = len(a)
		Cap = len(a)
	case poison:
		unsupported("use of poison value: %s", x.why)
	default:
		panic(fmt.Sprintf("slice: unexpected X type: %T", x))
	}
	l, h, m := int64(0), int64(Len), int64(Cap)
	// bounds checks on symbolic values: fork into panicking paths first
	get := func(v value, def int64, what string) int64 {
		if v == nil {
			return def
		}
		t := v.(T)
		if t.W != 64 {
			t = in.tb.SExtTo(t, 64)
		}
		if c, ok := asConstInt(t); ok {
			return c
		}
		// 0 <= t <= Cap must hold, else panic
		ok := in.tb.Bin(term.ULe, t, in.int64v(int64(Cap)))
		if !in.decide(ok) {
			in.rtPanic("slice bounds out of range [symbolic " + what + "]")
		}
		return in.concretise(t)
	}
	if max != nil {
		m = get(max, m, "max")
	}
	h = get(hi, h, "high")
	l = get(lo, l, "low")
	if _, isStr := x.(str); isStr {
		if h < 0 || h > int64(Len) {
			in.rtPanic(fmt.Sprintf("slice bounds out of range [:%d] with length %d", h, Len))
		}
	} else {
		if m < 0 || m > int64(Cap) {
			in.rtPanic(fmt.Sprintf("slice bounds out of range [::%d] with capacity %d", m, Cap))
		}
		if h < 0 || h > m {
			in.rtPanic(fmt.Sprintf("slice bounds out of range [:%d] with capacity %d", h, m))
		}
	}
	if l < 0 || l > h {
		in.rtPanic(fmt.Sprintf("slice bounds out of range [%d:%d]", l, h))
	}
	switch x := x.(type) {
	case str:
		return str{b: x.b[l:h]}
	case []value:
		if x == nil {
			return []value(nil)
		}
		return x[l:h:m]
	case *value:
		a := (*x).(array)
		return []value(a)[l:h:m]
	}
	panic("unreachable")
}

func (in *Interp) prepareCall(fr *frame, call *ssa.CallCommon) (fn value, args []value) {
	v := fr.get(call.Value)
	if call.Method == nil {
		fn = v
	} else {
		recv, ok := v.(iface)
		if !ok {
			if ps, isP := v.(poison); isP {
				unsupported("use of poison value: %s", ps.why)
			}
			panic(fmt.Sprintf("invoke on %T", v))
		}
		if recv.t == nil {
			in.rtPanic("invalid memory address or nil pointer dereference (method call on nil interface)")
		}
		f := in.lookupMethod(recv.t, call.Method)
		if f == nil {
			panic(fmt.Sprintf("method set for dynamic type %v does not contain %s", recv.t, call.Method))
		}
		fn = f
		args = append(args, recv.v)
	}
	for _, arg := range call.Args {
		args = append(args, fr.get(arg))
	}
	return
}

func (in *Interp) call(caller *frame, callpos token.Pos, fn value, args []value) value {
	switch fn := fn.(type) {
	case *ssa.Function:
		if fn == nil {
			in.rtPanic("invalid memory address or nil pointer dereference (call of nil func)")
		}
		return in.callSSA(caller, callpos, fn, args, nil)
	case *closure:
		if fn == nil {
			in.rtPanic("invalid memory address or nil pointer dereference (call of nil func)")
		}
		return in.callSSA(caller, callpos, fn.Fn, args, fn.Env)
	case *ssa.Builtin:
		return in.callBuiltin(caller, callpos, fn, args)
	case poison:
		unsupported("call of poison value: %s", fn.why)
	}
	panic(fmt.Sprintf("cannot call %T", fn))
}

func (in *Interp) fnName(fn *ssa.Function) string {
	if s, ok := in.fnNameCache[fn]; ok {
		return s
	}
	s := fn.String()
	in.fnNameCache[fn] = s
	return s
}

const maxDepth = 400

// packages whose globals may be read as zero values without running their
// initialisers (CPU feature flags: "no optional features").
var zeroOKPackages = map[string]bool{"internal/cpu": true, "internal/godebugs": true}

// initCall runs a call made during package initialisation; a call the engine
// cannot execute yields poison instead of aborting the whole initialiser.
func (in *Interp) initCall(fr *frame, instr *ssa.Call, fn value, args []value) (res value) {
	if f, ok := fn.(*ssa.Function); ok && f != nil && f.Synthetic == "package initializer" {
		if f.Pkg == nil || !in.prog.initAllowed(f.Pkg) {
			return nil
		}
		if in.initDone[f.Pkg] {
			return nil
		}
		in.initDone[f.Pkg] = true
	}
	defer func() {
		if r := recover(); r != nil {
			var why string
			switch r := r.(type) {
			case abortPath:
				why = r.kind.String() + ": " + r.msg
			case targetPanic:
				why = "panic: " + in.toString(r.v)
			default:
				why = fmt.Sprint(r)
			}
			name := fmt.Sprint(fn)
			if f, ok := fn.(*ssa.Function); ok {
				name = f.String()
			}
			in.initProblems = append(in.initProblems, fmt.Sprintf("%s: call to %s: %s", fr.fn, name, firstLine(why)))
			res = poison{"init-time call to " + name + " failed: " + firstLine(why)}
			if tup, ok := instr.Type().(*types.Tuple); ok && tup.Len() > 1 {
				t := make(tuple, tup.Len())
				for i := range t {
					t[i] = res
				}
				res = t
			}
		}
	}()
	return in.call(fr, instr.Pos(), fn, args)
}

func (in *Interp) callSSA(caller *frame, callpos token.Pos, fn *ssa.Function, args []value, env []value) value {
	fr := &frame{in: in, caller: caller, fn: fn, callpos: callpos}
	if in.Trace {
		fmt.Fprintf(os.Stderr, "%scall %s\n", strings.Repeat(" ", in.depth(caller)), fn)
	}
	if in.path != nil && in.path.stubs != nil {
		if sf := in.path.stubs[fn]; sf != nil {
			in.path.stubCalls[in.fnName(fn)]++
			fn = sf
			fr.fn = sf
		}
	}
	if fn.Parent() == nil {
		ext, ok := in.externCache[fn]
		if !ok {
			ext = in.findExternal(fn)
			in.externCache[fn] = ext
		}
		if ext != nil {
			r := ext(fr, args)
			if _, ft := r.(fallThrough); !ft {
				return r
			}
		}
		if fn.Blocks == nil {
			unsupported("no code for function: %s", in.fnName(fn))
		}
	}
	if in.path != nil && in.fnsSeen != nil {
		if nm := in.fnName(fn); !in.fnsSeen[nm] {
			in.fnsSeen[nm] = true
		}
	}
	if fn.TypeParams().Len() > 0 && len(fn.TypeArgs()) == 0 {
		unsupported("uninstantiated generic function %s", fn)
	}
	if caller != nil {
		d := in.depth(caller)
		if in.path != nil && in.path.recursionLimit > 0 && d > in.path.recursionLimit {
			// the harness declared a bound on the nesting the code under test can
			// legitimately reach: beyond it the real program overflows its stack
			panic(fatalError{fmt.Sprintf("stack overflow: more than %d nested calls in %s", in.path.recursionLimit, fn.String())})
		}
		if d > maxDepth {
			panic(abortPath{abortBudget, "call depth exceeded in " + fn.String()})
		}
	}
	fr.env = make(map[ssa.Value]value)
	fr.block = fn.Blocks[0]
	fr.locals = make([]value, len(fn.Locals))
	for i, l := range fn.Locals {
		fr.locals[i] = in.zero(deref(l.Type()))
		fr.env[l] = &fr.locals[i]
	}
	for i, p := range fn.Params {
		fr.env[p] = args[i]
	}
	for i, fv := range fn.FreeVars {
		fr.env[fv] = env[i]
	}
	prevFn := in.curFn
	in.curFn = in.fnName(fn)
	in.fnStack = append(in.fnStack, in.curFn)
	defer func() {
		in.fnStack = in.fnStack[:len(in.fnStack)-1]
		in.curFn = prevFn
	}()
	for fr.block != nil {
		in.runFrame(fr)
	}
	return fr.result
}

func (in *Interp) depth(fr *frame) int {
	d := 0
	for ; fr != nil; fr = fr.caller {
		d++
	}
	return d
}

func (in *Interp) runFrame(fr *frame) {
	defer func() {
		if fr.block == nil {
			return // normal return
		}
		r := recover()
		switch r := r.(type) {
		case targetPanic:
			fr.panicking = true
			fr.panic = r
			fr.runDefers()
			fr.block = fr.fn.Recover
			if fr.block == nil {
				// recovered, no named results: return zero values
				fr.result = in.zero(fr.fn.Signature.Results())
			}
		case abortPath:
			if r.kind == abortUnsupported && !strings.Contains(r.msg, " [in ") {
				r.msg += " [in " + in.stackTail(4) + "]"
			}
			panic(r)
		case runtime.Error:
			// engine bug or unexpected dynamic type: report with context
			panic(abortPath{abortEngine, fmt.Sprintf("%v (in %s)", r, fr.fn)})
		default:
			panic(r)
		}
	}()
	for {
		nonPhis := in.executePhis(fr)
		for _, instr := range nonPhis {
			if in.Trace {
				if v, ok := instr.(ssa.Value); ok {
					fmt.Fprintln(os.Stderr, "\t", v.Name(), "=", instr)
				} else {
					fmt.Fprintln(os.Stderr, "\t", instr)
				}
			}
			if in.inInit && fr.fn.Synthetic == "package initializer" {
				k, ok := in.tolerantInstr(fr, instr)
				if !ok {
					continue
				}
				if k == kReturn {
					return
				}
				if k == kJump {
					break
				}
				continue
			}
			if in.visitInstr(fr, instr) == kReturn {
				return
			}
		}
	}
}

// tolerantInstr executes one instruction of a package initialiser; an
// instruction the engine cannot execute leaves poison in its result.
func (in *Interp) tolerantInstr(fr *frame, instr ssa.Instruction) (k continuation, ok bool) {
	defer func() {
		if r := recover(); r != nil {
			var why string
			switch r := r.(type) {
			case abortPath:
				if r.kind != abortUnsupported && r.kind != abortEngine {
					panic(r)
				}
				why = r.kind.String() + ": " + r.msg
			case targetPanic:
				panic(r)
			case runtime.Error:
				why = "engine-error: " + r.Error()
			default:
				why = fmt.Sprint(r)
			}
			switch instr.(type) {
			case *ssa.If, *ssa.Jump, *ssa.Return:
				panic(abortPath{abortUnsupported, "control flow on poison in initialiser: " + why})
			}
			in.initProblems = append(in.initProblems, fmt.Sprintf("%s: %s: %s", fr.fn, instr, firstLine(why)))
			if v, isV := instr.(ssa.Value); isV {
				fr.env[v] = poison{"initialiser instruction failed: " + firstLine(why)}
			}
			k, ok = kNext, false
		}
	}()
	return in.visitInstr(fr, instr), true
}

func (in *Interp) executePhis(fr *frame) []ssa.Instruction {
	firstNonPhi := -1
	for i, instr := range fr.block.Instrs {
		if _, ok := instr.(*ssa.Phi); !ok {
			firstNonPhi = i
			break
		}
	}
	nonPhis := fr.block.Instrs[firstNonPhi:]
	if firstNonPhi > 0 {
		phis := fr.block.Instrs[:firstNonPhi]
		predIndex := slices.Index(fr.block.Preds, fr.prevBlock)
		fr.phitemps = fr.phitemps[:0]
		for _, phi := range phis {
			phi := phi.(*ssa.Phi)
			fr.phitemps = append(fr.phitemps, fr.get(phi.Edges[predIndex]))
		}
		for i, phi := range phis {
			fr.env[phi.(*ssa.Phi)] = fr.phitemps[i]
		}
	}
	return nonPhis
}

func (in *Interp) doRecover(caller *frame) value {
	if caller != nil && !caller.panicking && caller.caller != nil && caller.caller.panicking {
		caller.caller.panicking = false
		p := caller.caller.panic
		caller.caller.panic = nil
		switch p := p.(type) {
		case targetPanic:
			return p.v
		default:
			panic(fmt.Sprintf("unexpected panic type %T in target call to recover()", p))
		}
	}
	return iface{}
}

// rangeIter creates an iterator for range over string or map.
func (in *Interp) rangeIter(x value, t types.Type) iter {
	switch x := x.(type) {
	case *mapObj:
		return in.newMapIter(x)
	case str:
		in.checkOpaque(x)
		return &stringIter{s: x}
	case poison:
		unsupported("use of poison value: %s", x.why)
	}
	panic(fmt.Sprintf("cannot range over %T", x))
}

type stringIter struct {
	s   str
	pos int
}

func (it *stringIter) next(fr *frame) tuple {
	in := fr.in
	if it.pos >= len(it.s.b) {
		return tuple{in.tb.False, in.int64v(0), in.tb.BV(32, 0)}
	}
	r, n := in.decodeRune(fr, str{b: it.s.b[it.pos:]})
	res := tuple{in.tb.True, in.int64v(int64(it.pos)), r}
	it.pos += n
	return res
}

func (in *Interp) doSelect(fr *frame, instr *ssa.Select) value {
	// Ghost semantics: pick the first ready case; default if non-blocking.
	for i, st := range instr.States {
		ch := fr.get(st.Chan).(*chanObj)
		if ch == nil {
			continue
		}
		if st.Dir == types.RecvOnly {
			if len(ch.buf) > 0 || ch.closed {
				r := tuple{in.int64v(int64(i)), nil}
				elemT := st.Chan.Type().Underlying().(*types.Chan).Elem()
				res := in.chanRecv(ch, elemT, true).(tuple)
				r[1] = res[1]
				for j, st2 := range instr.States {
					if st2.Dir == types.RecvOnly {
						if j == i {
							r = append(r, res[0])
						} else {
							r = append(r, in.zero(st2.Chan.Type().Underlying().(*types.Chan).Elem()))
						}
					}
				}
				return r
			}
		} else {
			if ch.closed {
				in.rtPanic("send on closed channel")
			}
			if len(ch.buf) < ch.cap {
				in.chanSend(ch, fr.get(st.Send))
				r := tuple{in.int64v(int64(i)), in.tb.False}
				for _, st2 := range instr.States {
					if st2.Dir == types.RecvOnly {
						r = append(r, in.zero(st2.Chan.Type().Underlying().(*types.Chan).Elem()))
					}
				}
				return r
			}
		}
	}
	if !instr.Blocking {
		r := tuple{in.int64v(-1), in.tb.False}
		for _, st2 := range instr.States {
			if st2.Dir == types.RecvOnly {
				r = append(r, in.zero(st2.Chan.Type().Underlying().(*types.Chan).Elem()))
			}
		}
		return r
	}
	panic(abortPath{abortBlocked, "select would block"})
}

func (in *Interp) chanSend(ch *chanObj, v value) {
	if ch == nil {
		panic(abortPath{abortBlocked, "send on nil channel blocks forever"})
	}
	if ch.closed {
		in.rtPanic("send on closed channel")
	}
	if len(ch.buf) >= ch.cap {
		panic(blockedPanic{"send on full/unbuffered channel"})
	}
	old := ch.buf
	in.logUndo(func() { ch.buf = old })
	ch.buf = append(append([]value(nil), ch.buf...), v)
}

type blockedPanic struct{ why string }

func (in *Interp) chanRecv(ch *chanObj, elemT types.Type, commaOk bool) value {
	if ch == nil {
		panic(blockedPanic{"receive on nil channel"})
	}
	var v value
	ok := in.tb.True
	if len(ch.buf) > 0 {
		v = ch.buf[0]
		old := ch.buf
		in.logUndo(func() { ch.buf = old })
		ch.buf = append([]value(nil), ch.buf[1:]...)
	} else if ch.closed {
		v = in.zero(elemT)
		ok = in.tb.False
	} else {
		panic(blockedPanic{"receive on empty open channel"})
	}
	if commaOk {
		return tuple{v, ok}
	}
	return v
}

func (in *Interp) chanClose(ch *chanObj) {
	if ch == nil {
		in.rtPanic("close of nil channel")
	}
	if ch.closed {
		in.rtPanic("close of closed channel")
	}
	in.logUndo(func() { ch.closed = false })
	ch.closed = true
}
