// Package interp is a symbolic interpreter for go/ssa.  Its structure
// follows golang.org/x/tools/go/ssa/interp (BSD licence, The Go Authors);
// integers and booleans are SMT terms, strings are byte-term sequences.
package interp

import (
	"fmt"
	"go/types"
	"strings"

	"golang.org/x/tools/go/ssa"

	"symgo/term"
)

type value interface{}

type T = *term.Term

type tuple []value
type array []value
type structure []value

type iface struct {
	t types.Type
	v value
}

// str is a string value: a sequence of 8-bit terms.  Immutable.
type str struct {
	b []T
	// opaque strings come from stubs (fmt); inspecting them aborts the path
	opaque bool
}

type closure struct {
	Fn  *ssa.Function
	Env []value
}

// symPtr is a pointer to an element of base selected by a symbolic index.
type symPtr struct {
	base []value
	idx  T // 64-bit
}

// sliceData is the result of unsafe.SliceData / unsafe.StringData.
type sliceData struct {
	s  []value
	st *str
}

// unsafePtr is an unsafe.Pointer holding some value.
type unsafePtr struct {
	v value
}

// symFloat is a floating-point value the engine does not compute (the
// numeric result of parsing a symbolic decimal string).  Any arithmetic or
// comparison on it aborts the path as inconclusive.
type symFloat struct{}

// fallThrough is returned by an intrinsic that declines: the SSA body runs.
type fallThrough struct{}

// poison marks values the engine could not compute (skipped initialisers).
type poison struct{ why string }

type bad struct{}

// chanObj is a ghost channel.
type chanObj struct {
	buf    []value
	cap    int
	closed bool
	id     int
}

// iterator for range over string / map
type iter interface {
	next(fr *frame) tuple
}

// ---------------------------------------------------------------------

// abortPath unwinds a whole path.
type abortKind int

const (
	abortUnsupported abortKind = iota
	abortBudget
	abortInfeasible
	abortBlocked
	abortStop // path ended deliberately (e.g. after a recorded violation)
	abortEngine
)

func (k abortKind) String() string {
	return [...]string{"unsupported", "budget", "infeasible", "blocked", "stop", "engine-error"}[k]
}

type abortPath struct {
	kind abortKind
	msg  string
}

func unsupported(format string, args ...interface{}) {
	panic(abortPath{abortUnsupported, fmt.Sprintf(format, args...)})
}

// targetPanic is a Go-level panic of the interpreted program.
type targetPanic struct {
	v value
}

// ---------------------------------------------------------------------
// type helpers

func isIntKind(b *types.Basic) bool { return b.Info()&types.IsInteger != 0 }

func widthOf(b *types.Basic) uint8 {
	switch b.Kind() {
	case types.Bool, types.UntypedBool:
		return 0
	case types.Int8, types.Uint8:
		return 8
	case types.Int16, types.Uint16:
		return 16
	case types.Int32, types.Uint32, types.UntypedRune:
		return 32
	case types.Int, types.Uint, types.Int64, types.Uint64, types.Uintptr, types.UntypedInt:
		return 64
	}
	panic(fmt.Sprintf("widthOf: %v", b))
}

func isSigned(t types.Type) bool {
	b, ok := t.Underlying().(*types.Basic)
	if !ok {
		return false
	}
	return b.Info()&types.IsUnsigned == 0 && b.Info()&types.IsInteger != 0
}

func basicOf(t types.Type) *types.Basic {
	b, _ := t.Underlying().(*types.Basic)
	return b
}

func deref(t types.Type) types.Type {
	if p, ok := t.Underlying().(*types.Pointer); ok {
		return p.Elem()
	}
	panic(fmt.Sprintf("deref: not a pointer: %v", t))
}

// ---------------------------------------------------------------------

func (in *Interp) mkStr(s string) str {
	b := make([]T, len(s))
	for i := 0; i < len(s); i++ {
		b[i] = in.tb.BV(8, uint64(s[i]))
	}
	return str{b: b}
}

// concrete returns the Go string if all bytes are constants.
func (s str) concrete() (string, bool) {
	if s.opaque {
		return "", false
	}
	buf := make([]byte, len(s.b))
	for i, t := range s.b {
		if t.Op != term.Const {
			return "", false
		}
		buf[i] = byte(t.Val)
	}
	return string(buf), true
}

func (in *Interp) checkOpaque(s str) {
	if s.opaque {
		unsupported("inspection of an opaque (stubbed fmt) string in %s", in.stackTail(3))
	}
}

func (in *Interp) intv(w uint8, v int64) T { return in.tb.BV(w, uint64(v)) }
func (in *Interp) int64v(v int64) T        { return in.tb.BV(64, uint64(v)) }

// asConstInt returns the signed value of a constant int term.
func asConstInt(v value) (int64, bool) {
	t, ok := v.(T)
	if !ok || t.Op != term.Const {
		return 0, false
	}
	return t.SVal(), true
}

// zero returns the zero value of type t.
func (in *Interp) zero(t types.Type) value {
	switch t := t.(type) {
	case *types.Basic:
		if t.Kind() == types.UntypedNil {
			panic("untyped nil has no zero value")
		}
		if t.Info()&types.IsUntyped != 0 {
			t = types.Default(t).(*types.Basic)
		}
		switch {
		case t.Kind() == types.Bool:
			return in.tb.False
		case t.Info()&types.IsInteger != 0:
			return in.tb.BV(widthOf(t), 0)
		case t.Kind() == types.Float32:
			return float32(0)
		case t.Kind() == types.Float64:
			return float64(0)
		case t.Kind() == types.Complex64:
			return complex64(0)
		case t.Kind() == types.Complex128:
			return complex128(0)
		case t.Kind() == types.String:
			return str{}
		case t.Kind() == types.UnsafePointer:
			return unsafePtr{}
		}
		panic(fmt.Sprint("zero for unexpected type:", t))
	case *types.Pointer:
		return (*value)(nil)
	case *types.Array:
		a := make(array, t.Len())
		for i := range a {
			a[i] = in.zero(t.Elem())
		}
		return a
	case *types.Named:
		return in.zero(t.Underlying())
	case *types.Alias:
		return in.zero(types.Unalias(t))
	case *types.Interface:
		return iface{}
	case *types.Slice:
		return []value(nil)
	case *types.Struct:
		s := make(structure, t.NumFields())
		for i := range s {
			s[i] = in.zero(t.Field(i).Type())
		}
		return s
	case *types.Tuple:
		if t.Len() == 1 {
			return in.zero(t.At(0).Type())
		}
		s := make(tuple, t.Len())
		for i := range s {
			s[i] = in.zero(t.At(i).Type())
		}
		return s
	case *types.Chan:
		return (*chanObj)(nil)
	case *types.Map:
		return (*mapObj)(nil)
	case *types.Signature:
		return (*ssa.Function)(nil)
	case *types.TypeParam:
		unsupported("zero of type parameter %v", t)
	}
	panic(fmt.Sprint("zero: unexpected ", t))
}

// ---------------------------------------------------------------------
// memory: load / store with an undo trail

type trailEntry struct {
	addr *value
	old  value
	fn   func()
}

func (in *Interp) setCell(addr *value, v value) {
	in.trail = append(in.trail, trailEntry{addr: addr, old: *addr})
	*addr = v
}

func (in *Interp) logUndo(fn func()) {
	in.trail = append(in.trail, trailEntry{fn: fn})
}

func (in *Interp) rollback(mark int) {
	for i := len(in.trail) - 1; i >= mark; i-- {
		e := in.trail[i]
		if e.fn != nil {
			e.fn()
		} else {
			*e.addr = e.old
		}
		in.trail[i] = trailEntry{}
	}
	in.trail = in.trail[:mark]
}

func (in *Interp) load(T types.Type, addr *value) value {
	switch T := T.Underlying().(type) {
	case *types.Struct:
		v := (*addr).(structure)
		a := make(structure, len(v))
		for i := range a {
			a[i] = in.load(T.Field(i).Type(), &v[i])
		}
		return a
	case *types.Array:
		v := (*addr).(array)
		a := make(array, len(v))
		for i := range a {
			a[i] = in.load(T.Elem(), &v[i])
		}
		return a
	default:
		return *addr
	}
}

// copyVal makes an unaliased copy of an aggregate value.
func (in *Interp) copyVal(T types.Type, v value) value {
	switch T := T.Underlying().(type) {
	case *types.Struct:
		s := v.(structure)
		a := make(structure, len(s))
		for i := range a {
			a[i] = in.copyVal(T.Field(i).Type(), s[i])
		}
		return a
	case *types.Array:
		s := v.(array)
		a := make(array, len(s))
		for i := range a {
			a[i] = in.copyVal(T.Elem(), s[i])
		}
		return a
	}
	return v
}

func (in *Interp) store(T types.Type, addr *value, v value) {
	switch T := T.Underlying().(type) {
	case *types.Struct:
		lhs := (*addr).(structure)
		rhs := v.(structure)
		for i := range lhs {
			in.store(T.Field(i).Type(), &lhs[i], rhs[i])
		}
	case *types.Array:
		lhs := (*addr).(array)
		rhs := v.(array)
		for i := range lhs {
			in.store(T.Elem(), &lhs[i], rhs[i])
		}
	default:
		in.setCell(addr, v)
	}
}

// ---------------------------------------------------------------------
// equality (returns a Bool term)

func sameType(x, y types.Type) bool {
	if x == nil {
		return y == nil
	}
	return y != nil && types.Identical(x, y)
}

func (in *Interp) strEq(x, y str) T {
	in.checkOpaque(x)
	in.checkOpaque(y)
	if len(x.b) != len(y.b) {
		return in.tb.False
	}
	r := in.tb.True
	for i := range x.b {
		r = in.tb.AndB(r, in.tb.Bin(term.Eq, x.b[i], y.b[i]))
		if r.IsFalse() {
			return r
		}
	}
	return r
}

// equals implements == for type t.
func (in *Interp) equals(t types.Type, x, y value) T {
	if p, ok := x.(poison); ok {
		unsupported("use of poison value: %s", p.why)
	}
	if p, ok := y.(poison); ok {
		unsupported("use of poison value: %s", p.why)
	}
	switch x := x.(type) {
	case T:
		return in.tb.Bin(term.Eq, x, y.(T))
	case float32:
		return in.tb.Bool(x == y.(float32))
	case float64:
		return in.tb.Bool(x == y.(float64))
	case complex64:
		return in.tb.Bool(x == y.(complex64))
	case complex128:
		return in.tb.Bool(x == y.(complex128))
	case str:
		return in.strEq(x, y.(str))
	case *value:
		return in.tb.Bool(x == y.(*value))
	case *chanObj:
		return in.tb.Bool(x == y.(*chanObj))
	case unsafePtr:
		return in.tb.Bool(x.v == y.(unsafePtr).v)
	case structure:
		ys := y.(structure)
		st := t.Underlying().(*types.Struct)
		r := in.tb.True
		for i := range x {
			if st.Field(i).Name() == "_" {
				continue
			}
			r = in.tb.AndB(r, in.equals(st.Field(i).Type(), x[i], ys[i]))
			if r.IsFalse() {
				return r
			}
		}
		return r
	case array:
		ya := y.(array)
		et := t.Underlying().(*types.Array).Elem()
		r := in.tb.True
		for i := range x {
			r = in.tb.AndB(r, in.equals(et, x[i], ya[i]))
			if r.IsFalse() {
				return r
			}
		}
		return r
	case iface:
		yi := y.(iface)
		if !sameType(x.t, yi.t) {
			return in.tb.False
		}
		if x.t == nil {
			return in.tb.True
		}
		return in.equals(x.t, x.v, yi.v)
	case *mapObj, []value, *ssa.Function, *closure:
		panic(targetPanic{in.runtimeError("comparing uncomparable type " + t.String())})
	case rtypeVal:
		return in.tb.Bool(types.Identical(x.t, y.(rtypeVal).t))
	}
	panic(fmt.Sprintf("equals: unexpected %T (type %v)", x, t))
}

// eqnil handles comparisons where one side may be a nil of a reference type.
func (in *Interp) eqnil(t types.Type, x, y value) T {
	switch t.Underlying().(type) {
	case *types.Map:
		return in.tb.Bool((x.(*mapObj) != nil) == (y.(*mapObj) != nil))
	case *types.Slice:
		return in.tb.Bool((x.([]value) != nil) == (y.([]value) != nil))
	case *types.Signature:
		return in.tb.Bool(funcIsNil(x) == funcIsNil(y))
	}
	return in.equals(t, x, y)
}

func funcIsNil(v value) bool {
	switch f := v.(type) {
	case *ssa.Function:
		return f == nil
	case *closure:
		return f == nil
	case *ssa.Builtin:
		return f == nil
	}
	panic(fmt.Sprintf("funcIsNil: %T", v))
}

type rtypeVal struct{ t types.Type }

// ---------------------------------------------------------------------
// debugging / rendering

func (in *Interp) toString(v value) string {
	var sb strings.Builder
	in.writeValue(&sb, v, 0)
	return sb.String()
}

func (in *Interp) writeValue(sb *strings.Builder, v value, depth int) {
	if depth > 4 {
		sb.WriteString("...")
		return
	}
	switch v := v.(type) {
	case nil:
		sb.WriteString("<nil>")
	case T:
		if v.Op == term.Const {
			if v.W == 0 {
				fmt.Fprintf(sb, "%v", v.Val != 0)
			} else {
				fmt.Fprintf(sb, "%d", v.SVal())
			}
		} else {
			sb.WriteString(v.String())
		}
	case str:
		if s, ok := v.concrete(); ok {
			fmt.Fprintf(sb, "%q", s)
		} else if v.opaque {
			sb.WriteString("<opaque string>")
		} else {
			fmt.Fprintf(sb, "<sym string len %d>", len(v.b))
		}
	case float32, float64:
		fmt.Fprintf(sb, "%v", v)
	case *value:
		if v == nil {
			sb.WriteString("<nil>")
		} else {
			fmt.Fprintf(sb, "&")
			in.writeValue(sb, *v, depth+1)
		}
	case iface:
		if v.t == nil {
			sb.WriteString("<nil iface>")
			return
		}
		fmt.Fprintf(sb, "(%s)(", v.t)
		in.writeValue(sb, v.v, depth+1)
		sb.WriteString(")")
	case structure:
		sb.WriteString("{")
		for i, e := range v {
			if i > 0 {
				sb.WriteString(" ")
			}
			in.writeValue(sb, e, depth+1)
		}
		sb.WriteString("}")
	case array:
		sb.WriteString("[")
		for i, e := range v {
			if i > 0 {
				sb.WriteString(" ")
			}
			in.writeValue(sb, e, depth+1)
		}
		sb.WriteString("]")
	case []value:
		sb.WriteString("[")
		for i, e := range v {
			if i > 0 {
				sb.WriteString(" ")
			}
			if i > 16 {
				sb.WriteString("…")
				break
			}
			in.writeValue(sb, e, depth+1)
		}
		sb.WriteString("]")
	case tuple:
		sb.WriteString("(")
		for i, e := range v {
			if i > 0 {
				sb.WriteString(", ")
			}
			in.writeValue(sb, e, depth+1)
		}
		sb.WriteString(")")
	case *mapObj:
		if v == nil {
			sb.WriteString("map<nil>")
		} else {
			fmt.Fprintf(sb, "map[%d entries]", len(v.entries))
		}
	default:
		fmt.Fprintf(sb, "<%T>", v)
	}
}

// runtimeError builds the value of a runtime panic.
func (in *Interp) runtimeError(msg string) value {
	return iface{t: in.runtimeErrorString, v: in.mkStr(msg)}
}

func (in *Interp) rtPanic(msg string) {
	in.lastPanicSite = in.stackTail(4)
	panic(targetPanic{in.runtimeError(msg)})
}
