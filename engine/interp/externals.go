package interp

import (
	"fmt"
	"go/token"
	"go/types"
	"math"
	"strings"

	"golang.org/x/tools/go/ssa"

	"symgo/term"
)

type externFn func(fr *frame, args []value) value

const martianUtil = "github.com/martian-lang/martian/martian/util."

// findExternal returns the intrinsic or stub for fn, or nil.
func (in *Interp) findExternal(fn *ssa.Function) externFn {
	name := in.fnName(fn)
	if ext, ok := externals[name]; ok {
		return ext
	}
	// verif* API: matched by base name in any package
	if fn.Pkg != nil || fn.Origin() != nil {
		base := fn.Name()
		if i := strings.IndexByte(base, '['); i >= 0 {
			base = base[:i]
		}
		if strings.HasPrefix(base, "verif") {
			if ext, ok := verifAPI[base]; ok {
				return ext
			}
		}
	}
	if strings.HasPrefix(name, martianUtil) {
		base := name[len(martianUtil):]
		if strings.HasPrefix(base, "Log") || strings.HasPrefix(base, "Print") || base == "Println" {
			return func(fr *frame, args []value) value { return nil }
		}
	}
	return nil
}

func (in *Interp) concreteStrArg(v value, what string) string {
	s, ok := v.(str)
	if !ok {
		unsupported("%s: not a string (%T)", what, v)
	}
	cs, ok := s.concrete()
	if !ok {
		unsupported("%s: string must be concrete", what)
	}
	return cs
}

func bytesOf(v value) []T {
	switch v := v.(type) {
	case str:
		if v.opaque {
			unsupported("inspection of an opaque string")
		}
		return v.b
	case []value:
		b := make([]T, len(v))
		for i := range v {
			b[i] = v[i].(T)
		}
		return b
	}
	panic(fmt.Sprintf("bytesOf: %T", v))
}

// indexByte returns the index term of the first occurrence of c in b, or -1.
func (in *Interp) indexByte(b []T, c T) T {
	res := in.int64v(-1)
	for i := len(b) - 1; i >= 0; i-- {
		res = in.tb.Ite(in.tb.Bin(term.Eq, b[i], c), in.int64v(int64(i)), res)
	}
	return res
}

func (in *Interp) bytesEqual(a, b []T) T {
	if len(a) != len(b) {
		return in.tb.False
	}
	r := in.tb.True
	for i := range a {
		r = in.tb.AndB(r, in.tb.Bin(term.Eq, a[i], b[i]))
	}
	return r
}

// indexSub: first index of sep in s (forking per position when symbolic).
func (in *Interp) indexSub(s, sep []T) T {
	n, m := len(s), len(sep)
	if m == 0 {
		return in.int64v(0)
	}
	res := in.int64v(-1)
	for i := n - m; i >= 0; i-- {
		res = in.tb.Ite(in.bytesEqual(s[i:i+m], sep), in.int64v(int64(i)), res)
	}
	return res
}

func (in *Interp) cellOfField(p value, field int) *value {
	ptr := p.(*value)
	if ptr == nil {
		in.rtPanic("invalid memory address or nil pointer dereference")
	}
	return &(*ptr).(structure)[field]
}

var externals map[string]externFn
var verifAPI map[string]externFn

func noop(fr *frame, args []value) value { return nil }

func init() {
	externals = map[string]externFn{
		// ---- internal/bytealg
		"internal/bytealg.IndexByte": func(fr *frame, a []value) value {
			return fr.in.indexByte(bytesOf(a[0]), a[1].(T))
		},
		"internal/bytealg.IndexByteString": func(fr *frame, a []value) value {
			return fr.in.indexByte(bytesOf(a[0]), a[1].(T))
		},
		"internal/bytealg.Equal": func(fr *frame, a []value) value {
			return fr.in.bytesEqual(bytesOf(a[0]), bytesOf(a[1]))
		},
		"internal/bytealg.Index": func(fr *frame, a []value) value {
			return fr.in.indexSub(bytesOf(a[0]), bytesOf(a[1]))
		},
		"internal/bytealg.IndexString": func(fr *frame, a []value) value {
			return fr.in.indexSub(bytesOf(a[0]), bytesOf(a[1]))
		},
		"internal/bytealg.Count": func(fr *frame, a []value) value {
			in := fr.in
			n := in.int64v(0)
			for _, b := range bytesOf(a[0]) {
				n = in.tb.Bin(term.Add, n, in.tb.Ite(in.tb.Bin(term.Eq, b, a[1].(T)), in.int64v(1), in.int64v(0)))
			}
			return n
		},
		"internal/bytealg.CountString": func(fr *frame, a []value) value {
			in := fr.in
			n := in.int64v(0)
			for _, b := range bytesOf(a[0]) {
				n = in.tb.Bin(term.Add, n, in.tb.Ite(in.tb.Bin(term.Eq, b, a[1].(T)), in.int64v(1), in.int64v(0)))
			}
			return n
		},
		"internal/bytealg.Compare": func(fr *frame, a []value) value {
			in := fr.in
			x, y := str{b: bytesOf(a[0])}, str{b: bytesOf(a[1])}
			lt := in.strLess(x, y)
			gt := in.strLess(y, x)
			return in.tb.Ite(lt, in.int64v(-1), in.tb.Ite(gt, in.int64v(1), in.int64v(0)))
		},
		"internal/bytealg.MakeNoZero": func(fr *frame, a []value) value {
			n := fr.in.concretiseInt(a[0], "MakeNoZero")
			s := make([]value, n)
			for i := range s {
				s[i] = fr.in.tb.BV(8, 0)
			}
			return s
		},
		"internal/stringslite.Index": func(fr *frame, a []value) value {
			return fr.in.indexSub(bytesOf(a[0]), bytesOf(a[1]))
		},
		"strings.Index": func(fr *frame, a []value) value {
			return fr.in.indexSub(bytesOf(a[0]), bytesOf(a[1]))
		},
		"bytes.Index": func(fr *frame, a []value) value {
			return fr.in.indexSub(bytesOf(a[0]), bytesOf(a[1]))
		},
		"strings.HasPrefix": func(fr *frame, a []value) value {
			s, p := bytesOf(a[0]), bytesOf(a[1])
			if len(s) < len(p) {
				return fr.in.tb.False
			}
			return fr.in.bytesEqual(s[:len(p)], p)
		},
		"strings.HasSuffix": func(fr *frame, a []value) value {
			s, p := bytesOf(a[0]), bytesOf(a[1])
			if len(s) < len(p) {
				return fr.in.tb.False
			}
			return fr.in.bytesEqual(s[len(s)-len(p):], p)
		},
		"internal/stringslite.HasPrefix": func(fr *frame, a []value) value {
			s, p := bytesOf(a[0]), bytesOf(a[1])
			if len(s) < len(p) {
				return fr.in.tb.False
			}
			return fr.in.bytesEqual(s[:len(p)], p)
		},
		"internal/stringslite.HasSuffix": func(fr *frame, a []value) value {
			s, p := bytesOf(a[0]), bytesOf(a[1])
			if len(s) < len(p) {
				return fr.in.tb.False
			}
			return fr.in.bytesEqual(s[len(s)-len(p):], p)
		},
		"bytes.Equal": func(fr *frame, a []value) value {
			return fr.in.bytesEqual(bytesOf(a[0]), bytesOf(a[1]))
		},
		"bytes.HasPrefix": func(fr *frame, a []value) value {
			s, p := bytesOf(a[0]), bytesOf(a[1])
			if len(s) < len(p) {
				return fr.in.tb.False
			}
			return fr.in.bytesEqual(s[:len(p)], p)
		},

		"internal/stringslite.Clone": func(fr *frame, a []value) value { return a[0] },
		"strings.Clone":              func(fr *frame, a []value) value { return a[0] },
		// ---- strings.Builder
		"(*strings.Builder).copyCheck": noop,

		// ---- sync
		"(*sync.Mutex).Lock":      mutexLock,
		"(*sync.Mutex).Unlock":    mutexUnlock,
		"(*sync.Mutex).TryLock":   mutexTryLock,
		"(*sync.RWMutex).Lock":    rwLock,
		"(*sync.RWMutex).Unlock":  rwUnlock,
		"(*sync.RWMutex).RLock":   rwRLock,
		"(*sync.RWMutex).RUnlock": rwRUnlock,
		"(*sync.WaitGroup).Add":   noop,
		"(*sync.WaitGroup).Done":  noop,
		"(*sync.WaitGroup).Wait":  noop,
		"(*sync.Cond).Signal": func(fr *frame, a []value) value {
			if fr.in.path != nil {
				fr.in.path.condSignals++
			}
			return nil
		},
		"(*sync.Cond).Broadcast": func(fr *frame, a []value) value {
			if fr.in.path != nil {
				fr.in.path.condSignals++
				fr.in.path.condBroadcasts++
			}
			return nil
		},
		"(*sync.Cond).Wait":       condWait,
		"sync.NewCond": func(fr *frame, a []value) value {
			// struct layout: noCopy, L, notify, checker; only L matters
			in := fr.in
			fn := fr.fn
			ct := deref(fn.Signature.Results().At(0).Type())
			cell := new(value)
			*cell = in.zero(ct)
			st := ct.Underlying().(*types.Struct)
			for i := 0; i < st.NumFields(); i++ {
				if st.Field(i).Name() == "L" {
					(*cell).(structure)[i] = a[0]
				}
			}
			return cell
		},
		"(*sync.Once).doSlow": nil, // real SSA (mutex + atomic intrinsics)
		"(*sync.Pool).Get": func(fr *frame, a []value) value {
			// always miss: call New if set
			in := fr.in
			ptr := a[0].(*value)
			st := (*ptr).(structure)
			pt := deref(fr.fn.Signature.Recv().Type()).Underlying().(*types.Struct)
			for i := 0; i < pt.NumFields(); i++ {
				if pt.Field(i).Name() == "New" {
					if !funcIsNil(st[i]) {
						return in.call(fr, token.NoPos, st[i], nil)
					}
				}
			}
			return iface{}
		},
		"(*sync.Pool).Put": noop,

		// ---- sync/atomic
		"sync/atomic.LoadInt32":             atomicLoad,
		"sync/atomic.LoadInt64":             atomicLoad,
		"sync/atomic.LoadUint32":            atomicLoad,
		"sync/atomic.LoadUint64":            atomicLoad,
		"sync/atomic.LoadUintptr":           atomicLoad,
		"sync/atomic.LoadPointer":           atomicLoad,
		"sync/atomic.StoreInt32":            atomicStore,
		"sync/atomic.StoreInt64":            atomicStore,
		"sync/atomic.StoreUint32":           atomicStore,
		"sync/atomic.StoreUint64":           atomicStore,
		"sync/atomic.StoreUintptr":          atomicStore,
		"sync/atomic.StorePointer":          atomicStore,
		"sync/atomic.AddInt32":              atomicAdd,
		"sync/atomic.AddInt64":              atomicAdd,
		"sync/atomic.AddUint32":             atomicAdd,
		"sync/atomic.AddUint64":             atomicAdd,
		"sync/atomic.AddUintptr":            atomicAdd,
		"sync/atomic.SwapInt32":             atomicSwap,
		"sync/atomic.SwapInt64":             atomicSwap,
		"sync/atomic.SwapUint32":            atomicSwap,
		"sync/atomic.SwapUint64":            atomicSwap,
		"sync/atomic.SwapPointer":           atomicSwap,
		"sync/atomic.CompareAndSwapInt32":   atomicCAS,
		"sync/atomic.CompareAndSwapInt64":   atomicCAS,
		"sync/atomic.CompareAndSwapUint32":  atomicCAS,
		"sync/atomic.CompareAndSwapUint64":  atomicCAS,
		"sync/atomic.CompareAndSwapUintptr": atomicCAS,
		"sync/atomic.CompareAndSwapPointer": atomicCAS,

		// ---- runtime
		"runtime.GC":           noop,
		"runtime.Gosched":      noop,
		"runtime.KeepAlive":    noop,
		"runtime.SetFinalizer": noop,
		"runtime.GOMAXPROCS":   func(fr *frame, a []value) value { return fr.in.int64v(16) },
		"runtime.NumCPU":       func(fr *frame, a []value) value { return fr.in.int64v(16) },
		"internal/godebug.New": func(fr *frame, a []value) value {
			return poison{"internal/godebug.New"}
		},
		"(*internal/godebug.Setting).Value":         func(fr *frame, a []value) value { return str{} },
		"(*internal/godebug.Setting).IncNonDefault": noop,

		// ---- math
		"math.Float64bits": func(fr *frame, a []value) value {
			return fr.in.tb.BV(64, math.Float64bits(a[0].(float64)))
		},
		"math.Float64frombits": func(fr *frame, a []value) value {
			t := a[0].(T)
			if t.Op != term.Const {
				unsupported("math.Float64frombits of a symbolic value")
			}
			return math.Float64frombits(t.Val)
		},
		"math.Float32bits": func(fr *frame, a []value) value {
			return fr.in.tb.BV(32, uint64(math.Float32bits(a[0].(float32))))
		},
		"math.Float32frombits": func(fr *frame, a []value) value {
			t := a[0].(T)
			if t.Op != term.Const {
				unsupported("math.Float32frombits of a symbolic value")
			}
			return math.Float32frombits(uint32(t.Val))
		},
		"math.Floor": func(fr *frame, a []value) value { return math.Floor(a[0].(float64)) },
		"math.Ceil":  func(fr *frame, a []value) value { return math.Ceil(a[0].(float64)) },
		"math.Trunc": func(fr *frame, a []value) value { return math.Trunc(a[0].(float64)) },
		"math.Sqrt":  func(fr *frame, a []value) value { return math.Sqrt(a[0].(float64)) },
		"math.Abs":   func(fr *frame, a []value) value { return math.Abs(a[0].(float64)) },
		"math.Log":   func(fr *frame, a []value) value { return math.Log(a[0].(float64)) },
		"math.Log2":  func(fr *frame, a []value) value { return math.Log2(a[0].(float64)) },
		"math.Log10": func(fr *frame, a []value) value { return math.Log10(a[0].(float64)) },
		"math.Exp":   func(fr *frame, a []value) value { return math.Exp(a[0].(float64)) },
		"math.Pow":   func(fr *frame, a []value) value { return math.Pow(a[0].(float64), a[1].(float64)) },
		"math.Mod":   func(fr *frame, a []value) value { return math.Mod(a[0].(float64), a[1].(float64)) },
		"math.Round": func(fr *frame, a []value) value { return math.Round(a[0].(float64)) },
		"math.IsNaN": func(fr *frame, a []value) value { return fr.in.tb.Bool(math.IsNaN(a[0].(float64))) },
		"math.IsInf": func(fr *frame, a []value) value {
			s, _ := asConstInt(a[1])
			return fr.in.tb.Bool(math.IsInf(a[0].(float64), int(s)))
		},
		"math.Inf": func(fr *frame, a []value) value {
			s, _ := asConstInt(a[0])
			return math.Inf(int(s))
		},
		"math.NaN": func(fr *frame, a []value) value { return math.NaN() },
		"math.Max": func(fr *frame, a []value) value { return math.Max(a[0].(float64), a[1].(float64)) },
		"math.Min": func(fr *frame, a []value) value { return math.Min(a[0].(float64), a[1].(float64)) },

		// ---- strconv: numeric value of a symbolic mantissa is cut to an opaque float
		"strconv.atof64exact":   atofCut,
		"strconv.atof32exact":   atofCut,
		"strconv.eiselLemire64": atofCut,
		"strconv.eiselLemire32": atofCut,

		// ---- time: the clock is not part of any claim; a fixed instant
		"time.Now": func(fr *frame, a []value) value {
			return fr.in.zero(fr.fn.Signature.Results().At(0).Type())
		},
		"time.Since":   func(fr *frame, a []value) value { return fr.in.int64v(0) },
		"time.Until":   func(fr *frame, a []value) value { return fr.in.int64v(0) },
		"os.Getenv":    func(fr *frame, a []value) value { return str{} },
		"os.LookupEnv": func(fr *frame, a []value) value { return tuple{str{}, fr.in.tb.False} },

		// ---- os: a few harmless ones
		"os.Getpid":            func(fr *frame, a []value) value { return fr.in.int64v(4242) },
		"os.runtime_args":      func(fr *frame, a []value) value { return []value{} },
		"syscall.runtime_envs": func(fr *frame, a []value) value { return []value{} },
	}
	for k, v := range externals {
		if v == nil {
			delete(externals, k)
		}
	}
	initFmtExternals()
	initSortExternals()
	initRegexExternals()
	initReplacerExternals()
	initVerifAPI()
	initErrorsExternals()
}

// ---------------------------------------------------------------------
// ghost locks: the mutex state lives in the first int field of the struct.

func mutexState(fr *frame, p value) *value {
	ptr, ok := p.(*value)
	if !ok || ptr == nil {
		fr.in.rtPanic("invalid memory address or nil pointer dereference (mutex)")
	}
	st := (*ptr).(structure)
	// sync.Mutex{state int32, sema uint32}
	return &st[0]
}

func mutexLock(fr *frame, a []value) value {
	in := fr.in
	c := mutexState(fr, a[0])
	if v, _ := asConstInt(*c); v != 0 {
		panic(blockedPanic{"sync.Mutex.Lock on a mutex that is already held (self-deadlock)"})
	}
	in.setCell(c, in.tb.BV(32, 1))
	if in.path != nil {
		in.path.lockEvents++
	}
	return nil
}

func mutexUnlock(fr *frame, a []value) value {
	in := fr.in
	c := mutexState(fr, a[0])
	if v, _ := asConstInt(*c); v == 0 {
		in.fatal("sync: unlock of unlocked mutex")
	}
	in.setCell(c, in.tb.BV(32, 0))
	return nil
}

func mutexTryLock(fr *frame, a []value) value {
	in := fr.in
	c := mutexState(fr, a[0])
	if v, _ := asConstInt(*c); v != 0 {
		return in.tb.False
	}
	in.setCell(c, in.tb.BV(32, 1))
	return in.tb.True
}

// RWMutex{w Mutex, writerSem, readerSem uint32, readerCount, readerWait atomic.Int32}
// ghost: w.state = writer held; readerSem cell (index 2) = reader count.
func rwCells(fr *frame, p value) (w *value, r *value) {
	ptr, ok := p.(*value)
	if !ok || ptr == nil {
		fr.in.rtPanic("invalid memory address or nil pointer dereference (rwmutex)")
	}
	st := (*ptr).(structure)
	return &st[0].(structure)[0], &st[2]
}

func rwLock(fr *frame, a []value) value {
	in := fr.in
	w, r := rwCells(fr, a[0])
	if v, _ := asConstInt(*w); v != 0 {
		panic(blockedPanic{"sync.RWMutex.Lock while write-held (self-deadlock)"})
	}
	if v, _ := asConstInt(*r); v != 0 {
		panic(blockedPanic{"sync.RWMutex.Lock while read-held (self-deadlock)"})
	}
	in.setCell(w, in.tb.BV(32, 1))
	if in.path != nil {
		in.path.lockEvents++
	}
	return nil
}

func rwUnlock(fr *frame, a []value) value {
	in := fr.in
	w, _ := rwCells(fr, a[0])
	if v, _ := asConstInt(*w); v == 0 {
		in.fatal("sync: Unlock of unlocked RWMutex")
	}
	in.setCell(w, in.tb.BV(32, 0))
	return nil
}

func rwRLock(fr *frame, a []value) value {
	in := fr.in
	w, r := rwCells(fr, a[0])
	if v, _ := asConstInt(*w); v != 0 {
		panic(blockedPanic{"sync.RWMutex.RLock while write-held (self-deadlock)"})
	}
	v, _ := asConstInt(*r)
	in.setCell(r, in.tb.BV(32, uint64(v+1)))
	return nil
}

func rwRUnlock(fr *frame, a []value) value {
	in := fr.in
	_, r := rwCells(fr, a[0])
	v, _ := asConstInt(*r)
	if v == 0 {
		in.fatal("sync: RUnlock of unlocked RWMutex")
	}
	in.setCell(r, in.tb.BV(32, uint64(v-1)))
	return nil
}

// fatal models an unrecoverable runtime fatal error: recorded as a panic
// violation that recover() cannot intercept.
func (in *Interp) fatal(msg string) {
	panic(fatalError{msg})
}

type fatalError struct{ msg string }

// condWait: release the lock, let the harness-registered hook havoc the
// protected state, re-acquire.
func condWait(fr *frame, a []value) value {
	in := fr.in
	ptr := a[0].(*value)
	st := (*ptr).(structure)
	ct := deref(fr.fn.Signature.Recv().Type()).Underlying().(*types.Struct)
	var L value
	for i := 0; i < ct.NumFields(); i++ {
		if ct.Field(i).Name() == "L" {
			L = st[i]
		}
	}
	li, ok := L.(iface)
	if !ok || li.t == nil {
		in.rtPanic("sync.Cond.Wait with nil Locker")
	}
	unlock := in.findMethod(li.t, "Unlock")
	lock := in.findMethod(li.t, "Lock")
	in.call(fr, token.NoPos, unlock, []value{li.v})
	p := in.path
	if p == nil || p.condWaitHook == nil {
		panic(blockedPanic{"sync.Cond.Wait with no registered wake-up hook"})
	}
	p.condWaits++
	in.call(fr, token.NoPos, p.condWaitHook, nil)
	in.call(fr, token.NoPos, lock, []value{li.v})
	return nil
}

func atomicLoad(fr *frame, a []value) value {
	return fr.in.loadPtr(deref(fr.fn.Signature.Params().At(0).Type()), a[0])
}

func atomicStore(fr *frame, a []value) value {
	fr.in.storePtr(deref(fr.fn.Signature.Params().At(0).Type()), a[0], a[1])
	return nil
}

func atomicAdd(fr *frame, a []value) value {
	in := fr.in
	t := deref(fr.fn.Signature.Params().At(0).Type())
	old := in.loadPtr(t, a[0]).(T)
	nv := in.tb.Bin(term.Add, old, a[1].(T))
	in.storePtr(t, a[0], nv)
	return nv
}

func atomicSwap(fr *frame, a []value) value {
	in := fr.in
	t := deref(fr.fn.Signature.Params().At(0).Type())
	old := in.loadPtr(t, a[0])
	in.storePtr(t, a[0], a[1])
	return old
}

func atomicCAS(fr *frame, a []value) value {
	in := fr.in
	t := deref(fr.fn.Signature.Params().At(0).Type())
	old := in.loadPtr(t, a[0])
	eq := in.equals(t, old, a[1])
	if in.decide(eq) {
		in.storePtr(t, a[0], a[2])
		return in.tb.True
	}
	return in.tb.False
}

func atofCut(fr *frame, a []value) value {
	m, ok := a[0].(T)
	e, ok2 := a[1].(T)
	if ok && ok2 && m.Op == term.Const && e.Op == term.Const {
		return fallThrough{}
	}
	if fr.in.path != nil {
		fr.in.path.cuts["strconv float conversion of a symbolic mantissa/exponent -> opaque finite value (range errors not modelled)"]++
	}
	return tuple{symFloat{}, fr.in.tb.True}
}
