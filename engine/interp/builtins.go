package interp

import (
	"fmt"
	"go/token"
	"go/types"
	"os"

	"golang.org/x/tools/go/ssa"

	"symgo/term"
)

func (in *Interp) callBuiltin(caller *frame, callpos token.Pos, fn *ssa.Builtin, args []value) value {
	tb := in.tb
	switch fn.Name() {
	case "append":
		if len(args) == 1 {
			return args[0]
		}
		dst := args[0].([]value)
		var src []value
		switch s := args[1].(type) {
		case str:
			in.checkOpaque(s)
			src = make([]value, len(s.b))
			for i, b := range s.b {
				src[i] = b
			}
		case []value:
			src = s
		default:
			panic(fmt.Sprintf("append: %T", args[1]))
		}
		if len(src) == 0 {
			return dst
		}
		elemT := fn.Type().(*types.Signature).Params().At(0).Type().Underlying().(*types.Slice).Elem()
		n := len(dst)
		if n+len(src) <= cap(dst) {
			res := dst[:n+len(src)]
			for i, v := range src {
				in.setCell(&res[n+i], in.copyVal(elemT, v))
			}
			return res
		}
		// grow like the gc runtime for small sizes: doubling
		newcap := cap(dst) * 2
		if newcap < n+len(src) {
			newcap = n + len(src)
		}
		res := make([]value, n+len(src), newcap)
		for i := 0; i < n; i++ {
			res[i] = in.copyVal(elemT, dst[i])
		}
		for i, v := range src {
			res[n+i] = in.copyVal(elemT, v)
		}
		full := res[:newcap]
		for i := n + len(src); i < newcap; i++ {
			full[i] = in.zero(elemT)
		}
		return res

	case "copy":
		dst := args[0].([]value)
		var src []value
		switch s := args[1].(type) {
		case str:
			in.checkOpaque(s)
			src = make([]value, len(s.b))
			for i, b := range s.b {
				src[i] = b
			}
		case []value:
			src = s
		}
		n := len(dst)
		if len(src) < n {
			n = len(src)
		}
		elemT := fn.Type().(*types.Signature).Params().At(0).Type().Underlying().(*types.Slice).Elem()
		// handle overlap: copy via temp
		tmp := make([]value, n)
		for i := 0; i < n; i++ {
			tmp[i] = in.copyVal(elemT, src[i])
		}
		for i := 0; i < n; i++ {
			in.setCell(&dst[i], tmp[i])
		}
		return in.int64v(int64(n))

	case "close":
		in.chanClose(args[0].(*chanObj))
		return nil

	case "delete":
		in.mapDelete(args[0].(*mapObj), args[1])
		return nil

	case "clear":
		switch x := args[0].(type) {
		case *mapObj:
			if x != nil {
				for _, e := range x.entries {
					if !e.deleted {
						in.mapDeleteEntry(x, e)
					}
				}
			}
		case []value:
			elemT := fn.Type().(*types.Signature).Params().At(0).Type().Underlying().(*types.Slice).Elem()
			for i := range x {
				in.setCell(&x[i], in.zero(elemT))
			}
		}
		return nil

	case "print", "println":
		for i, arg := range args {
			if i > 0 {
				fmt.Fprint(os.Stderr, " ")
			}
			fmt.Fprint(os.Stderr, in.toString(arg))
		}
		if fn.Name() == "println" {
			fmt.Fprintln(os.Stderr)
		}
		return nil

	case "len":
		switch x := args[0].(type) {
		case str:
			in.checkOpaque(x)
			return in.int64v(int64(len(x.b)))
		case array:
			return in.int64v(int64(len(x)))
		case *value:
			return in.int64v(int64(len((*x).(array))))
		case []value:
			return in.int64v(int64(len(x)))
		case *mapObj:
			return in.mapLen(x)
		case *chanObj:
			if x == nil {
				return in.int64v(0)
			}
			return in.int64v(int64(len(x.buf)))
		case poison:
			unsupported("use of poison value: %s", x.why)
		}
		panic(fmt.Sprintf("len: illegal operand: %T", args[0]))

	case "cap":
		switch x := args[0].(type) {
		case array:
			return in.int64v(int64(len(x)))
		case *value:
			return in.int64v(int64(len((*x).(array))))
		case []value:
			return in.int64v(int64(cap(x)))
		case *chanObj:
			if x == nil {
				return in.int64v(0)
			}
			return in.int64v(int64(x.cap))
		}
		panic(fmt.Sprintf("cap: illegal operand: %T", args[0]))

	case "min", "max":
		t := fn.Type().(*types.Signature).Params().At(0).Type()
		x := args[0]
		for _, y := range args[1:] {
			var c T
			if fn.Name() == "min" {
				c = in.binop(token.LSS, t, y, x).(T)
			} else {
				c = in.binop(token.GTR, t, y, x).(T)
			}
			switch xv := x.(type) {
			case T:
				x = tb.Ite(c, y.(T), xv)
			default:
				if in.decide(c) {
					x = y
				}
			}
		}
		return x

	case "panic":
		panic(targetPanic{args[0]})

	case "recover":
		return in.doRecover(caller)

	case "ssa:wrapnilchk":
		recv := args[0]
		if p, ok := recv.(*value); ok && p == nil {
			in.rtPanic("value method called using nil pointer")
		}
		return recv

	case "ssa:deferstack":
		return &caller.defers

	// package unsafe
	case "SliceData":
		return sliceData{s: args[0].([]value)}
	case "StringData":
		s := args[0].(str)
		return sliceData{st: &s}
	case "String":
		sd, ok := args[0].(sliceData)
		if !ok {
			unsupported("unsafe.String on %T in %s", args[0], caller.fn)
		}
		n := in.concretiseInt(args[1], "unsafe.String len")
		if sd.st != nil {
			return str{b: sd.st.b[:n]}
		}
		b := make([]T, n)
		for i := 0; i < int(n); i++ {
			b[i] = sd.s[i].(T)
		}
		return str{b: b}
	case "Slice":
		sd, ok := args[0].(sliceData)
		if !ok {
			unsupported("unsafe.Slice on %T in %s", args[0], caller.fn)
		}
		n := in.concretiseInt(args[1], "unsafe.Slice len")
		if sd.st != nil {
			res := make([]value, n)
			for i := range res {
				res[i] = sd.st.b[i]
			}
			return res
		}
		return sd.s[:n:n]
	case "Sizeof", "Alignof", "Offsetof", "Add":
		unsupported("unsafe.%s", fn.Name())
	}
	panic("unknown built-in: " + fn.Name())
}

func (in *Interp) mapDeleteEntry(m *mapObj, e *mapEntry) {
	in.mapDelete(m, e.key)
}

// concretiseInt returns a concrete int64 for an integer value, forking over
// feasible values if it is symbolic.
func (in *Interp) concretiseInt(v value, what string) int64 {
	if v == nil {
		return 0
	}
	t := v.(T)
	if t.Op == term.Const {
		return t.SVal()
	}
	if t.W != 64 {
		t = in.tb.SExtTo(t, 64)
	}
	return in.concretise(t)
}
