// Package smt drives SMT solvers over pipes (SMT-LIB2 text).
package smt

import (
	"bufio"
	"bytes"
	"fmt"
	"io"
	"os"
	"os/exec"
	"strconv"
	"strings"
	"time"

	"symgo/term"
)

type Result int

const (
	Unknown Result = iota
	Sat
	Unsat
)

func (r Result) String() string {
	switch r {
	case Sat:
		return "sat"
	case Unsat:
		return "unsat"
	}
	return "unknown"
}

// Stats are accumulated per solver.
type Stats struct {
	Queries   int
	Sat       int
	Unsat     int
	Unknown   int
	Time      time.Duration
	Restarts  int
	ModelTime time.Duration
}

// Solver is an incremental solver process (z3 -in).  All definitions are
// global (:global-declarations); assertions live inside push/pop scopes.
type Solver struct {
	Name      string
	argv      []string
	cmd       *exec.Cmd
	in        io.WriteCloser
	out       *bufio.Reader
	defined   map[int]bool // term ids defined
	inl       map[int]inlEntry
	declared  map[string]bool
	depth     int
	Stats     Stats
	TimeoutMs int
	Log       io.Writer
	LastErr   string
	asserts   [][]*term.Term // mirror of the assertion stack for restarts
}

func NewZ3(timeoutMs int) (*Solver, error) {
	s := &Solver{Name: "z3", argv: []string{"z3", "-in"}, TimeoutMs: timeoutMs}
	return s, s.start()
}

func (s *Solver) start() error {
	s.cmd = exec.Command(s.argv[0], s.argv[1:]...)
	in, err := s.cmd.StdinPipe()
	if err != nil {
		return err
	}
	out, err := s.cmd.StdoutPipe()
	if err != nil {
		return err
	}
	s.cmd.Stderr = os.Stderr
	if err := s.cmd.Start(); err != nil {
		return err
	}
	s.in = in
	if lf := os.Getenv("SYMGO_SMTLOG"); lf != "" {
		f, _ := os.Create(fmt.Sprintf("%s.%d", lf, s.cmd.Process.Pid))
		s.Log = f
	}
	s.out = bufio.NewReaderSize(out, 1<<16)
	s.defined = make(map[int]bool)
	s.inl = make(map[int]inlEntry)
	s.declared = make(map[string]bool)
	s.depth = 0
	s.send("(set-option :global-declarations true)\n(set-option :produce-models true)\n")
	if s.TimeoutMs > 0 {
		s.send(fmt.Sprintf("(set-option :timeout %d)\n", s.TimeoutMs))
	}
	return nil
}

func (s *Solver) Close() {
	if s.cmd != nil {
		s.in.Close()
		s.cmd.Process.Kill()
		s.cmd.Wait()
		s.cmd = nil
	}
}

// Restart kills the solver and replays the assertion stack.
func (s *Solver) Restart() error {
	s.Close()
	s.Stats.Restarts++
	if err := s.start(); err != nil {
		return err
	}
	st := s.asserts
	s.asserts = nil
	for i, lvl := range st {
		if i > 0 {
			s.Push()
		} else {
			s.asserts = append(s.asserts, nil)
		}
		for _, a := range lvl {
			s.Assert(a)
		}
	}
	return nil
}

func (s *Solver) send(txt string) {
	if s.Log != nil {
		io.WriteString(s.Log, txt)
	}
	io.WriteString(s.in, txt)
}

// inlineLimit is the node count above which a term gets its own define-fun;
// smaller terms are printed inline.  (Every define-fun makes z3's model
// construction for get-value slower, so definitions are kept few.)
const inlineLimit = 24

// define makes sure t can be referenced; returns its reference text.
func (s *Solver) define(t *term.Term) { s.ref(t) }

func (s *Solver) ref(t *term.Term) string {
	txt, _ := s.refSize(t)
	return txt
}

func (s *Solver) refSize(t *term.Term) (string, int) {
	switch t.Op {
	case term.Const:
		return term.Ref(t), 1
	case term.Var:
		if !s.declared[t.Name] {
			s.declared[t.Name] = true
			s.send(fmt.Sprintf("(declare-const %s %s)\n", term.VarSym(t.Name), term.SortOf(t)))
		}
		return term.VarSym(t.Name), 1
	}
	if s.defined[t.ID] {
		return fmt.Sprintf("t%d", t.ID), 1
	}
	if e, ok := s.inl[t.ID]; ok {
		return e.txt, e.size
	}
	var refs [3]string
	size := 1
	for i, c := range t.A {
		if c == nil {
			break
		}
		r, n := s.refSize(c)
		refs[i] = r
		size += n
	}
	txt := term.BodyWith(t, refs)
	if size > inlineLimit {
		s.defined[t.ID] = true
		s.send(fmt.Sprintf("(define-fun t%d () %s %s)\n", t.ID, term.SortOf(t), txt))
		return fmt.Sprintf("t%d", t.ID), 1
	}
	if s.inl == nil {
		s.inl = make(map[int]inlEntry)
	}
	s.inl[t.ID] = inlEntry{txt, size}
	return txt, size
}

type inlEntry struct {
	txt  string
	size int
}

func (s *Solver) Push() {
	s.send("(push 1)\n")
	s.depth++
	s.asserts = append(s.asserts, nil)
}

func (s *Solver) Pop() {
	if s.depth == 0 {
		return
	}
	s.send("(pop 1)\n")
	s.depth--
	s.asserts = s.asserts[:len(s.asserts)-1]
}

func (s *Solver) Depth() int { return s.depth }

func (s *Solver) Assert(t *term.Term) {
	if len(s.asserts) == 0 {
		s.asserts = append(s.asserts, nil)
	}
	s.asserts[len(s.asserts)-1] = append(s.asserts[len(s.asserts)-1], t)
	s.send(fmt.Sprintf("(assert %s)\n", s.ref(t)))
}

func (s *Solver) readLine() (string, error) {
	line, err := s.out.ReadString('\n')
	return strings.TrimSpace(line), err
}

// Check runs check-sat under the current assertions plus the given
// assumption terms (each a Bool term).
func (s *Solver) Check(assume ...*term.Term) Result {
	start := time.Now()
	var sb strings.Builder
	if len(assume) == 0 {
		sb.WriteString("(check-sat)\n")
	} else {
		var refs []string
		for _, a := range assume {
			refs = append(refs, s.ref(a))
		}
		sb.WriteString("(check-sat-assuming (")
		for _, r := range refs {
			sb.WriteString(r)
			sb.WriteByte(' ')
		}
		sb.WriteString("))\n")
	}
	s.send(sb.String())
	res := Unknown
	for {
		line, err := s.readLine()
		if err != nil {
			s.LastErr = "solver died: " + err.Error()
			s.Stats.Unknown++
			s.Stats.Queries++
			s.Stats.Time += time.Since(start)
			s.Restart()
			return Unknown
		}
		if line == "" {
			continue
		}
		switch {
		case line == "sat":
			res = Sat
		case line == "unsat":
			res = Unsat
		case line == "unknown" || line == "timeout":
			res = Unknown
		case strings.HasPrefix(line, "(error"):
			s.LastErr = line
			// an error line precedes the verdict or replaces it; treat as unknown
			// and resynchronise with an echo marker
			s.sync()
			s.Stats.Unknown++
			s.Stats.Queries++
			s.Stats.Time += time.Since(start)
			return Unknown
		default:
			continue
		}
		break
	}
	s.Stats.Queries++
	s.Stats.Time += time.Since(start)
	if os.Getenv("SYMGO_SMTTIME") != "" {
		fmt.Fprintf(os.Stderr, "smt %s %v assume=%d\n", res, time.Since(start), len(assume))
	}
	switch res {
	case Sat:
		s.Stats.Sat++
	case Unsat:
		s.Stats.Unsat++
	default:
		s.Stats.Unknown++
	}
	return res
}

var syncCtr int

func (s *Solver) sync() {
	syncCtr++
	marker := fmt.Sprintf("sync-%d", syncCtr)
	s.send(fmt.Sprintf("(echo \"%s\")\n", marker))
	for {
		line, err := s.readLine()
		if err != nil {
			return
		}
		if strings.Contains(line, marker) {
			return
		}
	}
}

// Model returns values of the given variables after a Sat answer.
func (s *Solver) Model(vars []*term.Term) (term.Env, error) {
	t0 := time.Now()
	defer func() { s.Stats.ModelTime += time.Since(t0) }()
	env := term.Env{}
	if len(vars) == 0 {
		return env, nil
	}
	const chunk = 400
	for start := 0; start < len(vars); start += chunk {
		end := start + chunk
		if end > len(vars) {
			end = len(vars)
		}
		var sb strings.Builder
		sb.WriteString("(get-value (")
		for _, v := range vars[start:end] {
			s.define(v)
			sb.WriteString(term.VarSym(v.Name))
			sb.WriteByte(' ')
		}
		sb.WriteString("))\n")
		s.send(sb.String())
		txt, err := s.readSexp()
		if err != nil {
			return nil, err
		}
		if strings.HasPrefix(txt, "(error") {
			s.LastErr = txt
			return nil, fmt.Errorf("get-value: %s", txt)
		}
		vals, err := parseValues(txt)
		if err != nil {
			return nil, err
		}
		if len(vals) != end-start {
			return nil, fmt.Errorf("get-value: expected %d values, got %d in %q", end-start, len(vals), txt)
		}
		for i, v := range vars[start:end] {
			env[v] = vals[i]
		}
	}
	return env, nil
}

// readSexp reads one balanced s-expression (possibly spanning lines).
func (s *Solver) readSexp() (string, error) {
	var sb strings.Builder
	depth := 0
	started := false
	inBar := false
	inStr := false
	for {
		c, err := s.out.ReadByte()
		if err != nil {
			return sb.String(), err
		}
		if !started && (c == ' ' || c == '\n' || c == '\r' || c == '\t') {
			continue
		}
		sb.WriteByte(c)
		switch {
		case inBar:
			if c == '|' {
				inBar = false
			}
		case inStr:
			if c == '"' {
				inStr = false
			}
		case c == '|':
			inBar = true
		case c == '"':
			inStr = true
		case c == '(':
			depth++
			started = true
		case c == ')':
			depth--
		}
		if started && depth == 0 && !inBar && !inStr {
			return sb.String(), nil
		}
		if !started && c != '(' {
			// atom line
			rest, err := s.out.ReadString('\n')
			return sb.String() + strings.TrimSpace(rest), err
		}
	}
}

// parseValues parses ((sym val) (sym val) ...) returning the values in order.
func parseValues(txt string) ([]uint64, error) {
	var vals []uint64
	i := 0
	n := len(txt)
	skipWS := func() {
		for i < n && (txt[i] == ' ' || txt[i] == '\n' || txt[i] == '\t' || txt[i] == '\r') {
			i++
		}
	}
	skipWS()
	if i >= n || txt[i] != '(' {
		return nil, fmt.Errorf("parseValues: %q", txt)
	}
	i++
	for {
		skipWS()
		if i >= n {
			return nil, fmt.Errorf("parseValues: truncated")
		}
		if txt[i] == ')' {
			return vals, nil
		}
		if txt[i] != '(' {
			return nil, fmt.Errorf("parseValues: expected ( at %d in %q", i, txt)
		}
		i++
		skipWS()
		// symbol
		if txt[i] == '|' {
			i++
			for i < n && txt[i] != '|' {
				i++
			}
			i++
		} else {
			for i < n && txt[i] != ' ' && txt[i] != '\n' {
				i++
			}
		}
		skipWS()
		// value: #x.., #b.., true, false, (_ bvN w)
		st := i
		if txt[i] == '(' {
			d := 0
			for i < n {
				if txt[i] == '(' {
					d++
				} else if txt[i] == ')' {
					d--
					if d == 0 {
						i++
						break
					}
				}
				i++
			}
		} else {
			for i < n && txt[i] != ')' && txt[i] != ' ' && txt[i] != '\n' {
				i++
			}
		}
		tok := txt[st:i]
		v, err := parseLit(tok)
		if err != nil {
			return nil, err
		}
		vals = append(vals, v)
		skipWS()
		if i >= n || txt[i] != ')' {
			return nil, fmt.Errorf("parseValues: expected ) at %d in %q", i, txt)
		}
		i++
	}
}

func parseLit(tok string) (uint64, error) {
	switch {
	case tok == "true":
		return 1, nil
	case tok == "false":
		return 0, nil
	case strings.HasPrefix(tok, "#x"):
		return strconv.ParseUint(tok[2:], 16, 64)
	case strings.HasPrefix(tok, "#b"):
		return strconv.ParseUint(tok[2:], 2, 64)
	case strings.HasPrefix(tok, "(_ bv"):
		f := strings.Fields(tok[5:])
		return strconv.ParseUint(f[0], 10, 64)
	}
	return 0, fmt.Errorf("parseLit: %q", tok)
}

// ---------------------------------------------------------------------
// One-shot solving of a standalone script with an external solver binary.

type OneShot struct {
	Name   string
	Argv   []string
	Header string
}

var (
	Z3Old   = OneShot{"z3-4.8.12", []string{"z3", "-in"}, ""}
	Z3New   = OneShot{"z3-5.1.0", []string{"z3-new", "-in"}, ""}
	CVC5    = OneShot{"cvc5", []string{"cvc5", "--lang=smt2", "--produce-models"}, "(set-logic ALL)\n"}
	CVC5Int = OneShot{"cvc5-bv-as-int", []string{"cvc5", "--lang=smt2", "--produce-models", "--solve-bv-as-int=sum"}, "(set-logic ALL)\n"}
)

// Solve runs the script (assertions already included) with check-sat and
// optional get-value for vars; returns result, model and raw output.
func (o OneShot) Solve(asserts []*term.Term, vars []*term.Term, timeout time.Duration) (Result, term.Env, string, time.Duration) {
	start := time.Now()
	hdr := "(set-option :produce-models true)\n" + o.Header
	script := term.Script(asserts, hdr)
	script += "(check-sat)\n"
	// declare vars not occurring in asserts so that get-value works
	occurring := map[*term.Term]bool{}
	for _, v := range term.VarsOf(asserts) {
		occurring[v] = true
	}
	var gv []*term.Term
	for _, v := range vars {
		if occurring[v] {
			gv = append(gv, v)
		}
	}
	cmd := exec.Command(o.Argv[0], o.Argv[1:]...)
	cmd.Stdin = strings.NewReader(script)
	var out bytes.Buffer
	cmd.Stdout = &out
	cmd.Stderr = &out
	if err := cmd.Start(); err != nil {
		return Unknown, nil, err.Error(), time.Since(start)
	}
	done := make(chan error, 1)
	go func() { done <- cmd.Wait() }()
	select {
	case <-done:
	case <-time.After(timeout):
		cmd.Process.Kill()
		<-done
		return Unknown, nil, "timeout", time.Since(start)
	}
	txt := out.String()
	if strings.Contains(txt, "(error") {
		return Unknown, nil, txt, time.Since(start)
	}
	first := strings.TrimSpace(strings.SplitN(strings.TrimSpace(txt), "\n", 2)[0])
	switch first {
	case "unsat":
		return Unsat, nil, txt, time.Since(start)
	case "sat":
		// second run for the model (keeps the parsing simple): append get-value
		if len(gv) == 0 {
			return Sat, term.Env{}, txt, time.Since(start)
		}
		var sb strings.Builder
		sb.WriteString(script)
		sb.WriteString("(get-value (")
		for _, v := range gv {
			sb.WriteString(term.VarSym(v.Name) + " ")
		}
		sb.WriteString("))\n")
		cmd2 := exec.Command(o.Argv[0], o.Argv[1:]...)
		cmd2.Stdin = strings.NewReader(sb.String())
		var out2 bytes.Buffer
		cmd2.Stdout = &out2
		done2 := make(chan error, 1)
		if err := cmd2.Start(); err != nil {
			return Sat, nil, err.Error(), time.Since(start)
		}
		go func() { done2 <- cmd2.Wait() }()
		select {
		case <-done2:
		case <-time.After(timeout):
			cmd2.Process.Kill()
			<-done2
			return Sat, nil, "timeout(model)", time.Since(start)
		}
		t2 := strings.TrimSpace(out2.String())
		idx := strings.Index(t2, "\n")
		if idx < 0 {
			return Sat, nil, t2, time.Since(start)
		}
		vals, err := parseValues(strings.TrimSpace(t2[idx+1:]))
		if err != nil || len(vals) != len(gv) {
			return Sat, nil, t2, time.Since(start)
		}
		env := term.Env{}
		for i, v := range gv {
			env[v] = vals[i]
		}
		return Sat, env, txt, time.Since(start)
	}
	return Unknown, nil, txt, time.Since(start)
}
