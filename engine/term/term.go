// Package term implements hash-consed bit-vector / boolean terms with
// constant folding, an evaluator and SMT-LIB2 printing.
package term

import (
	"fmt"
	"math/bits"
	"strings"
)

type Op uint8

const (
	Const Op = iota
	Var
	// bit-vector ops
	Add
	Sub
	Mul
	UDiv
	SDiv
	URem
	SRem
	And
	Or
	Xor
	BvNot
	Neg
	Shl
	LShr
	AShr
	Extract // Hi, Lo in Val: hi<<8|lo
	ZExt    // to width W
	SExt
	Concat
	Ite
	// predicates (result Bool, W==0)
	Eq
	ULt
	ULe
	SLt
	SLe
	// boolean ops
	Not
	BAnd
	BOr
)

var opNames = map[Op]string{
	Add: "bvadd", Sub: "bvsub", Mul: "bvmul", UDiv: "bvudiv", SDiv: "bvsdiv", URem: "bvurem", SRem: "bvsrem",
	And: "bvand", Or: "bvor", Xor: "bvxor", BvNot: "bvnot", Neg: "bvneg", Shl: "bvshl", LShr: "bvlshr", AShr: "bvashr",
	Concat: "concat", Ite: "ite", Eq: "=", ULt: "bvult", ULe: "bvule", SLt: "bvslt", SLe: "bvsle",
	Not: "not", BAnd: "and", BOr: "or",
}

// Term is an immutable hash-consed term.  W is the width in bits; W==0 is Bool.
type Term struct {
	Op   Op
	W    uint8
	Val  uint64 // Const value; Extract hi<<8|lo
	Name string // Var
	A    [3]*Term
	ID   int
}

func (t *Term) IsConst() bool { return t.Op == Const }
func (t *Term) IsBool() bool  { return t.W == 0 }
func (t *Term) IsTrue() bool  { return t.Op == Const && t.W == 0 && t.Val == 1 }
func (t *Term) IsFalse() bool { return t.Op == Const && t.W == 0 && t.Val == 0 }

type key struct {
	op      Op
	w       uint8
	val     uint64
	name    string
	a, b, c int
}

// Table owns terms (one per worker; not goroutine safe).
type Table struct {
	m       map[key]*Term
	nextID  int
	Vars    []*Term
	varByNm map[string]*Term
	True    *Term
	False   *Term
	bytes   [256]*Term
	// NoSimp disables non-trivial rewrites (for translator validation)
	NoSimp bool
}

func NewTable() *Table {
	tb := &Table{m: make(map[key]*Term), varByNm: make(map[string]*Term)}
	tb.True = tb.mk(Const, 0, 1, "", nil, nil, nil)
	tb.False = tb.mk(Const, 0, 0, "", nil, nil, nil)
	for i := range tb.bytes {
		tb.bytes[i] = tb.mk(Const, 8, uint64(i), "", nil, nil, nil)
	}
	return tb
}

func (tb *Table) NumTerms() int { return tb.nextID }

func id(t *Term) int {
	if t == nil {
		return -1
	}
	return t.ID
}

func (tb *Table) mk(op Op, w uint8, val uint64, name string, a, b, c *Term) *Term {
	k := key{op, w, val, name, id(a), id(b), id(c)}
	if t, ok := tb.m[k]; ok {
		return t
	}
	t := &Term{Op: op, W: w, Val: val, Name: name, A: [3]*Term{a, b, c}, ID: tb.nextID}
	tb.nextID++
	tb.m[k] = t
	return t
}

func mask(w uint8) uint64 {
	if w >= 64 {
		return ^uint64(0)
	}
	return (uint64(1) << w) - 1
}

func sext(v uint64, w uint8) int64 {
	if w >= 64 {
		return int64(v)
	}
	s := 64 - uint(w)
	return int64(v<<s) >> s
}

func (tb *Table) BV(w uint8, v uint64) *Term {
	v &= mask(w)
	if w == 8 {
		return tb.bytes[v]
	}
	return tb.mk(Const, w, v, "", nil, nil, nil)
}

func (tb *Table) Bool(b bool) *Term {
	if b {
		return tb.True
	}
	return tb.False
}

// NewVar returns the variable with the given name and width (0 = Bool).
func (tb *Table) NewVar(name string, w uint8) *Term {
	if t, ok := tb.varByNm[name]; ok {
		if t.W != w {
			panic(fmt.Sprintf("term: variable %s redeclared with width %d (was %d)", name, w, t.W))
		}
		return t
	}
	t := tb.mk(Var, w, 0, name, nil, nil, nil)
	tb.varByNm[name] = t
	tb.Vars = append(tb.Vars, t)
	return t
}

func (tb *Table) LookupVar(name string) *Term { return tb.varByNm[name] }

// SVal returns the signed value of a constant.
func (t *Term) SVal() int64 { return sext(t.Val, t.W) }

func evalBin(op Op, w uint8, x, y uint64) uint64 {
	m := mask(w)
	switch op {
	case Add:
		return (x + y) & m
	case Sub:
		return (x - y) & m
	case Mul:
		return (x * y) & m
	case UDiv:
		if y == 0 {
			return m
		}
		return x / y
	case URem:
		if y == 0 {
			return x
		}
		return x % y
	case SDiv:
		sx, sy := sext(x, w), sext(y, w)
		if sy == 0 {
			if sx < 0 {
				return 1
			}
			return m
		}
		if sy == -1 {
			return uint64(-sx) & m
		}
		return uint64(sx/sy) & m
	case SRem:
		sx, sy := sext(x, w), sext(y, w)
		if sy == 0 {
			return x
		}
		if sy == -1 {
			return 0
		}
		return uint64(sx%sy) & m
	case And:
		return x & y
	case Or:
		return x | y
	case Xor:
		return x ^ y
	case Shl:
		if y >= uint64(w) {
			return 0
		}
		return (x << y) & m
	case LShr:
		if y >= uint64(w) {
			return 0
		}
		return x >> y
	case AShr:
		sx := sext(x, w)
		if y >= uint64(w) {
			if sx < 0 {
				return m
			}
			return 0
		}
		return uint64(sx>>y) & m
	case Eq:
		return b2u(x == y)
	case ULt:
		return b2u(x < y)
	case ULe:
		return b2u(x <= y)
	case SLt:
		return b2u(sext(x, w) < sext(y, w))
	case SLe:
		return b2u(sext(x, w) <= sext(y, w))
	case BAnd:
		return x & y
	case BOr:
		return x | y
	}
	panic("evalBin: bad op")
}

func b2u(b bool) uint64 {
	if b {
		return 1
	}
	return 0
}

func commutative(op Op) bool {
	switch op {
	case Add, Mul, And, Or, Xor, Eq, BAnd, BOr:
		return true
	}
	return false
}

// Bin builds a binary bit-vector operation or predicate.
func (tb *Table) Bin(op Op, x, y *Term) *Term {
	if x.W != y.W {
		panic(fmt.Sprintf("term: width mismatch %s: %d vs %d", opNames[op], x.W, y.W))
	}
	w := x.W
	rw := w
	switch op {
	case Eq, ULt, ULe, SLt, SLe:
		rw = 0
	}
	if x.Op == Const && y.Op == Const {
		v := evalBin(op, w, x.Val, y.Val)
		if rw == 0 {
			return tb.Bool(v != 0)
		}
		return tb.BV(rw, v)
	}
	if commutative(op) && (x.Op == Const || (y.Op != Const && x.ID > y.ID)) {
		x, y = y, x // constants to the right; canonical order
	}
	// identities
	switch op {
	case Add:
		if y.Op == Const && y.Val == 0 {
			return x
		}
		// (a + c1) + c2
		if y.Op == Const && x.Op == Add && x.A[1].Op == Const {
			return tb.Bin(Add, x.A[0], tb.BV(w, x.A[1].Val+y.Val))
		}
	case Sub:
		if y.Op == Const && y.Val == 0 {
			return x
		}
		if x == y {
			return tb.BV(w, 0)
		}
		if y.Op == Const {
			return tb.Bin(Add, x, tb.BV(w, -y.Val))
		}
	case Mul:
		if y.Op == Const {
			if y.Val == 0 {
				return y
			}
			if y.Val == 1 {
				return x
			}
		}
	case And:
		if y.Op == Const {
			if y.Val == 0 {
				return y
			}
			if y.Val == mask(w) {
				return x
			}
		}
		if x == y {
			return x
		}
	case Or:
		if y.Op == Const {
			if y.Val == 0 {
				return x
			}
			if y.Val == mask(w) {
				return y
			}
		}
		if x == y {
			return x
		}
	case Xor:
		if y.Op == Const && y.Val == 0 {
			return x
		}
		if x == y {
			return tb.BV(w, 0)
		}
	case Shl, LShr, AShr:
		if y.Op == Const && y.Val == 0 {
			return x
		}
		if x.Op == Const && x.Val == 0 {
			return x
		}
		if y.Op == Const && y.Val >= uint64(w) && op != AShr {
			return tb.BV(w, 0)
		}
	case UDiv, SDiv:
		if y.Op == Const && y.Val == 1 {
			return x
		}
	case Eq:
		if x == y {
			return tb.True
		}
		if w == 0 {
			// boolean equality
			if y.Op == Const {
				if y.Val == 1 {
					return x
				}
				return tb.Not(x)
			}
		}
		if !tb.NoSimp && y.Op == Const {
			// eq(ite(c,k1,k2), k) with constants
			if x.Op == Ite && x.A[1].Op == Const && x.A[2].Op == Const {
				t := x.A[1].Val == y.Val
				e := x.A[2].Val == y.Val
				switch {
				case t && e:
					return tb.True
				case t && !e:
					return x.A[0]
				case !t && e:
					return tb.Not(x.A[0])
				default:
					return tb.False
				}
			}
			if x.Op == Ite && x.A[1].Op == Const && x.A[1].Val != y.Val {
				// ite(c, k1, e) == k  with k1 != k  =>  !c && e == k
				return tb.AndB(tb.Not(x.A[0]), tb.Bin(Eq, x.A[2], y))
			}
			if x.Op == Ite && x.A[2].Op == Const && x.A[2].Val != y.Val {
				return tb.AndB(x.A[0], tb.Bin(Eq, x.A[1], y))
			}
			// eq(zext(a), k)
			if x.Op == ZExt {
				aw := x.A[0].W
				if y.Val > mask(aw) {
					return tb.False
				}
				return tb.Bin(Eq, x.A[0], tb.BV(aw, y.Val))
			}
			// eq(a + c1, k) => eq(a, k - c1)
			if x.Op == Add && x.A[1].Op == Const {
				return tb.Bin(Eq, x.A[0], tb.BV(w, y.Val-x.A[1].Val))
			}
		}
	case ULt:
		if x == y {
			return tb.False
		}
		if y.Op == Const && y.Val == 0 {
			return tb.False
		}
		if x.Op == Const && x.Val == mask(w) {
			return tb.False
		}
		if !tb.NoSimp && y.Op == Const && x.Op == ZExt {
			aw := x.A[0].W
			if y.Val > mask(aw) {
				return tb.True
			}
			return tb.Bin(ULt, x.A[0], tb.BV(aw, y.Val))
		}
		if !tb.NoSimp && x.Op == Const && y.Op == ZExt {
			aw := y.A[0].W
			if x.Val >= mask(aw) {
				return tb.False
			}
			return tb.Bin(ULt, tb.BV(aw, x.Val), y.A[0])
		}
	case ULe:
		if x == y {
			return tb.True
		}
		if x.Op == Const && x.Val == 0 {
			return tb.True
		}
		if y.Op == Const && y.Val == mask(w) {
			return tb.True
		}
		if !tb.NoSimp && y.Op == Const && x.Op == ZExt {
			aw := x.A[0].W
			if y.Val >= mask(aw) {
				return tb.True
			}
			return tb.Bin(ULe, x.A[0], tb.BV(aw, y.Val))
		}
		if !tb.NoSimp && x.Op == Const && y.Op == ZExt {
			aw := y.A[0].W
			if x.Val > mask(aw) {
				return tb.False
			}
			return tb.Bin(ULe, tb.BV(aw, x.Val), y.A[0])
		}
	case SLt:
		if x == y {
			return tb.False
		}
		if !tb.NoSimp && x.Op == ZExt && y.Op == Const && x.A[0].W < w {
			// zext value is non-negative
			if y.SVal() <= 0 {
				return tb.False
			}
			return tb.Bin(ULt, x, y)
		}
		if !tb.NoSimp && y.Op == ZExt && x.Op == Const && y.A[0].W < w {
			if x.SVal() < 0 {
				return tb.True
			}
			return tb.Bin(ULt, x, y)
		}
	case SLe:
		if x == y {
			return tb.True
		}
		if !tb.NoSimp && x.Op == ZExt && y.Op == Const && x.A[0].W < w {
			if y.SVal() < 0 {
				return tb.False
			}
			return tb.Bin(ULe, x, y)
		}
		if !tb.NoSimp && y.Op == ZExt && x.Op == Const && y.A[0].W < w {
			if x.SVal() <= 0 {
				return tb.True
			}
			return tb.Bin(ULe, x, y)
		}
	}
	return tb.mk(op, rw, 0, "", x, y, nil)
}

func (tb *Table) Not(x *Term) *Term {
	if x.W != 0 {
		panic("term: Not on non-bool")
	}
	if x.Op == Const {
		return tb.Bool(x.Val == 0)
	}
	if x.Op == Not {
		return x.A[0]
	}
	return tb.mk(Not, 0, 0, "", x, nil, nil)
}

func (tb *Table) AndB(x, y *Term) *Term {
	if x.W != 0 || y.W != 0 {
		panic("term: AndB on non-bool")
	}
	if x.IsFalse() || y.IsFalse() {
		return tb.False
	}
	if x.IsTrue() {
		return y
	}
	if y.IsTrue() {
		return x
	}
	if x == y {
		return x
	}
	if (x.Op == Not && x.A[0] == y) || (y.Op == Not && y.A[0] == x) {
		return tb.False
	}
	if x.ID > y.ID {
		x, y = y, x
	}
	return tb.mk(BAnd, 0, 0, "", x, y, nil)
}

func (tb *Table) OrB(x, y *Term) *Term {
	if x.W != 0 || y.W != 0 {
		panic("term: OrB on non-bool")
	}
	if x.IsTrue() || y.IsTrue() {
		return tb.True
	}
	if x.IsFalse() {
		return y
	}
	if y.IsFalse() {
		return x
	}
	if x == y {
		return x
	}
	if (x.Op == Not && x.A[0] == y) || (y.Op == Not && y.A[0] == x) {
		return tb.True
	}
	if x.ID > y.ID {
		x, y = y, x
	}
	return tb.mk(BOr, 0, 0, "", x, y, nil)
}

func (tb *Table) Implies(x, y *Term) *Term { return tb.OrB(tb.Not(x), y) }

func (tb *Table) Ite(c, t, e *Term) *Term {
	if c.W != 0 {
		panic("term: Ite cond not bool")
	}
	if t.W != e.W {
		panic(fmt.Sprintf("term: Ite width mismatch %d vs %d", t.W, e.W))
	}
	if c.IsTrue() {
		return t
	}
	if c.IsFalse() {
		return e
	}
	if t == e {
		return t
	}
	if t.W == 0 {
		if t.IsTrue() && e.IsFalse() {
			return c
		}
		if t.IsFalse() && e.IsTrue() {
			return tb.Not(c)
		}
		if t.IsTrue() {
			return tb.OrB(c, e)
		}
		if t.IsFalse() {
			return tb.AndB(tb.Not(c), e)
		}
		if e.IsTrue() {
			return tb.OrB(tb.Not(c), t)
		}
		if e.IsFalse() {
			return tb.AndB(c, t)
		}
	}
	if c.Op == Not {
		return tb.Ite(c.A[0], e, t)
	}
	return tb.mk(Ite, t.W, 0, "", c, t, e)
}

func (tb *Table) Un(op Op, x *Term) *Term {
	switch op {
	case BvNot:
		if x.Op == Const {
			return tb.BV(x.W, ^x.Val)
		}
		if x.Op == BvNot {
			return x.A[0]
		}
	case Neg:
		if x.Op == Const {
			return tb.BV(x.W, -x.Val)
		}
		if x.Op == Neg {
			return x.A[0]
		}
	default:
		panic("term: bad unary op")
	}
	return tb.mk(op, x.W, 0, "", x, nil, nil)
}

func (tb *Table) ZExtTo(x *Term, w uint8) *Term {
	if x.W == 0 {
		panic("term: zext of bool")
	}
	if w == x.W {
		return x
	}
	if w < x.W {
		return tb.ExtractBits(x, w-1, 0)
	}
	if x.Op == Const {
		return tb.BV(w, x.Val)
	}
	if x.Op == ZExt {
		return tb.ZExtTo(x.A[0], w)
	}
	if !tb.NoSimp && x.Op == Ite && (x.A[1].Op == Const || x.A[2].Op == Const) {
		return tb.Ite(x.A[0], tb.ZExtTo(x.A[1], w), tb.ZExtTo(x.A[2], w))
	}
	return tb.mk(ZExt, w, 0, "", x, nil, nil)
}

func (tb *Table) SExtTo(x *Term, w uint8) *Term {
	if x.W == 0 {
		panic("term: sext of bool")
	}
	if w == x.W {
		return x
	}
	if w < x.W {
		return tb.ExtractBits(x, w-1, 0)
	}
	if x.Op == Const {
		return tb.BV(w, uint64(sext(x.Val, x.W)))
	}
	if x.Op == ZExt {
		// sign bit is zero
		return tb.ZExtTo(x.A[0], w)
	}
	if !tb.NoSimp && x.Op == Ite && (x.A[1].Op == Const || x.A[2].Op == Const) {
		return tb.Ite(x.A[0], tb.SExtTo(x.A[1], w), tb.SExtTo(x.A[2], w))
	}
	return tb.mk(SExt, w, 0, "", x, nil, nil)
}

func (tb *Table) ExtractBits(x *Term, hi, lo uint8) *Term {
	if hi < lo || hi >= x.W {
		panic("term: bad extract")
	}
	w := hi - lo + 1
	if w == x.W {
		return x
	}
	if x.Op == Const {
		return tb.BV(w, x.Val>>lo)
	}
	if (x.Op == ZExt || x.Op == SExt) && lo == 0 {
		aw := x.A[0].W
		if w == aw {
			return x.A[0]
		}
		if w < aw {
			return tb.ExtractBits(x.A[0], hi, 0)
		}
		if x.Op == ZExt {
			return tb.ZExtTo(x.A[0], w)
		}
		return tb.SExtTo(x.A[0], w)
	}
	if x.Op == ZExt && lo >= x.A[0].W {
		return tb.BV(w, 0)
	}
	if x.Op == Extract {
		ilo := uint8(x.Val & 0xff)
		return tb.ExtractBits(x.A[0], hi+ilo, lo+ilo)
	}
	if !tb.NoSimp && lo == 0 {
		switch x.Op {
		case Add, Sub, Mul, And, Or, Xor:
			// low bits of these depend only on low bits of operands
			if x.A[0].Op == ZExt || x.A[1].Op == ZExt || x.A[0].Op == Const || x.A[1].Op == Const {
				return tb.Bin(x.Op, tb.ExtractBits(x.A[0], hi, 0), tb.ExtractBits(x.A[1], hi, 0))
			}
		case Ite:
			if x.A[1].Op == Const || x.A[2].Op == Const {
				return tb.Ite(x.A[0], tb.ExtractBits(x.A[1], hi, lo), tb.ExtractBits(x.A[2], hi, lo))
			}
		}
	}
	return tb.mk(Extract, w, uint64(hi)<<8|uint64(lo), "", x, nil, nil)
}

func (tb *Table) ConcatBV(hi, lo *Term) *Term {
	w := hi.W + lo.W
	if w > 64 || hi.W == 0 || lo.W == 0 {
		panic("term: bad concat")
	}
	if hi.Op == Const && lo.Op == Const {
		return tb.BV(w, hi.Val<<lo.W|lo.Val)
	}
	return tb.mk(Concat, w, 0, "", hi, lo, nil)
}

// ---------------------------------------------------------------------
// Evaluation

// Env maps variable terms to values.
type Env map[*Term]uint64

// Evaluator evaluates terms under an environment with memoisation.
type Evaluator struct {
	Env  Env
	memo map[*Term]uint64
}

func NewEvaluator(env Env) *Evaluator { return &Evaluator{Env: env, memo: make(map[*Term]uint64)} }

func (ev *Evaluator) Eval(t *Term) uint64 {
	if t.Op == Const {
		return t.Val
	}
	if v, ok := ev.memo[t]; ok {
		return v
	}
	// iterative post-order to avoid deep recursion
	type item struct {
		t    *Term
		done bool
	}
	stack := []item{{t, false}}
	for len(stack) > 0 {
		it := stack[len(stack)-1]
		stack = stack[:len(stack)-1]
		u := it.t
		if u.Op == Const {
			continue
		}
		if _, ok := ev.memo[u]; ok {
			continue
		}
		if !it.done {
			if u.Op == Var {
				ev.memo[u] = ev.Env[u] & maskB(u.W)
				continue
			}
			stack = append(stack, item{u, true})
			for _, c := range u.A {
				if c != nil && c.Op != Const {
					if _, ok := ev.memo[c]; !ok {
						stack = append(stack, item{c, false})
					}
				}
			}
			continue
		}
		ev.memo[u] = ev.eval1(u)
	}
	return ev.memo[t]
}

func maskB(w uint8) uint64 {
	if w == 0 {
		return 1
	}
	return mask(w)
}

func (ev *Evaluator) get(t *Term) uint64 {
	if t.Op == Const {
		return t.Val
	}
	return ev.memo[t]
}

func (ev *Evaluator) eval1(u *Term) uint64 {
	a := u.A
	switch u.Op {
	case Not:
		return ev.get(a[0]) ^ 1
	case BvNot:
		return ^ev.get(a[0]) & mask(u.W)
	case Neg:
		return -ev.get(a[0]) & mask(u.W)
	case ZExt:
		return ev.get(a[0])
	case SExt:
		return uint64(sext(ev.get(a[0]), a[0].W)) & mask(u.W)
	case Extract:
		lo := uint8(u.Val & 0xff)
		return (ev.get(a[0]) >> lo) & mask(u.W)
	case Concat:
		return (ev.get(a[0])<<a[1].W | ev.get(a[1])) & mask(u.W)
	case Ite:
		if ev.get(a[0]) != 0 {
			return ev.get(a[1])
		}
		return ev.get(a[2])
	default:
		return evalBin(u.Op, a[0].W, ev.get(a[0]), ev.get(a[1]))
	}
}

// ---------------------------------------------------------------------
// Printing

func SortOf(t *Term) string {
	if t.W == 0 {
		return "Bool"
	}
	return fmt.Sprintf("(_ BitVec %d)", t.W)
}

func constLit(t *Term) string {
	if t.W == 0 {
		if t.Val != 0 {
			return "true"
		}
		return "false"
	}
	if t.W%4 == 0 {
		return fmt.Sprintf("#x%0*x", int(t.W/4), t.Val)
	}
	return fmt.Sprintf("#b%0*b", int(t.W), t.Val)
}

// VarSym returns the SMT-LIB symbol for a variable name.
func VarSym(name string) string {
	return "|" + strings.NewReplacer("|", "!", "\\", "!").Replace(name) + "|"
}

// Ref returns how a term is referenced from other definitions.
func Ref(t *Term) string {
	switch t.Op {
	case Const:
		return constLit(t)
	case Var:
		return VarSym(t.Name)
	}
	return fmt.Sprintf("t%d", t.ID)
}

// Body returns the defining expression of a non-leaf term in terms of Refs.
func Body(t *Term) string {
	a := t.A
	switch t.Op {
	case Extract:
		return fmt.Sprintf("((_ extract %d %d) %s)", t.Val>>8, t.Val&0xff, Ref(a[0]))
	case ZExt:
		return fmt.Sprintf("((_ zero_extend %d) %s)", t.W-a[0].W, Ref(a[0]))
	case SExt:
		return fmt.Sprintf("((_ sign_extend %d) %s)", t.W-a[0].W, Ref(a[0]))
	case Not, BvNot, Neg:
		return fmt.Sprintf("(%s %s)", opNames[t.Op], Ref(a[0]))
	case Ite:
		return fmt.Sprintf("(ite %s %s %s)", Ref(a[0]), Ref(a[1]), Ref(a[2]))
	default:
		return fmt.Sprintf("(%s %s %s)", opNames[t.Op], Ref(a[0]), Ref(a[1]))
	}
}

// BodyWith renders t's defining expression with the given child references.
func BodyWith(t *Term, r [3]string) string {
	switch t.Op {
	case Extract:
		return fmt.Sprintf("((_ extract %d %d) %s)", t.Val>>8, t.Val&0xff, r[0])
	case ZExt:
		return fmt.Sprintf("((_ zero_extend %d) %s)", t.W-t.A[0].W, r[0])
	case SExt:
		return fmt.Sprintf("((_ sign_extend %d) %s)", t.W-t.A[0].W, r[0])
	case Not, BvNot, Neg:
		return "(" + opNames[t.Op] + " " + r[0] + ")"
	case Ite:
		return "(ite " + r[0] + " " + r[1] + " " + r[2] + ")"
	default:
		return "(" + opNames[t.Op] + " " + r[0] + " " + r[1] + ")"
	}
}

// String renders a term as a nested s-expression (debugging, small terms).
func (t *Term) String() string {
	var sb strings.Builder
	t.write(&sb, 0)
	return sb.String()
}

func (t *Term) write(sb *strings.Builder, depth int) {
	if t.Op == Const || t.Op == Var {
		sb.WriteString(Ref(t))
		return
	}
	if depth > 6 {
		fmt.Fprintf(sb, "t%d", t.ID)
		return
	}
	switch t.Op {
	case Extract:
		fmt.Fprintf(sb, "((_ extract %d %d) ", t.Val>>8, t.Val&0xff)
	case ZExt:
		fmt.Fprintf(sb, "((_ zero_extend %d) ", t.W-t.A[0].W)
	case SExt:
		fmt.Fprintf(sb, "((_ sign_extend %d) ", t.W-t.A[0].W)
	default:
		sb.WriteString("(" + opNames[t.Op] + " ")
	}
	for i, c := range t.A {
		if c == nil {
			break
		}
		if i > 0 {
			sb.WriteByte(' ')
		}
		c.write(sb, depth+1)
	}
	sb.WriteByte(')')
}

// Script renders a standalone SMT-LIB2 script asserting all given boolean
// terms, with every sub-term as a define-fun (DAG-sharing).
func Script(asserts []*Term, extraHeader string) string {
	var sb strings.Builder
	sb.WriteString(extraHeader)
	seen := map[*Term]bool{}
	var order []*Term
	var visit func(t *Term)
	visit = func(t *Term) {
		if t.Op == Const || seen[t] {
			return
		}
		seen[t] = true
		for _, c := range t.A {
			if c != nil {
				visit(c)
			}
		}
		order = append(order, t)
	}
	for _, a := range asserts {
		visit(a)
	}
	for _, t := range order {
		if t.Op == Var {
			fmt.Fprintf(&sb, "(declare-const %s %s)\n", VarSym(t.Name), SortOf(t))
		}
	}
	for _, t := range order {
		if t.Op != Var {
			fmt.Fprintf(&sb, "(define-fun t%d () %s %s)\n", t.ID, SortOf(t), Body(t))
		}
	}
	for _, a := range asserts {
		fmt.Fprintf(&sb, "(assert %s)\n", Ref(a))
	}
	return sb.String()
}

// VarsOf returns the variables occurring in the given terms.
func VarsOf(ts []*Term) []*Term {
	seen := map[*Term]bool{}
	var out []*Term
	var visit func(t *Term)
	visit = func(t *Term) {
		if t.Op == Const || seen[t] {
			return
		}
		seen[t] = true
		if t.Op == Var {
			out = append(out, t)
			return
		}
		for _, c := range t.A {
			if c != nil {
				visit(c)
			}
		}
	}
	for _, t := range ts {
		visit(t)
	}
	return out
}

var _ = bits.Len

// ConstLike returns a constant of the same sort as t.
func (tb *Table) ConstLike(t *Term, v uint64) *Term {
	if t.W == 0 {
		return tb.Bool(v != 0)
	}
	return tb.BV(t.W, v)
}

// EvalOp evaluates the operator of t on constant operands.
func (tb *Table) EvalOp(t *Term, kids [3]*Term) uint64 {
	ev := &Evaluator{memo: map[*Term]uint64{}}
	u := &Term{Op: t.Op, W: t.W, Val: t.Val, A: kids}
	return ev.eval1(u)
}
