#!/bin/sh
# Build the engine offline from files on disk.
set -e
VERIF_DIR="$(cd "$(dirname "$0")" && pwd)"
export GOFLAGS=-mod=mod GOPROXY=off GOSUMDB=off GOTOOLCHAIN=local CGO_ENABLED=0
mkdir -p "$VERIF_DIR/bin" "$VERIF_DIR/evidence" "$VERIF_DIR/replays"
cd "$VERIF_DIR/engine" && go build -o "$VERIF_DIR/bin/symgo" ./cmd/symgo
echo "symgo built"
