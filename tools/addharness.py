#!/usr/bin/env python3
"""addharness.py <check.json> <name> <what> <quick ranges json> <thorough ranges json> <covers json> [extra json merged into both tiers]"""
import json,sys
f,name,what,q,t,cov=sys.argv[1:7]
extra=json.loads(sys.argv[7]) if len(sys.argv)>7 else {}
c=json.load(open(f))
c['harnesses']=[h for h in c['harnesses'] if h['name']!=name]
qd={"ranges":json.loads(q)}; td={"ranges":json.loads(t)}
qd.update(extra); td.update(extra)
c['harnesses'].append({"name":name,"what":what,"quick":qd,"thorough":td,"covers":json.loads(cov)})
json.dump(c,open(f,'w'),indent=1); print("ok",len(c['harnesses']))
