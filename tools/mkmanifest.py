#!/usr/bin/env python3
"""Regenerates /verif/MANIFEST.json from the table below (kept in one place so
that claimed / not-applicable lists never drift apart)."""
import json, os, sys

V = os.path.dirname(os.path.dirname(os.path.abspath(__file__)))

TECH = ("bounded symbolic execution of the real Go code (go/ssa of /repo's working tree, "
        "own interpreter 'symgo') with SMT (z3; thorough tier cross-checks assertion queries "
        "with z3 5.1 and cvc5); counterexamples replayed natively / in the interpreter")

# id -> (level text, level note, design ref)
CLAIMED = {
 "C01": ("Kernels: fork ids with symbolic array indices on two mapped roots, symbolic membership of roots, consumer/reference indices including "
         "out-of-range ones and arbitrary argument keys run through the real matchForks, UnmatchedParts, matchFork/Match/Matches/indexEqual/Equal and "
         "ChunkDef.MergeArguments (result = in-order filter / uniquely determined producer fork / key-wise merge). Real dataflow: three MRO texts are "
         "instantiated by the real compiler and runtime inside the engine; the harness plays the jobs (which forks wrote _outs; arrays of 1..3 (4) and maps of "
         "1..2 (3) arbitrary digits; flag arbitrary) and the real expandForks / resolveInputs / resolvePipelineOutputs (resolve, resolveRef, resolveSplit, "
         "resolveMerge, resolveDisabledExp, getParts, Path) must deliver exactly what the text says each call receives: dynamic map call over an array and over "
         "a typed map, unsplit arguments, merges, a map call nested in a mapped pipeline with producers finishing in any order, struct projection, literals "
         "with references, a call disabled by an upstream flag, pipeline outputs. H_C01_disabledInMapped: a call disabled per element inside a mapped pipeline; H_C01_disabledSiblings: two sibling calls below three nested sub-pipelines, all five run-time flags symbolic; H_C01_constFromMapped: constants collected from a pipeline mapped over a run-time array of 0..2 (3) elements (dependency on the array's producer and one copy per element). H_C01_wholeCall: a whole call bound to a struct of narrower members (and an array of it, and as top-level output), int written as 3 or 3.0; constants or stage outputs handed through a mapped pipeline. H_C01_zipLengths (a call mapped over two run-time arrays of 0..2 (3) elements each), H_C01_disabledByMember (a call disabled by a member of its run-time element).",
         "Trusted: go/ssa, symgo, z3; the reference JSON decoder that replaces encoding/json for the value shapes the harness produces; Metadata.read "
         "replaced by the harness's choice of _outs. Outside: other programs, strings/floats/nested structs as values, more than two fork dimensions, "
         "top-level _outs writing.",
         "DESIGN.md §4 (C01) Also fixed: constant collected from a mapped pipeline delivered unresolved; known: static mapped collection with run-time flags."),
 "C02": ("One step of the real scheduler code (Fork.step/stepStage/doSplit/doChunks/doJoin/doComplete, Chunk.step, Node.step/getState, "
         "runJob) from an arbitrary sentinel-file state: every combination of _errors/_assert/_complete/_disabled/_log/_jobinfo/_stage_defs on "
         "split, chunks, join and fork metadata (= every instant of every schedule) is symbolic under the phase invariant; a recording fake job "
         "manager is the observer. Asserted: chunk jobs only after split complete, join only after all chunks complete, a node submits only "
         "when running and enters running only when producer, disabling source and every enclosing preflight are done. H_C02_preflightBindings: which bindings a preflight call may have (a reference inside a collection literal is a known finding). H_C01_constFromMapped: a consumer of values handed through a pipeline mapped over a run-time collection depends on the collection's producer.",
         "Trusted: go/ssa, symgo, z3; the OS-boundary and AST/JSON stubs listed in the evidence (each returns an arbitrary outcome within its contract); the assumed representation invariant PhaseInv; the hand-built graph (one fork per node, <=2 chunks, P{PRE,A,C,Q{R{B}}}) and the MRO text of the real-graph fixture (instantiated by the real compiler and runtime inside the engine). Dynamic fork expansion and static fork enumeration run on instantiated pipelines (H_C01_*). Outside: real processes and job-manager queues.", "DESIGN.md §4 (C02)"),
 "C03": ("Same harness family as C02, plus two consecutive steps with arbitrary job progress and an optional restart in between: no metadata is "
         "handed to execJob twice, a job is submitted only from its empty state and then carries _jobinfo, exactly the chunks _stage_defs lists are "
         "created, a disabled fork submits nothing and is marked disabled; MakeForkIds yields exactly one id per element/key; constant disabling conditions are pruned only when all-false / all-true. H_C01_disabledSiblings (five run-time flags, which calls run); H_C05_chunkIdentity (a restart looks for every chunk where it was created); H_C06_splitRetry (a re-run split defining another number of chunks).",
         "Trusted: go/ssa, symgo, z3; the OS-boundary and AST/JSON stubs listed in the evidence (each returns an arbitrary outcome within its contract); the assumed representation invariant PhaseInv; the hand-built graph (one fork per node, <=2 chunks, P{PRE,A,C,Q{R{B}}}) and the MRO text of the real-graph fixture (instantiated by the real compiler and runtime inside the engine). Dynamic fork expansion and static fork enumeration run on instantiated pipelines (H_C01_*). Outside: real processes and job-manager queues. Static fork enumeration (MakeForkIds on static arrays / maps of 1..3 entries) and the compile-time pruning of constant disabling conditions have their own harnesses.", "DESIGN.md §4 (C03)"),
 "C04": ("Decision and bookkeeping of volatile data removal from the real code: partialVdrKill from arbitrary coarse states of the "
         "producer fork and two consumers with arbitrary keep-alive membership (incl. the top-level/retain holder), and the real "
         "vdrKillSome/vdrKill with os.RemoveAll recorded over a symbolic file cache (directory, file inside it, sibling; arbitrary "
         "keep-alive sets, sizes, live arguments). Asserted: full kill only for a completed, not failed fork whose bound consumers are all "
         "complete/disabled and with no top-level hold; only unheld paths (and nothing containing a held path) are removed; fileArgs/"
         "filePostNodes stay consistent; non-volatile stages lose only chunk files of splitting stages; anyOverlap/pathIsInside string kernels. The keep-alive relation itself is built by the real compiler/runtime from MRO text (two consumers, a sub-pipeline, a pipeline output, a mapped producer with null siblings); getLogicalFileNames runs over a small arbitrary file-system model (symlinked parent, relative/absolute/self links). Projections through map<S>[][].",
         "Trusted: go/ssa, symgo, z3/cvc5, the stubs and fixture listed in the evidence. Outside: file-system shapes beyond the model, JSON-derived file "
         "lists, keep-alive relations of programs other than the fixture text (structs, arrays of files, mapped calls), the real goroutine schedule, the stage contract.",
         "DESIGN.md §4 (C04)"),
 "C14": ("Partial (accounting and phases): same harnesses as C04. Asserted: the kill report's size and count grow by exactly the cached sizes/"
         "counts of the removed paths (collapsed children included, on top of an existing partial report), every reported path was passed to "
         "RemoveAll and lies inside the fork directory, everything nothing keeps alive is reclaimed, split/chunk/join temp cleaning runs in the "
         "phases named and never twice (restart between partial and final). H_C14_cleanTemp: the real clean*Temp on a file-system model (0..3 chunks, 0..1 (2) scratch files of arbitrary size, any tmp/ already missing); H_C04_killNonVolatile with 0..3 chunks; a kill which writes the final report announces it. H_C14_splitTempTwice: the split temp clean-up run twice keeps the first pass's totals.",
         "Trusted: as C04. Outside: what survives on disk, the temp-directory walks themselves (clean*Temp internals), event time-lines, the "
         "pipestance-level merge.",
         "DESIGN.md §4 (C14)"),
 "C05": ("Partial (restart decision kernel): crash points are symbolic sentinel-file sets closed under the order a job writes its files. "
         "The real checkedReset/restartLocal/restartQueuedLocal/uncheckedReset/removeAll run on them (process liveness, recorded pid and "
         "_jobinfo readability arbitrary): a job with recorded completion is never reset, exactly failed / queued / dead-process jobs are, and "
         "nothing of the old attempt stays cached; Pipestance.Reset + RestartLocalJobs (what mrp does on re-attach) leaves no chunk queued or running under a dead process; two scheduler steps with a restart in between never resubmit a job with recorded progress; "
         "Lock refuses an existing _lock without side effects and a handled signal removes it. H_C06_restartMapped: Pipestance.Reset on a mapped stage with arbitrary per-fork states, chunk-granular and full stage reset. H_C05_signalAtCompletion: the job monitor's (cmd/mrjob) real Complete / HandleSignal with a signal before, after or without completion; H_C05_postProcessResumed: post-processing resumed after a kill between rename and link (file-system model).",
         "Trusted: go/ssa, symgo, z3, the OS-boundary stubs listed in the evidence, the crash-consistency assumption. Outside: equality of final "
         "outputs with an uninterrupted run, RestoreForks end to end, VDR/post-processing interruption, the real signal machinery, SIGKILL windows.",
         "DESIGN.md §4 (C05)"),
 "C06": ("Partial (scheduler decision kernel): faults are symbolic sentinel files and stub verdicts — _errors/_assert in any combination, "
         "unreadable or invalid outputs, unparseable _stage_defs. Asserted: failure precedence, a failed job fails its fork and node, a failed "
         "node stays on the frontier and the pipestance state is failed never complete, consumers wait and submit nothing, independent stages "
         "are unaffected, invalid outputs write _errors and never _complete; LocalJobManager.Enqueue with the job process replaced by an arbitrary outcome per attempt leaves _errors behind for every failed process, re-runs only spawn failures and at most maxRetries times. H_C06_restartMapped (no fork reports complete after a reset unless its _complete is still there), H_C06_dynamicForkError (the error of any job of a run-time fork is reported by name, whatever the other forks do), H_C06_splitRetry (n1, n2 in 0..3). H_C06_clusterRetry (in-process retry in cluster mode with a job waiting for a slot), H_C06_nullChunkDef (null chunk definitions).",
         "Trusted: go/ssa, symgo, z3; the OS-boundary and AST/JSON stubs listed in the evidence (each returns an arbitrary outcome within its contract); the assumed representation invariant PhaseInv; the hand-built graph (one fork per node, <=2 chunks, P{PRE,A,C,Q{R{B}}}) and the MRO text of the real-graph fixture (instantiated by the real compiler and runtime inside the engine). Dynamic fork expansion and static fork enumeration run on instantiated pipelines (H_C01_*). Outside: real processes and job-manager queues. Also outside: mrjob (how the monitor turns an exit status into _errors), transient-error regexps and mrp attemptRetry, mrp exit code, restart after the fault is removed.", "DESIGN.md §4 (C06)"),
 "C07": ("Partial (one binding between two stages over a 13-type family): for every pair (DST, SRC) of int, float, string, bool, a file type, int[], float[], int[][], "
         "map<int>, map<float>, two structs (one a superset of the other) and an array of structs the program text `CONSUMER(x = PRODUCER.o)` is generated and compiled by "
         "the real compiler; the oracle is the documented conversion list (identity, int->float, string<->file type, equal array depth / typed map with assignable "
         "elements, struct->struct with all fields present). Accepted exactly when convertible; a rejection names file and line of the binding; for accepted pairs a "
         "generated conforming SRC value (arbitrary leaves, undeclared struct fields) filtered to DST - the runtime's step at the stage boundary - validates against DST. 20 literals incl. integral floats bound to int, with the delivered JSON checked against the parameter type. H_C07_callOrder: producer / mapped call / consumer written in each of the 6 orders x 3 consumer parameter depths.",
         "Trusted: go/ssa, symgo, z3, the assignability oracle and the reference JSON decoder in the harness. Outside: every other program shape (projections, map-call "
         "dimensions, literals, untyped maps, missing/unknown parameters, split consistency), leaf decoding, routing (C01).",
         "DESIGN.md §4 (C07)"),
 "C08": ("Every byte string up to 3 (thorough 4) bytes is run symbolically through the real lexer step, the scanner loop, and the whole "
         "expression parser (yacc tables + grammar actions); 19/20-digit integer tokens and 8-hex-digit \\U escapes get their own harnesses. "
         "Include resolution (parseSource/getIncludes/checkIncludes/merge) runs on 1..3 (4) files with an arbitrary include relation: an error exactly for reachable cycles, no unbounded recursion. "
         "An uncaught Go panic on any path is a violation with concrete bytes, replayed natively. Partial: lexer contract and "
         "token-consuming actions, not arbitrary long token sequences. H_C08_compileCorners: seven programs which used to crash the compiler (mutual recursion, 1e39 resources, ...) end with an error or a result. H_C08_mismatchText: strings of 1..12 characters of 1-4 bytes bound to an int parameter in 3 positions. H_C08_wrongKind (values presented as MRO source and vice versa: errors carry a position), H_C08_lineAfterString (positions after a string literal spanning 1..3 lines).",
         "Trusted: go/ssa, symgo, regex VM model, z3 / cvc5 --solve-bv-as-int (integer-token harness). The numeric value of a "
         "symbolic float literal is cut to an opaque value (float range errors outside). Outside: long inputs, larger include "
         "graphs, compile passes, time/memory proportionality.",
         "DESIGN.md §4 (C08)"),
 "C09": ("String values of up to 3 (thorough 4) arbitrary bytes, source literals built from two atoms (raw byte, simple/octal/hex "
         "escape), src commands, @include paths and integers below 10^3 (10^4) are symbolic; the real quoteString, lexer, unquote, "
         "yacc parser and formatter run on them and the solver shows the formatted text lexes/parses back to the same value and is a "
         "fixed point. Also: a commented call with every subset of local/preflight/volatile in legacy or using syntax (comment kept once, idempotent), the stable topological sort of calls, stage resources from a concrete table of 24 float literals, and a translator self-test on 10 repository files. Partial: kernels, not whole arbitrary files. H_C09_expandedRecompiles: the rendering of the compiled program which mrp records (10 repository programs + a wildcard fixture) compiles on its own, is a fixed point and resolves to the same call graph. H_C09_commentAtSplit (3 places around a split operand / call modifiers), H_C09_commentThenBlank (20 places, comment followed by an empty line), huge reservations (1e16, 3e38) in H_C09_resourceFloats.",
         "Trusted: go/ssa, symgo, regex VM model, z3. Outside: floats beyond the table, comments elsewhere than on calls, whole-file idempotence, "
         "include-expanded rendering, wider integers. One known finding (non-UTF-8 literal bytes) is reported as KNOWN-FINDING.",
         "DESIGN.md §4 (C09)"),
 "C15": ("Partial, clause by clause: for modifiers, bindings/expressions, calls, stages and pipelines two instances with the same shape "
         "and independent symbolic leaves (names, values, kinds, flags, types, dims, out names) are compared by the real EquivalentTo/"
         "Equals/equal code; the solver shows the verdict equals a leaf-wise oracle written from the doc comments in both directions "
         "(refused iff a semantic leaf differs; cosmetic leaves ignored). H_C15_callees (9 x 9 programs: aliased calls switched between stages), H_C15_structKinds, H_C15_reattachText (the real reattachToPipestance on a model disk: comments / formatting of the invocation accepted, a changed argument refused).",
         "Trusted: go/ssa, symgo, z3, the oracles. AST shapes restricted to what the compiler produces. Outside: floats, map/split/merge "
         "expressions, _invocation byte comparison, the pipestance lock.",
         "DESIGN.md §4 (C15)"),
 "C16": ("StringExp values of up to 3 (4) arbitrary bytes, two-key typed maps with arbitrary 1-2 byte keys under every Go map iteration "
         "order, booleans/null/empty collections and integers below 10^3 (10^4) are encoded by the real EncodeJSON/MarshalJSON; an "
         "RFC 8259 string decoder in the harness is the oracle. The loop invocation JSON -> BuildCallAst/convertToExp/fixExpressionTypes -> Format -> parse -> BuildDataForAst -> invocation JSON runs on a stage compiled from text (string of up to 2 (3) arbitrary bytes, struct, typed/untyped maps, arrays, array of structs, booleans, null). Arguments of type map<ST>[], map<ST[]>[], map<ST>[][]; H_C16_floatRange: 16 float literals around 2^63, 1e21, 1e-6.",
         "Trusted: go/ssa, symgo, z3, the 60-line JSON string decoder. Outside: split arguments, floats and large integers in the loop, "
         "per-fork invocation files.",
         "DESIGN.md §4 (C16)"),
 "C10": ("Partial (order-independence of the emitters): every range over a Go map in the executed code picks an arbitrary permutation "
         "(engine-level nondeterminism); map expressions, binding maps, argument maps, metadata listings and job-script environment blocks with "
         "2-3 distinct symbolic keys are emitted twice and the solver shows the two outputs are byte-identical on every pair of orders. Ten repository test programs are compiled, formatted and resolved under two fixed engine map orders and Go's random order (native replay) with equal results. Four ghost map orders (insertion, reverse, ascending and descending key) in H_SELF_compile / H_SELF_instantiate, six wide-map fixtures, H_C10_resolveErrors (error text of unresolvable parameters). H_C10_validateText (ValidateOutputs / ValidateInputs text under four map orders); eight map-order fixtures. H_C10_srcSearchPath: stage code search over three source directories under four map orders.",
         "Trusted: go/ssa, symgo (map-order model), z3. Static fork-id enumeration over a map source (MakeForkIds) is sorted under every iteration order. Outside: whole-pipeline Format/MakeCallGraph identity, error-message order, "
         "cross-process repetition.",
         "DESIGN.md §4 (C10)"),
 "C11": ("Map keys of up to 3 (thorough 4) arbitrary bytes, array indices < 1000 and every journal file name built from "
         "(node, fork, chunk?, 10-hex uniquifier?, prefix, state) are symbolic; the real makeKeySafe/url.PathEscape, forkString, "
         "ForkIdString, encodeJournalName, parseRunFilename (regex run by a symbolic Pike VM over Go's own compiled program), "
         "find, getFork, Metadata.cache are executed and the solver shows the name is injective and parses back to exactly its "
         "writer; counterexamples replay natively. Bounded. H_C11_resetJournal: the journal clean-up of a partial and of a full reset removes exactly the entries of the job / stage being reset. H_C11_forkOfNotification, H_C11_lateFork (real graphs: journal name -> parseRunFilename -> getFork, forks resolved at run time and at different times), H_C11_separatorKeys (keys containing the level separator text, 3 x 0..1 symbolic bytes).",
         "Trusted: go/ssa lowering, symgo, the regex VM and Replacer models (validated by native replay of witnesses), z3. "
         "Node.refreshState runs on a symbolic journal listing. Outside: indices >= 1000, nested fork ids in routing, file-name length limits.",
         "DESIGN.md §4 (C11)"),
 "C12": ("One-step induction on the real ResourceSemaphore and MaxJobsSemaphore code: the pre-state (capacities, reservation, a queue of "
         "k<=3 (5) waiters with ghost channels; 3 jobs with arbitrary membership, metadata files and Limit) is symbolic subject to the "
         "representation invariant, one operation with arbitrary arguments runs, and the solver shows invariant, FIFO prefix grants, exact "
         "accounting, no lost wake-up and mutex discipline afterwards. Each operation is atomic under its mutex, so histories of any "
         "length are covered for states within the bound. Bounded values (2^40) and queue length. LocalJobManager.Enqueue (job process stubbed with an arbitrary outcome): the clamped request is reserved while the job runs, within every limit, and released whatever the outcome. H_C12_jobsOrder: request order of job slots (known finding).",
         "Trusted: go/ssa, symgo, ghost models of sync.Mutex/Cond/channels, cvc5 --solve-bv-as-int and z3. Caller contracts assumed "
         "(amounts>=0, Release<=reserved, UpdateSize<=maxSize). Outside: clamping in GetSystemReqs beyond the six enumerated floating-point requests, OS liveness, "
         "remote manager goroutines.",
         "DESIGN.md §4 (C12)"),
 "C19": ("Partial (reference rewriting of rename edits): the real updateRef/updateRefInExp on references with symbolic ids, output paths and "
         "old/new names, and RenameCallable with its edits applied to a hand-built pipeline AST (argument, nested-output, disabled, return and "
         "retain references; alias collision; reverse rename). The solver shows every reference that named the renamed call still names it, "
         "nothing else changes, and X->Y->X restores the names. Refactor with TopCalls (removal of unused outputs to a fixed point) on a three-level pipeline: the edit applied to a fresh parse, formatted and recompiled still compiles and the top-level call resolves to the same stage inputs and outputs. H_C19_unusedShapes: --top-calls with and without --remove-unused-calls around pipelines nobody reads from; H_C19_renameRoundTrip: rename there and back on real text (alias equal to the new name is a known finding). H_C19_wildcards: 8 renames across wildcard bindings at two levels. Removals across wildcards, an unused call beside a bare wildcard, H_C19_twoFiles (two unrelated files in one edit).",
         "Trusted: go/ssa, symgo, z3, the fixed AST shape and fixture text. Outside: removal of unused calls, other programs, "
         "input/output renames across files.",
         "DESIGN.md §4 (C19)"),
 "C13": ("Partial (materialisation logic over a file-system model): the top-level pipeline of an MRO text is instantiated by the real compiler and runtime and its "
         "fork's real postProcess / handleOuts / moveOutFiles / moveOutDir / moveOutArrayDir / moveOutFile / copyOutSymlink run against a model file system (files with "
         "identities, directories, symlinks) behind os.Lstat/Stat/Readlink/Symlink/Rename/MkdirAll and EvalSymlinks. Every file-typed leaf of _outs (a file, an array of "
         "two files, a struct member, a typed-map value) is arbitrarily null, empty, a file inside the pipestance, never written, a file outside, a relative or an "
         "absolute symlink. Asserted: every existing output is reachable under outs/ with its identity, the rewritten _outs designates it, the reported location "
         "still leads to it, inside files are moved not linked, missing ones become null, non-file values are untouched, no file is lost or duplicated, nothing "
         "outside the pipestance changes. H_C13_array2d: two-dimensional arrays of files as top-level outputs. H_C05_postProcessResumed (a file already moved by an interrupted run). H_C13_pathOutput: directory outputs (5 variants) on a model with symlinked parents and directory renames. H_C13_mapKeyNames: typed-map keys which cannot be file names stay in the record.",
         "Trusted: go/ssa, symgo, z3, the file-system model and the reference JSON decoder (both in the harness, both part of the claim). Outside: the real "
         "file system (permissions, I/O errors, hard links, links in directory components), compile-time output-name rules, multi-fork top-level calls, directories "
         "as outputs.",
         "DESIGN.md §4 (C13)"),
 "C17": ("Partial (structural logic; leaf decoding is a reference model): the types int, float, string, bool, a user file type, int[], int[][], map<int>, a struct, "
         "a struct of struct/array/map/file and an array of structs are compiled from MRO text by the real compiler; the harness generates conforming JSON values "
         "(arbitrary digits, letters, booleans, array lengths 0..2, undeclared struct fields or not, members in declared or reversed order) and near-misses (one "
         "position of the wrong shape, or a struct lacking a member) and runs the real IsValidJson / FilterJson / CanFilter / sameSlice paths: conforming values "
         "and null validate, near-misses do not (user file types: accepted with an alarm, the documented leniency), filtering a valid value reports no error, gives a "
         "valid value, is idempotent, returns its input unchanged when nothing has to be dropped and otherwise drops exactly the undeclared struct fields; a wider "
         "struct filters to the narrower struct it is assignable to. H_C17_assignability: IsAssignableFrom over 13 types and their array / map wrappers is reflexive and componentwise for structs. H_C17_intContainers: 9 integral-float spellings x 5 container shapes (integer written at every depth, input untouched, idempotent); H_C17_paddedNull: 13 types x 4 paddings.",
         "Trusted: go/ssa, symgo, z3, the reference JSON decoder in the harness (which byte strings are numbers / strings / booleans is the model's verdict). "
         "Outside: encoding/json itself, integral floats re-written as integers, odd whitespace and escapes, untyped maps, maps of arrays, the full assignability relation.",
         "DESIGN.md §4 (C17)"),
 "C18": ("Every byte string up to the stated length (quick 4, thorough 5 bytes; formatArgs 2+1+1 / 2+2+1) is pushed "
         "symbolically through the real appendShellSafeQuote/shellSafeQuote/formatArgs and a POSIX double-quote "
         "reference de-quoter; the solver shows on every path that sh recovers the original bytes, or returns the bytes "
         "that break it, which are replayed natively (go test -overlay). The whole job script (RemoteJobManager.jobScript, template substitution around formatArgs) runs with an argument, environment value or path made of 0..1 (2) arbitrary bytes followed by one of nine template-parameter names. Bounded, not a proof.",
         "Trusted: go/ssa lowering, symgo interpreter and term simplifier, z3, the 40-line POSIX de-quoter oracle. "
         "Outside: templates other than the SGE-like fixture, non-POSIX shells, NUL bytes.",
         "DESIGN.md §4 (C18)"),
}

# additions of later sessions: id -> (appended to the level text, appended to the level note)
ADDED = {
 "C01": (" Later additions: the top-level outputs of nested mapped calls, with the outer collection literal (H_C01_nested) or known only at run time incl. empty inner arrays (H_C01_dynamicNested: 0..2 / 0..3 elements per inner array), a struct member projected through CELL[][], map<CELL[]>, map<CELL>[] (H_C01_projectNested), and the 'undeclared fields dropped' clause through a typed map with mixed entries (H_C17_mapKeys).",
         " Fixed defects found by these harnesses: 2-D merge rejected, nested merge collecting the wrong forks (known_findings.json)."),
 "C02": (" The real-graph fixture also has a sub-pipeline disabled by another call's output, containing a stage that does not otherwise depend on that call.", ""),
 "C03": (" H_C03_disableSiblings: two sibling calls sharing the slice of inherited disabling conditions (0..4 (6) levels, spare capacity) keep their own conditions.", ""),
 "C04": (" H_C04_dynamicForks: forks created at run time (expandForks / cloneFork) keep the top-level / retain holds; H_C04_projectedHolds: files reached through a projection (typed map, array, struct, array of typed maps; 1..2 (3) arbitrary letter keys) stay attributed to the consumer's argument after the real removeEmptyFileArgs / cacheParamFileMap.", ""),
 "C05": (" Bounded resumed runs (H_C05_crashRun): a pipeline with a preflight, a chain through a splitting stage (2 chunks) and an independent stage is instantiated twice; the first object is run by the real StepNodes and killed after 0..7 (9) rounds with every job in flight at arbitrary progress; its metadata caches become an explicit disk; the second object is attached to it as mrp does (chunks rebuilt by updateId, RestoreForks, RestartRunningNodes, Reset, RestartLocalJobs, LoadMetadata, run loop), in local and in cluster mode: no recorded completion is executed again, a surviving cluster job is not resubmitted, every other job runs exactly once, the pipestance ends complete. H_C05_chunkIdentity (1..12 / 1..101 chunks) and H_C05_restoredForks (run-time typed-map forks rebuilt by RestoreForks).",
         " The crash model: a kill between two run-loop rounds (not between two file writes of mrp itself); expandForks is stubbed in the run harness."),
 "C06": (" H_C06_chunkOutputs: the real Chunk.verifyOutput on six kinds of chunk _outs at three enforcement levels (a rejected chunk never lets the join start); H_C05_chunkIdentity for the 'restarting re-executes only the failed work' clause.", ""),
 "C07": (" Further enumerated shapes: map call over 11 collection types x 8 parameter types (element type rule), pairs of split arguments (array versus map), projections through arrays / typed maps / arrays of typed maps, 16 literals, missing / unknown parameters and non-existent outputs, pipeline input -> stage input, stage output -> pipeline output, sub-pipeline output -> stage input; a member projected through nested collections resolves at run time (H_C01_projectNested).",
         " The shape quantifier is enumerated (about 1600 compiles per run), delivered values are symbolic."),
 "C08": (" H_C09_topoSort runs under a declared step bound (verifStepLimit): a compile that does not terminate promptly is a fatal outcome, not a budget.", ""),
 "C09": (" One comment (0..1 (2) arbitrary printable bytes) at each of 20 places of a program and before every element of an array / map / struct literal (directly or followed by an empty line): never lost; in the places the property lists kept once and a fixed point.", ""),
 "C10": (" H_C10_nestedForkIds: static expansion of nested map calls whose inner key set depends on the outer fork, under arbitrary iteration order of every map touched; the self-compile fixtures include a dependency cycle and a program with several independent errors (error text compared under two map orders).", ""),
 "C12": (" The Enqueue harness also runs with the address-space limit below the memory limit.", ""),
 "C13": (" Further leaf kinds: a file in a sub-directory and a relative link to an earlier output's file (a chain of relative links through directories of different depth); H_C13_outNames: two outputs of a struct / stage / pipeline deriving the same path under outs/ are a compile error (8 pairs x 3 scopes).", ""),
 "C14": (" H_C14_killTwice: two strict-mode passes of the real vdrKillSome with removeFilePostNodes in between: the cumulative report counts every reclaimed path once.", ""),
 "C15": (" Whole programs compiled from text: 17 x 17 parameter types passed between two stages (Ast.EquivalentCall accepts exactly when equal up to file-type names) and 8 variants of a struct definition under the same name.", ""),
 "C16": (" Mapped arguments of 9 parameter shapes over an array or a map of values (compile against the stage, same values back); a struct argument whose members are a struct, a typed map of structs, an array of structs, a typed map and an untyped map, raw or decoded (the per-fork invocation); JSON string escapes: \\uXXXX with four symbolic hex digits, arbitrary surrogate pairs, the two-character escapes.", ""),
 "C17": (" H_C17_mapKeys: typed map of structs with 1..2 keys of 1 (2) arbitrary ASCII bytes incl. control characters (escape-aware reference decoder that rejects raw control characters), mixed null / extra-field / plain values; H_C17_intLiterals: a concrete table of 28 number literals around 2^53 and 2^63 filtered to int (replayed natively against the real encoding/json).", ""),
 "C19": (" H_C19_edits: 14 operations (remove input; rename input / output of a stage, a sub-pipeline, the top-level pipeline; rename stage / pipeline) x 16 program variants, Refactor -> apply to a fresh parse -> format -> recompile -> compare resolved call graphs modulo the renamed identifier / removed input; H_C19_editPairs: two renames in one request, both orders.", ""),
}

NOT_APPLICABLE = {
}

PENDING = {}
for i in range(1, 20):
    pid = "C%02d" % i
    if pid not in CLAIMED and pid not in NOT_APPLICABLE:
        PENDING[pid] = "check not built yet in this session (planned, see DESIGN.md §9); not claimed until it runs clean"

def main():
    checks = []
    for pid in sorted(CLAIMED):
        text, note, ref = CLAIMED[pid]
        if pid in ADDED:
            text += ADDED[pid][0]
            note += ADDED[pid][1]
        checks.append({
            "property_id": pid,
            "quick_cmd": "./vcheck %s quick" % pid,
            "thorough_cmd": "./vcheck %s thorough" % pid,
            "evidence_file": "/verif/evidence/%s.json" % pid,
            "replay_cmd_template": "cat {path}",
            "engine": "symgo",
            "level_claimed": {"category": "model_checking", "text": text, "design_ref": ref},
            "level_note": note,
            "technique": TECH,
        })
    na = [{"property_id": p, "reason": r} for p, r in sorted({**NOT_APPLICABLE, **PENDING}.items())]
    m = {
        "version": 1,
        "setup_cmd": "./setup.sh",
        "hooks": {
            "guard": "verif",
            "enable": "harnesses are injected by overlay (packages.Config.Overlay / go test -overlay) and built with -tags verif; no hook file exists in /repo",
            "baseline_off_cmd": "cd /repo && go test -vet=off -count=1 ./...",
            "source_commits": [],
            "add_only": True,
        },
        "engines": [{"name": "symgo", "path": "/verif/engine", "serves_properties": sorted(CLAIMED),
                     "kind_free_text": "symbolic executor for go/ssa written for this task; SMT-LIB2 over pipes to z3/cvc5"}],
        "checks": checks,
        "not_applicable": na,
        "notes": "exit codes of ./vcheck: 0 = all obligations inside the bound discharged (KNOWN-FINDING lines allowed); 1 = replay-confirmed counterexample (VIOLATION line); 2 = harness does not build against the tree or is vacuous; 3 = inconclusive only. Fix commits in /repo: see known_findings.json.",
    }
    json.dump(m, open(os.path.join(V, "MANIFEST.json"), "w"), indent=1)
    print("MANIFEST.json: %d checks, %d not applicable" % (len(checks), len(na)))

main()
