#!/usr/bin/env python3
"""addfinding.py <property> <id> <status known|fixed> <commit or -> <harness> <what>"""
import json,sys
prop,fid,status,commit,harness,what=sys.argv[1:7]
p='/verif/known_findings.json'
k=json.load(open(p))
k['findings']=[f for f in k['findings'] if f['id']!=fid]
e={"property":prop,"id":fid,"status":status}
if commit!='-': e["commit"]=commit
e["harness"]=harness; e["what"]=what
e["line"]=("fixed: property=%s %s %s"%(prop,commit,what)) if status=='fixed' else ("KNOWN-FINDING: property=%s %s"%(prop,what))
k['findings'].append(e)
json.dump(k,open(p,'w'),indent=1,ensure_ascii=False); print(len(k['findings']))
