#!/bin/bash
# try_seed.sh <seed name> <property> [tier]: apply a seeded change to /repo, run the check, undo.
NAME=$1; P=$2; T=${3:-quick}
if [ -n "$(git -C /repo status --porcelain)" ]; then echo "/repo not clean"; exit 9; fi
git -C /repo apply /verif/seeded/$NAME/patch.diff || exit 9
mkdir -p /tmp/base
cp /verif/evidence/$P.json /tmp/base/$P.evidence.keep 2>/dev/null
(cd /verif && ./vcheck $P $T > /tmp/base/$NAME.$P.log 2>&1); rc=$?
git -C /repo checkout -- .
cp /tmp/base/$P.evidence.keep /verif/evidence/$P.json 2>/dev/null
echo "$NAME $P $T rc=$rc"; grep -m3 "VIOLATION\|violated\|FAIL" /tmp/base/$NAME.$P.log | cut -c1-300
exit $rc
