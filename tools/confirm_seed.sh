#!/bin/bash
# confirm_seed.sh <id> <seed worktree> <name>: extract patch + demo from an agent's worktree,
# confirm (build, suite passes with change, demo fails with / passes without) in a fresh worktree,
# and store under /verif/seeded/<name>/.
set -u
ID=$1; SRC=$2; NAME=${3:-$1}
export GOFLAGS=-mod=mod GOPROXY=off GOSUMDB=off GOTOOLCHAIN=local
OUT=/verif/seeded/$NAME; mkdir -p $OUT
cd $SRC || exit 2; git diff -- . ":(exclude)*zz_seed_demo*" > /dev/null
git diff -- . ':(exclude)*zz_seed_demo*' > $OUT/patch.diff
DEMOS=$(git ls-files --others --exclude-standard | grep -E '_test\.go$|demo' | grep -v SEED_REPORT)
mkdir -p $OUT/demo
for d in $DEMOS; do mkdir -p $OUT/demo/$(dirname $d); cp $d $OUT/demo/$d; done
cp SEED_REPORT.md $OUT/SEED_REPORT.md 2>/dev/null
W=/tmp/confirm_$NAME
git -C /repo worktree remove --force $W 2>/dev/null
git -C /repo worktree add --detach $W HEAD -q || exit 2
cd $W
RES=$OUT/confirm.log; : > $RES
# base commit of the seed worktree may predate later fix commits: apply with 3-way fallback
if git apply $OUT/patch.diff 2>>$RES; then echo "patch applies to /repo HEAD" >> $RES; else echo "PATCH DOES NOT APPLY to /repo HEAD" >> $RES; fi
go build ./... >>$RES 2>&1 && echo "BUILD ok" >> $RES || echo "BUILD FAILED" >> $RES
go test -vet=off -count=1 ./martian/... ./cmd/... >/tmp/confirm_$NAME.suite 2>&1
if grep -q "^FAIL" /tmp/confirm_$NAME.suite; then
  # retry flaky mrjob alone
  go test -vet=off -count=1 ./cmd/mrjob >/tmp/confirm_$NAME.mrjob 2>&1
  if grep -v "cmd/mrjob" /tmp/confirm_$NAME.suite | grep -q "^FAIL" || grep -q "^FAIL" /tmp/confirm_$NAME.mrjob; then echo "SUITE FAILS with change" >> $RES; grep "^FAIL\|^---" /tmp/confirm_$NAME.suite | head >> $RES; else echo "SUITE passes with change (mrjob retried)" >> $RES; fi
else echo "SUITE passes with change" >> $RES; fi
for d in $DEMOS; do mkdir -p $(dirname $d); cp $OUT/demo/$d $d; done
PKGS=$(for d in $DEMOS; do echo ./$(dirname $d); done | sort -u)
go test -vet=off -count=1 -run 'Seed|seed|Demo' $PKGS >/tmp/confirm_$NAME.demo1 2>&1
if grep -q "^FAIL\|^--- FAIL" /tmp/confirm_$NAME.demo1; then echo "DEMO fails with change (expected)" >> $RES; else echo "DEMO DOES NOT FAIL with change" >> $RES; fi
git apply -R $OUT/patch.diff 2>>$RES
go test -vet=off -count=1 -run 'Seed|seed|Demo' $PKGS >/tmp/confirm_$NAME.demo0 2>&1
if grep -q "^FAIL\|^--- FAIL" /tmp/confirm_$NAME.demo0; then echo "DEMO FAILS WITHOUT change" >> $RES; tail -5 /tmp/confirm_$NAME.demo0 >> $RES; else echo "DEMO passes without change (expected)" >> $RES; fi
cd /; git -C /repo worktree remove --force $W
cat $RES
