package main

// C06 — bounded automatic retry (cmd/mrp attemptRetry).
//
// The run loop calls attemptRetry each time the pipestance is found failed.
// The classification of the failure (Pipestance.IsErrorTransient) is an
// arbitrary verdict per call; restarting is recorded.
//
//	C06: a failure that is not transient is never retried; transient failures
//	     are retried at most --autoretry times in total, after which
//	     attemptRetry gives up (so that mrp ends failed and reports the error);
//	     an --inspect (read-only) mrp never retries.

import (
	"context"
	"runtime/trace"

	"github.com/martian-lang/martian/martian/api"
	"github.com/martian-lang/martian/martian/core"
)

var (
	vrtTransient bool
	vrtRestarts  int
)

//verif:stub (*github.com/martian-lang/martian/martian/core.Pipestance).IsErrorTransient
func vrtIsErrorTransient(self *core.Pipestance) (bool, string) {
	if vrtTransient {
		return true, "signal: killed"
	}
	return false, "ValueError: bad input"
}

//verif:stub (*github.com/martian-lang/martian/martian/core.Pipestance).RefreshState
func vrtRefreshState(self *core.Pipestance, ctx context.Context) {}

//verif:stub (*github.com/martian-lang/martian/martian/core.Pipestance).CheckHeartbeats
func vrtCheckHeartbeats(self *core.Pipestance, ctx context.Context) {}

//verif:stub (*github.com/martian-lang/martian/martian/core.Pipestance).Unlock
func vrtUnlock(self *core.Pipestance) {}

// the restart itself (re-attach, Reset, LoadMetadata) is recorded
//
//verif:stub (*github.com/martian-lang/martian/cmd/mrp.pipestanceHolder).restart
func vrtRestart(self *pipestanceHolder, ctx context.Context) error {
	vrtRestarts++
	return nil
}

//verif:stub (*github.com/martian-lang/martian/cmd/mrp.pipestanceHolder).UpdateState
func vrtUpdateState(self *pipestanceHolder, state core.MetadataState) chan struct{} { return nil }

//verif:stub (*github.com/martian-lang/martian/cmd/mrp.pipestanceHolder).UpdateError
func vrtUpdateError(self *pipestanceHolder, message string) {}

//verif:stub github.com/martian-lang/martian/martian/util.LogInfo
func vrtLogInfo(component string, format string, v ...interface{}) {}

//verif:stub runtime/trace.NewTask
func vrtNewTask(pctx context.Context, taskType string) (context.Context, *trace.Task) {
	return pctx, nil
}

//verif:stub (*runtime/trace.Task).End
func vrtTaskEnd(t *trace.Task) {}

func H_C06_attemptRetry(failures int) {
	maxRetries := verifInt("autoretry")
	verifAssume(verifAll(maxRetries >= 0, maxRetries <= 3))
	maxRetries = verifConcretize(maxRetries)
	box := &pipestanceHolder{maxRetries: maxRetries, remainingRetries: maxRetries, info: &api.PipestanceInfo{}}
	box.readOnly = verifBool("inspect mode")
	ps := &core.Pipestance{}
	vrtRestarts = 0
	for i := 0; i < failures; i++ {
		// the pipestance is found failed once more
		vrtTransient = verifBool("failure is transient")
		before := vrtRestarts
		retried := attemptRetry(ps, box, context.Background())
		verifCover("retry decided")
		if retried {
			verifCover("retried")
			verifAssert(vrtTransient, "C06: a failure that is not transient is never retried automatically")
			verifAssert(!box.readOnly, "C06: an --inspect mrp never retries")
			verifAssert(vrtRestarts == before+1, "C06: a retry restarts the pipestance once")
		} else {
			verifAssert(vrtRestarts == before, "C06: when no retry is attempted nothing is restarted")
		}
		verifAssert(vrtRestarts <= maxRetries, "C06: at most --autoretry automatic retries are made in total; then mrp ends failed")
	}
}
