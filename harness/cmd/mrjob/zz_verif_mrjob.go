package main

// C05 / C06 — what the job monitor (mrjob) records when a termination signal
// reaches it.
//
// mrp decides what to re-execute after a restart from the sentinel files of
// each job; _errors outranks _complete.  The monitor's signal handler and its
// completion path are executed for real; writes to the metadata directory are
// recorded.

import (
	"syscall"

	"github.com/martian-lang/martian/martian/core"
)

var (
	vmjWrites  []core.MetadataFileName
	vmjSignal  bool // a signal arrives while the monitor waits for perf, after _complete
	vmjRunner  *runner
	vmjExited  bool
)

//verif:stub (*github.com/martian-lang/martian/cmd/mrjob.runner).done
func vmjDone(self *runner) {}

//verif:stub (*github.com/martian-lang/martian/cmd/mrjob.runner).sync
func vmjSync(self *runner) {}

//verif:stub (*github.com/martian-lang/martian/cmd/mrjob.runner).waitForPerf
func vmjWaitForPerf(self *runner) {
	if vmjSignal && !vmjExited {
		vmjSignal = false
		// ctrl-C on the process group, or pdeathsig when mrp dies
		self.HandleSignal(syscall.SIGTERM)
	}
}

//verif:stub os.Exit
func vmjExit(code int) { vmjExited = true }

//verif:stub (*github.com/martian-lang/martian/martian/core.Metadata).WriteRaw
func vmjWriteRaw(self *core.Metadata, name core.MetadataFileName, text string) error {
	vmjWrites = append(vmjWrites, name)
	return nil
}

//verif:stub (*github.com/martian-lang/martian/martian/core.Metadata).WriteTime
func vmjWriteTime(self *core.Metadata, name core.MetadataFileName) error {
	vmjWrites = append(vmjWrites, name)
	return nil
}

//verif:stub (*github.com/martian-lang/martian/martian/core.Metadata).UpdateJournal
func vmjUpdateJournal(self *core.Metadata, name core.MetadataFileName) error { return nil }

//verif:stub github.com/martian-lang/martian/martian/util.PrintInfo
func vmjPrintInfo(component string, format string, v ...interface{}) {}

// H_C05_signalAtCompletion(when): the stage code has finished successfully.
// A termination signal reaches the monitor before it records anything
// (when = 0), or after it wrote _complete while it is still waiting for its
// helpers to end (when = 1), or not at all (when = 2).
//
//	C05: a completion which has been recorded is not turned into a failure
//	     afterwards (mrp would execute the job again after a restart); a job
//	     interrupted before it completed records the interruption.
func H_C05_signalAtCompletion(when int) {
	vmjWrites, vmjExited = nil, false
	r := &runner{metadata: core.NewMetadata("ID.ps.P.S.fork0.chnk0", "/ps/P/S/fork0/chnk0"), runType: "main", jobInfo: &core.JobInfo{}}
	vmjRunner = r
	switch when {
	case 0:
		r.HandleSignal(syscall.SIGTERM)
		verifCover("signal before completion")
		n := 0
		for _, w := range vmjWrites {
			if w == core.Errors {
				n++
			}
		}
		verifAssert(n == 1, "C06: a job interrupted by a signal records the interruption as its error")
	default:
		vmjSignal = when == 1
		r.Complete()
		verifCover("completion recorded")
		complete, errorsAfter := false, false
		for _, w := range vmjWrites {
			if w == core.CompleteFile {
				complete = true
			} else if w == core.Errors && complete {
				errorsAfter = true
			}
		}
		verifAssert(complete, "a job whose stage code succeeded within its quotas records its completion")
		verifAssert(!errorsAfter, "C05: once a job has recorded its completion, a termination signal does not record a failure on top of it (the completed job would be executed again after the restart)")
	}
}
