//verif:native-env

package core

// C16 — MRO call text and invocation JSON convert into each other without
// loss, through the real BuildCallAst / convertToExp / fixExpressionTypes /
// Ast.Format / parser / BuildDataForAst (no encoding/json on this path: JSON
// values are read with the MRO expression parser).
//
// The callable is compiled from the text below by the real compiler.  The
// invocation arguments are arbitrary: a string of n arbitrary bytes, digits,
// a struct, a typed map, an array (with fixed numbers), a boolean or null.
//
//	invocation JSON -> call text -> invocation JSON is the identity on values
//	(the doc comment of InvocationDataFromSource), the type-directed
//	struct / map decision follows the declared parameter types, and the text is
//	a fixed point of format.

import (
	"bytes"
	"encoding/json"
	"errors"
	"unicode/utf8"

	"github.com/martian-lang/martian/martian/syntax"
)

const c16Src = `
struct ST(
    int a,
    int b,
)

struct OUTER(
    ST       one,
    map<ST>  by_key,
    ST[]     list,
    map<int> counts,
    map      bag,
)

stage S(
    in  string   s,
    in  int      i,
    in  ST       st,
    in  map<int> m,
    in  int[]    arr,
    in  bool     flag,
    in  ST[]     sts,
    in  map      um,
    in  map<ST>  ms,
    in  OUTER    built,
    in  map<ST>[]   msa,
    in  map<ST[]>[] mssa,
    in  map<ST>[][] msaa,
    out int      o,
    src comp     "bin",
)
`

// encoding/json is used on this path for one thing only: peeling the
// {"split": ...} wrapper of a mapped argument.  Reference decoder for exactly
// that shape (the native replay uses the real encoding/json).
//
//verif:stub encoding/json.Unmarshal
func c16Unmarshal(data []byte, v any) error {
	if p, ok := v.(*struct {
		Split json.RawMessage `json:"split"`
	}); ok {
		d := bytes.TrimSpace(data)
		const pre = `{"split":`
		if len(d) > len(pre)+1 && string(d[:len(pre)]) == pre && d[len(d)-1] == '}' {
			p.Split = json.RawMessage(bytes.TrimSpace(d[len(pre) : len(d)-1]))
			return nil
		}
		return errors.New("json: not a split wrapper")
	}
	panic("json model: unsupported Unmarshal target")
}

// a value of struct OUTER (keys in the order the formatter writes them)
const c16Built = `{"bag":{"q":{"z":1}},"by_key":{"k 1":{"a":1,"b":2}},"counts":{"c d":3},"list":[{"a":4,"b":5}],"one":{"a":6,"b":7}}`

type c16Fixture struct {
	callable syntax.Callable
	lookup   *syntax.TypeLookup
}

func c16Callable() *c16Fixture {
	return verifCached("c16Callable", func() any {
		var parser syntax.Parser
		_, _, ast, err := parser.ParseSourceBytes([]byte(c16Src), "/m/s.mro", nil, false)
		if err != nil {
			panic("fixture does not compile: " + err.Error())
		}
		return &c16Fixture{ast.Callables.Table["S"], &ast.TypeTable}
	}).(*c16Fixture)
}

// numbers are concrete here: integer text <-> value conversion of symbolic
// digits is the subject of H_C16_scalarsJSON / H_C09_intRoundTrip
func c16Digit(name string) []byte {
	return []byte{"3175208469"[len(name)%10]}
}

func c16Cat(parts ...[]byte) json.RawMessage {
	var out []byte
	for _, p := range parts {
		out = append(out, p...)
	}
	return json.RawMessage(out)
}

func c16Strip(b []byte) []byte {
	var out []byte
	inStr := false
	for i := 0; i < len(b); i++ {
		c := b[i]
		if inStr {
			out = append(out, c)
			if c == '\\' && i+1 < len(b) {
				i++
				out = append(out, b[i])
			} else if c == '"' {
				inStr = false
			}
			continue
		}
		if c == '"' {
			inStr = true
		}
		if c != ' ' && c != '\n' && c != '\t' {
			out = append(out, c)
		}
	}
	return out
}

// H_C16_invocationLoop(n, flagKind, splitKind): splitKind 0/1/2 = no mapped
// argument / m and arr mapped, listed in declaration order / listed reversed;
// flagKind 0/1/2 = false/true/null; with
// flagKind 1 the struct and map arguments arrive as Go maps instead of raw JSON.
func H_C16_invocationLoop(n int, flagKind int, splitKind int) {
	fx := c16Callable()
	s := verifString("s", n)
	// invocation data is JSON: its strings are Unicode text (what an MRO
	// literal denoting other bytes turns into is the C09 finding)
	verifAssume(utf8.ValidString(s))
	var sj bytes.Buffer
	(&syntax.StringExp{Value: s}).EncodeJSON(&sj)
	a, b, i, k, e0, e1, sa, sb := c16Digit("st.a"), c16Digit("st.b"), c16Digit("i"), c16Digit("m.k"), c16Digit("arr0"), c16Digit("arr1"), c16Digit("sts.a"), c16Digit("sts.b")
	flag := [][]byte{[]byte("false"), []byte("true"), []byte("null")}[flagKind]
	args := MarshalerMap{
		"s":    json.RawMessage(sj.Bytes()),
		"i":    json.RawMessage(i),
		"st":   c16Cat([]byte(`{"a":`), a, []byte(`,"b":`), b, []byte(`}`)),
		"m":    c16Cat([]byte(`{"key":`), k, []byte(`}`)),
		"arr":  c16Cat([]byte(`[`), e0, []byte(`,`), e1, []byte(`]`)),
		"flag": json.RawMessage(flag),
		"sts":  c16Cat([]byte(`[{"a":`), sa, []byte(`,"b":`), sb, []byte(`}]`)),
		"um":   c16Cat([]byte(`{"x":`), k, []byte(`}`)),
		"ms":   c16Cat([]byte(`{"w":{"a":`), sa, []byte(`,"b":`), sb, []byte(`}}`)),
		"built": json.RawMessage(c16Built),
		"msa":   c16Cat([]byte(`[{"k1":{"a":`), sa, []byte(`,"b":`), sb, []byte(`},"sample 2":{"a":1,"b":2}},{}]`)),
		"mssa":  c16Cat([]byte(`[{"k1":[{"a":`), sa, []byte(`,"b":`), sb, []byte(`}]}]`)),
		"msaa":  c16Cat([]byte(`[[{"k1":{"a":`), sa, []byte(`,"b":`), sb, []byte(`}}],[]]`)),
	}
	// mapped (split) arguments: none, listed in declaration order (m, arr), or
	// listed the other way round
	var splitargs []string
	if splitKind != 0 {
		args["m"] = c16Cat([]byte(`{"split":{"key":`), k, []byte(`}}`))
		args["arr"] = c16Cat([]byte(`{"split":[`), e0, []byte(`,`), e1, []byte(`]}`))
		splitargs = []string{"m", "arr"}
		if splitKind == 2 {
			splitargs = []string{"arr", "m"}
		}
	}
	raw := map[string]json.RawMessage{}
	for key, v := range args {
		raw[key] = v.(json.RawMessage)
	}
	if flagKind == 1 {
		// the same values handed over as already decoded maps, as API callers do
		args["st"] = MarshalerMap{"a": json.RawMessage(a), "b": json.RawMessage(b)}
		if splitKind == 0 {
			args["m"] = LazyArgumentMap{"key": json.RawMessage(k)}
		}
		args["um"] = LazyArgumentMap{"x": json.RawMessage(k)}
	}
	ast, err := BuildCallAst("S", args, splitargs, fx.callable, fx.lookup, nil)
	verifAssert(err == nil, "C16: well-formed invocation data converts to a call")
	if err != nil {
		return
	}
	verifCover("call built")
	// the type-directed struct / map decision
	for _, bind := range ast.Call.Bindings.List {
		switch bind.Id {
		case "st":
			m, ok := bind.Exp.(*syntax.MapExp)
			verifAssert(ok && m.Kind == syntax.KindStruct, "C16: an object bound to a struct-typed parameter becomes a struct expression")
		case "m", "um":
			e := bind.Exp
			if sp, ok := e.(*syntax.SplitExp); ok {
				verifAssert(splitKind != 0 && bind.Id == "m", "C16: only mapped arguments become split expressions")
				e = sp.Value
			} else {
				verifAssert(splitKind == 0 || bind.Id == "um", "C16: a mapped argument becomes a split expression")
			}
			m, ok := e.(*syntax.MapExp)
			verifAssert(ok && m.Kind == syntax.KindMap, "C16: an object bound to a map-typed parameter stays a map expression")
		case "arr":
			_, isSplit := bind.Exp.(*syntax.SplitExp)
			verifAssert(isSplit == (splitKind != 0), "C16: exactly the mapped arguments become split expressions, whatever order they are listed in")
		case "sts":
			arr, ok := bind.Exp.(*syntax.ArrayExp)
			verifAssert(ok && len(arr.Value) == 1, "C16: an array stays an array")
			if ok && len(arr.Value) == 1 {
				m, ok := arr.Value[0].(*syntax.MapExp)
				verifAssert(ok && m.Kind == syntax.KindStruct, "C16: objects inside an array of structs become struct expressions")
			}
		case "s":
			se, ok := bind.Exp.(*syntax.StringExp)
			verifAssert(ok && se.Value == s, "C16: a JSON string converts to the string it denotes")
		}
	}
	text := ast.Format()
	var parser syntax.Parser
	ast2, err := parser.UncheckedParse([]byte(text), "/m/call.mro")
	verifAssert(err == nil, "C16: the generated call text parses")
	if err != nil {
		return
	}
	data, err := BuildDataForAst(ast2)
	verifAssert(err == nil && data != nil, "C16: the call text converts back to invocation data")
	if err != nil || data == nil {
		return
	}
	verifCover("round trip done")
	verifAssert(data.Call == "S", "C16: the call target survives")
	gotM, gotArr := false, false
	for _, sa := range data.SplitArgs {
		gotM = gotM || sa == "m"
		gotArr = gotArr || sa == "arr"
	}
	verifAssert(gotM == (splitKind != 0) && gotArr == (splitKind != 0) && len(data.SplitArgs) == len(splitargs), "C16: the mapped (split) status of every argument survives the round trip")
	for key, want := range raw {
		got, ok := data.Args[key]
		verifAssert(ok, "C16: every argument survives the round trip")
		if ok {
			verifAssert(verifBytesEq(c16Strip(got), c16Strip(want)), "C16: invocation JSON -> call text -> invocation JSON gives back every argument value")
		}
	}
	verifAssert(len(data.Args) == len(args), "C16: no argument is invented")
	// the text is a fixed point
	verifAssert(ast2.Format() == text, "C16/C09: the generated call text is a fixed point of format")
}

// ---- mapped (split) arguments of every parameter shape ----

var c16SplitParams = []struct {
	name  string
	value string // one value of the parameter's type
}{
	{"i", `7`},
	{"st", `{"a":1,"b":2}`},
	{"m", `{"key":3}`},
	{"arr", `[4,5]`},
	{"sts", `[{"a":6,"b":7}]`},
	{"um", `{"x":8}`},
	{"ms", `{"r2":{"a":3,"b":4},"run 1":{"a":1,"b":2}}`},
	{"s", `"text"`},
	{"built", c16Built},
	{"msa", `[{"k1":{"a":1,"b":2},"sample 2":{"a":3,"b":4}}]`},
	{"mssa", `[{"k1":[{"a":1,"b":2}]}]`},
	{"msaa", `[[{"k1":{"a":1,"b":2}}]]`},
}

// H_C16_splitShapes(p, over): parameter p of the stage is mapped: the
// invocation gives {"split": [v, v']} (over = 0: an array of values, the
// second one null or empty where the type allows) or {"split": {"k": v}}
// (over = 1: a map of values); every other argument is plain.
//
//	C16: the call text built from the invocation compiles against the stage
//	     and converts back to the same argument values with the same argument
//	     mapped.
func H_C16_splitShapes(pi, over int) {
	fx := c16Callable()
	sp := c16SplitParams[pi]
	args := MarshalerMap{}
	raw := map[string]json.RawMessage{}
	for _, q := range c16SplitParams {
		raw[q.name] = json.RawMessage(q.value)
	}
	raw["flag"] = json.RawMessage("true")
	if over == 0 {
		raw[sp.name] = json.RawMessage(`{"split":[` + sp.value + `,null]}`)
	} else {
		raw[sp.name] = json.RawMessage(`{"split":{"k 2":null,"k1":` + sp.value + `}}`)
	}
	for k, v := range raw {
		args[k] = v
	}
	ast, err := BuildCallAst("S", args, []string{sp.name}, fx.callable, fx.lookup, nil)
	verifAssert(err == nil, "C16: well-formed invocation data with a mapped argument converts to a call")
	if err != nil {
		return
	}
	verifCover("mapped call built")
	text := ast.Format()
	// the generated call compiles against the stage it calls
	var parser syntax.Parser
	// (the text starts with an @include of the stage's file: here the stage
	// declaration itself takes its place)
	callText := text
	for len(callText) > 0 && (callText[0] == '@' || callText[0] == '\n') {
		nl := bytes.IndexByte([]byte(callText), '\n')
		if nl < 0 {
			break
		}
		callText = callText[nl+1:]
	}
	_, _, _, err = parser.ParseSourceBytes([]byte(c16Src+"\n"+callText), "/m/call.mro", nil, false)
	verifAssert(err == nil, "C16: the call text generated from invocation data compiles against the stage")
	if err != nil {
		return
	}
	// and back (as InvocationDataFromSource does for an uncompiled call)
	ast2, err := parser.UncheckedParse([]byte(text), "/m/call.mro")
	verifAssert(err == nil, "C16: the generated call text parses")
	if err != nil {
		return
	}
	data, err := BuildDataForAst(ast2)
	verifAssert(err == nil && data != nil, "C16: the call text converts back to invocation data")
	if err != nil || data == nil {
		return
	}
	verifCover("mapped round trip done")
	verifAssert(len(data.SplitArgs) == 1 && data.SplitArgs[0] == sp.name, "C16: the mapped (split) status of every argument survives the round trip")
	for key, want := range raw {
		got, ok := data.Args[key]
		verifAssert(ok, "C16: every argument survives the round trip")
		if ok {
			verifAssert(verifBytesEq(c16Strip(got), c16Strip(want)), "C16: invocation JSON -> call text -> invocation JSON gives back every argument value, mapped arguments included")
		}
	}
}

// H_C16_structMembers(form): the argument `built` of struct type OUTER — whose
// members are a struct, a typed map of structs, an array of structs, a typed
// map of ints and an untyped map — handed to BuildCallAst as raw JSON (form 0),
// as a decoded map whose members are raw JSON (form 1: what mrp has when a
// stage argument is a struct literal with members bound to upstream outputs,
// and what it records as the fork's invocation), or decoded one level deeper
// (form 2).
//
//	C16: the call text compiles against the stage and converts back to the same
//	     value: each member is written according to its own declared type.
func H_C16_structMembers(form int) {
	fx := c16Callable()
	raw := map[string]json.RawMessage{}
	for _, q := range c16SplitParams {
		raw[q.name] = json.RawMessage(q.value)
	}
	raw["flag"] = json.RawMessage("true")
	args := MarshalerMap{}
	for k, v := range raw {
		args[k] = v
	}
	one := json.RawMessage(`{"a":6,"b":7}`)
	byKey := json.RawMessage(`{"k 1":{"a":1,"b":2}}`)
	list := json.RawMessage(`[{"a":4,"b":5}]`)
	counts := json.RawMessage(`{"c d":3}`)
	bag := json.RawMessage(`{"q":{"z":1}}`)
	switch form {
	case 1:
		args["built"] = MarshalerMap{"one": one, "by_key": byKey, "list": list, "counts": counts, "bag": bag}
	case 2:
		args["built"] = MarshalerMap{
			"one":    LazyArgumentMap{"a": json.RawMessage("6"), "b": json.RawMessage("7")},
			"by_key": LazyArgumentMap{"k 1": json.RawMessage(`{"a":1,"b":2}`)},
			"list":   marshallerArray{json.RawMessage(`{"a":4,"b":5}`)},
			"counts": LazyArgumentMap{"c d": json.RawMessage("3")},
			"bag":    LazyArgumentMap{"q": json.RawMessage(`{"z":1}`)},
		}
	}
	ast, err := BuildCallAst("S", args, nil, fx.callable, fx.lookup, nil)
	verifAssert(err == nil, "C16: invocation data with a struct argument converts to a call")
	if err != nil {
		return
	}
	verifCover("struct argument call built")
	text := ast.Format()
	callText := text
	for len(callText) > 0 && (callText[0] == '@' || callText[0] == '\n') {
		nl := bytes.IndexByte([]byte(callText), '\n')
		if nl < 0 {
			break
		}
		callText = callText[nl+1:]
	}
	var parser syntax.Parser
	_, _, _, err = parser.ParseSourceBytes([]byte(c16Src+"\n"+callText), "/m/call.mro", nil, false)
	verifAssert(err == nil, "C16: the invocation recorded for a stage whose argument is a struct with map- and array-typed members is a compiling call of that stage")
	if err != nil {
		return
	}
	ast2, err := parser.UncheckedParse([]byte(text), "/m/call.mro")
	verifAssert(err == nil, "C16: the generated call text parses")
	if err != nil {
		return
	}
	data, err := BuildDataForAst(ast2)
	verifAssert(err == nil && data != nil, "C16: the call text converts back to invocation data")
	if err != nil || data == nil {
		return
	}
	verifCover("struct argument round trip done")
	for key, want := range raw {
		got, ok := data.Args[key]
		verifAssert(ok, "C16: every argument survives the round trip")
		if ok {
			verifAssert(verifBytesEq(c16Strip(got), c16Strip(want)), "C16: a struct argument with struct, typed-map, array and untyped-map members comes back unchanged")
		}
	}
}
