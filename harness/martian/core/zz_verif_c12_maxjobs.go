package core

import "sync"

// C12 (cluster mode) — MaxJobsSemaphore: the number of metadata objects
// holding the semaphore never exceeds Limit; Acquire true => member; false
// => unchanged; after Clear nothing is admitted.
//
// Not natively replayable: sync.Cond.Wait is modelled as "release the lock,
// let any other caller change the protected state subject to the invariant
// (havoc), re-acquire"; replay is in the interpreter.

var c12Files = []MetadataFileName{Errors, Assert, CompleteFile, DisabledFile, LogFile, JobInfoFile}

func c12Meta(name string) *Metadata {
	m := NewMetadata("ID.ps.P."+name, "/ps/P/"+name)
	for _, f := range c12Files {
		verifMapSetIf(m.contents, f, struct{}{}, verifBool(name+"."+string(f)))
	}
	return m
}

func c12HavocMeta(m *Metadata, name string) {
	for _, f := range c12Files {
		verifMapSetIf(m.contents, f, struct{}{}, verifBool(name+"."+string(f)+"'"))
	}
}

type c12Jobs struct {
	sem  *MaxJobsSemaphore
	ms   []*Metadata
	in   []bool
	lim0 int
}

func c12Count(bs []bool) int {
	n := 0
	for _, b := range bs {
		n += verifIteInt(b, 1, 0)
	}
	return n
}

func c12JobsPre() *c12Jobs {
	j := &c12Jobs{}
	lim := verifInt("limit")
	verifAssume(verifAll(lim >= 0, lim <= 3))
	sem := &MaxJobsSemaphore{running: make(map[*Metadata]struct{}), Limit: lim}
	sem.cond = sync.NewCond(&sem.lock)
	names := []string{"m1", "m2", "m3"}
	for _, n := range names {
		m := c12Meta(n)
		b := verifBool("in." + n)
		verifMapSetIf(sem.running, m, struct{}{}, b)
		j.ms = append(j.ms, m)
		j.in = append(j.in, b)
	}
	// invariant: Limit == 0 (cleared) or at most Limit members
	verifAssume(verifAny(lim == 0, c12Count(j.in) <= lim))
	j.sem, j.lim0 = sem, lim
	return j
}

func (j *c12Jobs) member(i int) bool {
	_, ok := j.sem.running[j.ms[i]]
	return ok
}

func (j *c12Jobs) inv(label string) {
	n := 0
	for i := range j.ms {
		n += verifIteInt(j.member(i), 1, 0)
	}
	verifAssert(j.sem.Limit >= 0, label+": Limit >= 0")
	verifAssert(verifAny(j.sem.Limit == 0, n <= j.sem.Limit), label+": at most Limit jobs hold the semaphore")
	verifAssert(!verifMutexHeld(&j.sem.lock), label+": lock released")
}

// H_C12_jobsAcquire: Acquire (blocking or not) from an arbitrary valid state.
// While it waits on the condition variable other callers may do anything the
// invariant allows (membership, Limit cleared, metadata states).
func H_C12_jobsAcquire(nonblocking int) {
	j := c12JobsPre()
	target := verifInt("target")
	verifAssume(verifAll(target >= 0, target < 3))
	target = verifConcretize(target)
	m := j.ms[target]
	waits := 0
	verifOnCondWait(func() {
		waits++
		if waits > 2 {
			verifAssume(false) // bound: two wake-ups (each from an arbitrary state)
		}
		cleared := verifBool("cleared")
		if cleared {
			j.sem.Limit = 0
		}
		in := make([]bool, 3)
		for i, mm := range j.ms {
			in[i] = verifBool("in'")
			verifMapSetIf(j.sem.running, mm, struct{}{}, in[i])
			c12HavocMeta(mm, "h")
		}
		verifAssume(verifAny(j.sem.Limit == 0, c12Count(in) <= j.sem.Limit))
		for i := range in {
			j.in[i] = in[i]
		}
	})
	before := j.in[target]
	ok := j.sem.Acquire(m, nonblocking != 0)
	verifCover("jobs acquire returned")
	j.inv("jobsAcquire")
	if ok {
		verifAssert(j.member(target), "Acquire true => the job holds the semaphore")
	} else if waits == 0 {
		verifAssert(j.member(target) == before, "Acquire false => membership unchanged")
	}
	if waits > 0 {
		verifCover("jobs acquire waited")
	}
}

// H_C12_jobsRelease: Release / FindDone / Clear preserve the invariant.
func H_C12_jobsOther(op int) {
	j := c12JobsPre()
	switch op {
	case 0:
		target := verifInt("target")
		verifAssume(verifAll(target >= 0, target < 3))
		target = verifConcretize(target)
		j.sem.Release(j.ms[target])
		verifCover("jobs released")
		verifAssert(!j.member(target), "a released job no longer holds the semaphore")
	case 1:
		j.sem.FindDone()
		verifCover("jobs find done")
		for i, m := range j.ms {
			if j.member(i) {
				st, ok := m.getState()
				verifAssert(!ok || st == Running || st == Queued, "FindDone keeps only queued or running jobs")
			}
		}
	case 2:
		j.sem.Clear()
		verifCover("jobs cleared")
		verifAssert(j.sem.Limit == 0, "Clear sets Limit to 0")
		ok := j.sem.Acquire(j.ms[0], true)
		verifAssert(!ok, "after Clear nothing is admitted")
	}
	j.inv("jobsOther")
}
