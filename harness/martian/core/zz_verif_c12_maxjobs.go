package core

import (
	"context"
	"runtime/trace"
	"sync"
)

// C12 (cluster mode) — MaxJobsSemaphore: the number of metadata objects
// holding the semaphore never exceeds Limit; Acquire true => member; false
// => unchanged; after Clear nothing is admitted.
//
// Not natively replayable: sync.Cond.Wait is modelled as "release the lock,
// let any other caller change the protected state subject to the invariant
// (havoc), re-acquire"; replay is in the interpreter.

var c12Files = []MetadataFileName{Errors, Assert, CompleteFile, DisabledFile, LogFile, JobInfoFile}

func c12Meta(name string) *Metadata {
	m := NewMetadata("ID.ps.P."+name, "/ps/P/"+name)
	for _, f := range c12Files {
		verifMapSetIf(m.contents, f, struct{}{}, verifBool(name+"."+string(f)))
	}
	return m
}

func c12HavocMeta(m *Metadata, name string) {
	for _, f := range c12Files {
		verifMapSetIf(m.contents, f, struct{}{}, verifBool(name+"."+string(f)+"'"))
	}
}

type c12Jobs struct {
	sem  *MaxJobsSemaphore
	ms   []*Metadata
	in   []bool
	lim0 int
}

func c12Count(bs []bool) int {
	n := 0
	for _, b := range bs {
		n += verifIteInt(b, 1, 0)
	}
	return n
}

func c12JobsPre() *c12Jobs {
	j := &c12Jobs{}
	lim := verifInt("limit")
	verifAssume(verifAll(lim >= 0, lim <= 3))
	sem := &MaxJobsSemaphore{running: make(map[*Metadata]struct{}), Limit: lim}
	sem.cond = sync.NewCond(&sem.lock)
	names := []string{"m1", "m2", "m3"}
	for _, n := range names {
		m := c12Meta(n)
		b := verifBool("in." + n)
		verifMapSetIf(sem.running, m, struct{}{}, b)
		j.ms = append(j.ms, m)
		j.in = append(j.in, b)
	}
	// invariant: Limit == 0 (cleared) or at most Limit members
	verifAssume(verifAny(lim == 0, c12Count(j.in) <= lim))
	j.sem, j.lim0 = sem, lim
	return j
}

func (j *c12Jobs) member(i int) bool {
	_, ok := j.sem.running[j.ms[i]]
	return ok
}

func (j *c12Jobs) inv(label string) {
	n := 0
	for i := range j.ms {
		n += verifIteInt(j.member(i), 1, 0)
	}
	verifAssert(j.sem.Limit >= 0, label+": Limit >= 0")
	verifAssert(verifAny(j.sem.Limit == 0, n <= j.sem.Limit), label+": at most Limit jobs hold the semaphore")
	verifAssert(!verifMutexHeld(&j.sem.lock), label+": lock released")
}

// H_C12_jobsAcquire: Acquire (blocking or not) from an arbitrary valid state.
// While it waits on the condition variable other callers may do anything the
// invariant allows (membership, Limit cleared, metadata states).
func H_C12_jobsAcquire(nonblocking int) {
	j := c12JobsPre()
	target := verifInt("target")
	verifAssume(verifAll(target >= 0, target < 3))
	target = verifConcretize(target)
	m := j.ms[target]
	waits := 0
	verifOnCondWait(func() {
		waits++
		if waits > 2 {
			verifAssume(false) // bound: two wake-ups (each from an arbitrary state)
		}
		cleared := verifBool("cleared")
		if cleared {
			j.sem.Limit = 0
		}
		in := make([]bool, 3)
		for i, mm := range j.ms {
			in[i] = verifBool("in'")
			verifMapSetIf(j.sem.running, mm, struct{}{}, in[i])
			c12HavocMeta(mm, "h")
		}
		verifAssume(verifAny(j.sem.Limit == 0, c12Count(in) <= j.sem.Limit))
		for i := range in {
			j.in[i] = in[i]
		}
	})
	before := j.in[target]
	// does Release wake one waiter (Signal) or all of them (Broadcast)?
	scratch := NewMaxJobsSemaphore(1)
	b0 := verifCondBroadcasts()
	scratch.Release(m)
	wakesOne := verifCondBroadcasts() == b0
	sig0 := verifCondSignals()
	ok := j.sem.Acquire(m, nonblocking != 0)
	verifCover("jobs acquire returned")
	j.inv("jobsAcquire")
	if n := verifCondSignals(); n >= 0 && waits > 0 && wakesOne {
		// Release wakes exactly one waiter: a caller that consumed the wake-up
		// and then gives up, or succeeds, must pass the wake-up on: otherwise a
		// free slot can coexist with waiting jobs for ever
		verifAssert(n > sig0, "jobsAcquire: a woken caller signals the condition variable again before returning (no lost wake-up) (ghost)")
	}
	if ok {
		verifAssert(j.member(target), "Acquire true => the job holds the semaphore")
	} else if waits == 0 {
		verifAssert(j.member(target) == before, "Acquire false => membership unchanged")
	}
	if waits > 0 {
		verifCover("jobs acquire waited")
	}
}

// H_C12_jobsRelease: Release / FindDone / Clear preserve the invariant.
func H_C12_jobsOther(op int) {
	j := c12JobsPre()
	switch op {
	case 0:
		target := verifInt("target")
		verifAssume(verifAll(target >= 0, target < 3))
		target = verifConcretize(target)
		j.sem.Release(j.ms[target])
		verifCover("jobs released")
		verifAssert(!j.member(target), "a released job no longer holds the semaphore")
	case 1:
		j.sem.FindDone()
		verifCover("jobs find done")
		for i, m := range j.ms {
			if j.member(i) {
				st, ok := m.getState()
				verifAssert(!ok || st == Running || st == Queued, "FindDone keeps only queued or running jobs")
			}
		}
	case 2:
		j.sem.Clear()
		verifCover("jobs cleared")
		verifAssert(j.sem.Limit == 0, "Clear sets Limit to 0")
		ok := j.sem.Acquire(j.ms[0], true)
		verifAssert(!ok, "after Clear nothing is admitted")
	}
	j.inv("jobsOther")
}

// ---- RemoteJobManager.execJob / endJob: one slot per submitted job ----

var (
	c12Sent   []*Metadata
	c12Ended  []*Metadata
	c12RemMgr *RemoteJobManager
)

//verif:stub (*github.com/martian-lang/martian/martian/core.RemoteJobManager).sendJob
func c12SendJob(self *RemoteJobManager, shellCmd string, argv []string, envs map[string]string,
	metadata *Metadata, resRequest *JobResources, fqname string, shellName string, ctx context.Context) {
	for _, m := range c12Sent {
		verifAssert(m != metadata, "C12/C03: a job is sent to the cluster at most once")
	}
	c12Sent = append(c12Sent, metadata)
	if self.maxJobs > 0 {
		active := 0
		for _, m := range c12Sent {
			ended := false
			for _, e := range c12Ended {
				if e == m {
					ended = true
				}
			}
			if !ended {
				active++
			}
		}
		verifAssert(active <= self.maxJobs, "C12: the number of simultaneously submitted cluster jobs never exceeds --maxjobs")
	}
}

//verif:stub runtime/trace.NewTask
func c12NewTask(pctx context.Context, taskType string) (context.Context, *trace.Task) {
	return pctx, nil
}

//verif:stub (*runtime/trace.Task).End
func c12TaskEnd(t *trace.Task) {}

// H_C12_remoteExec(maxJobs): three jobs are handed to the real execJob one
// after the other; whenever a job has to wait for a slot, an arbitrary
// running job ends (the real endJob) — or none does and the wait is cut off.
func H_C12_remoteExec(maxJobs int) {
	c12Sent, c12Ended = nil, nil
	mgr := &RemoteJobManager{maxJobs: maxJobs}
	if maxJobs > 0 {
		mgr.jobSem = NewMaxJobsSemaphore(maxJobs)
	}
	c12RemMgr = mgr
	names := []string{"j1", "j2", "j3"}
	var ms []*Metadata
	for _, n := range names {
		ms = append(ms, NewMetadata("ID.ps.P."+n, "/ps/P/"+n))
	}
	verifOnCondWait(func() {
		// a job waits for a slot: some running job finishes now
		var running []*Metadata
		for _, m := range c12Sent {
			ended := false
			for _, e := range c12Ended {
				if e == m {
					ended = true
				}
			}
			if !ended {
				running = append(running, m)
			}
		}
		verifAssert(len(running) == maxJobs, "C12: a job only waits while every slot is taken")
		if len(running) == 0 {
			verifAssume(false)
		}
		k := verifInt("which job ends")
		verifAssume(verifAll(k >= 0, k < len(running)))
		k = verifConcretize(k)
		// it reports completion and the runtime releases its slot
		running[k].contents[CompleteFile] = struct{}{}
		c12Ended = append(c12Ended, running[k])
		mgr.endJob(running[k])
	})
	res := &JobResources{Threads: 1, MemGB: 1}
	for i, m := range ms {
		mgr.execJob("/bin/job", []string{"a"}, map[string]string{}, m, res, names[i], "main", false)
		n := verifNumSpawned()
		for g := 0; g < n; g++ {
			verifRunSpawned(g)
		}
	}
	verifCover("remote jobs submitted")
	verifAssert(len(c12Sent) == 3, "C12: every submitted job is eventually sent (no stall while jobs finish)")
	if maxJobs > 0 && len(c12Ended) > 0 {
		verifCover("remote job waited for a slot")
	}
}

// H_C12_jobsOrder: the limit is 1 and job A holds the slot; job W asks for it
// and waits.  While W waits, A is released and - before W has been scheduled
// again - a third job B asks for a slot.
//
//	C12: each resource is granted in request order: B, which asked after W,
//	     is not admitted ahead of it.
func H_C12_jobsOrder() {
	sem := NewMaxJobsSemaphore(1)
	mk := func(name string) *Metadata { return NewMetadata("ID.ps.P."+name, "/ps/P/"+name) }
	a, w, b := mk("A"), mk("W"), mk("B")
	sem.running[a] = struct{}{}
	waits := 0
	overtaken := false
	verifOnCondWait(func() {
		waits++
		switch waits {
		case 1:
			sem.Release(a)
			overtaken = sem.Acquire(b, true)
		case 2:
			// (if B was admitted, it finishes eventually)
			sem.Release(b)
		default:
			verifAssume(false) // bound: two schedulings of the other parties
		}
	})
	sem.Acquire(w, false)
	verifCover("a later request arrived while an earlier one waited")
	if verifKnown("C12-maxjobs-not-fifo") {
		return
	}
	verifAssert(!overtaken, "C12: a job slot freed while a request is waiting is not given to a request which arrived later")
}
