//verif:native

package core

import (
	"github.com/martian-lang/martian/martian/syntax"
)

// C01 — dataflow semantics: the fork-matching kernels that decide which
// upstream fork's outputs a consumer fork receives.

type c01Roots struct {
	calls []*syntax.CallStm
	split []*syntax.SplitExp
	nodes syntax.ForkRootList
}

// c01MakeRoots builds n mapped-call roots (array mode, 3 elements each).
func c01MakeRoots(n int) *c01Roots {
	r := &c01Roots{}
	names := []string{"A", "B", "C"}
	for i := 0; i < n; i++ {
		src := &syntax.ArrayExp{Value: make([]syntax.Exp, 3)}
		call := &syntax.CallStm{Id: names[i], DecId: names[i], Mapping: src}
		r.calls = append(r.calls, call)
		r.split = append(r.split, &syntax.SplitExp{Call: call, Source: src, Value: src})
		r.nodes = append(r.nodes, syntax.VerifStageNode("ID.ps.P."+names[i], call, nil, nil))
	}
	return r
}

// c01Part builds the part of a fork id for root i: kind 0 = array index
// (symbolic, 0..2), 1 = undetermined.
func (r *c01Roots) part(i int, name string, kind int) *ForkSourcePart {
	var id ForkIdPart
	switch kind {
	case 0:
		x := verifInt(name)
		verifAssume(verifAll(x >= 0, x <= 2))
		id = arrayIndexFork(x)
	default:
		id = undeterminedFork{}
	}
	return &ForkSourcePart{Split: r.split[i], Id: id}
}

// H_C01_matchForks: Node.matchForks returns exactly, in order, the forks of
// the node whose id Matches the query — for nf forks with arbitrary
// two-dimensional ids and a query over the first root, the second, or both —
// and leaves node.forks untouched.
func H_C01_matchForks(nf int, qshape int) {
	r := c01MakeRoots(2)
	node := &Node{forkRoots: r.calls}
	for i := 0; i < nf; i++ {
		id := ForkId{r.part(0, "fa", 0), r.part(1, "fb", 0)}
		node.forks = append(node.forks, &Fork{node: node, forkId: id, index: i})
	}
	before := append([]*Fork(nil), node.forks...)
	var q ForkId
	switch qshape {
	case 0:
		q = ForkId{r.part(0, "qa", 0)}
	case 1:
		q = ForkId{r.part(1, "qb", 0)}
	case 2:
		q = ForkId{r.part(0, "qa", 0), r.part(1, "qb", 0)}
	default:
		q = ForkId{r.part(0, "qa", 0), r.part(1, "qb", 1)}
	}
	var want []*Fork
	for _, f := range node.forks {
		if q.Matches(f.forkId) {
			want = append(want, f)
		}
	}
	got := node.matchForks(q)
	verifCover("forks matched")
	verifAssert(len(got) == len(want), "matchForks returns as many forks as match")
	if len(got) == len(want) {
		for i := range got {
			verifAssert(got[i] == want[i], "matchForks returns exactly the matching forks, in order")
		}
	}
	verifAssert(len(node.forks) == len(before), "matchForks leaves the node's fork list length alone")
	for i := range before {
		if i < len(node.forks) {
			verifAssert(node.forks[i] == before[i], "matchForks leaves the node's fork list alone")
		}
	}
}

// H_C01_unmatchedParts: ForkId.UnmatchedParts(upstream) returns exactly, in
// order, the upstream roots the id has no part for; which of the n roots the
// id has a part for is arbitrary.
func H_C01_unmatchedParts(n int) {
	r := c01MakeRoots2(n)
	var id ForkId
	have := 0
	for i := 0; i < n; i++ {
		if verifBool("has") {
			have |= 1 << i
			id = append(id, &ForkSourcePart{Split: r.split[i], Id: arrayIndexFork(0)})
		}
	}
	upstream := append(syntax.ForkRootList(nil), r.nodes...)
	before := append(syntax.ForkRootList(nil), upstream...)
	var want syntax.ForkRootList
	for i, nd := range upstream {
		if have&(1<<i) == 0 {
			want = append(want, nd)
		}
	}
	if len(id) == 0 {
		want = upstream
	}
	got := id.UnmatchedParts(upstream)
	verifCover("unmatched computed")
	verifAssert(len(got) == len(want), "UnmatchedParts returns as many roots as are unmatched")
	if len(got) == len(want) {
		for i := range got {
			verifAssert(got[i] == want[i], "UnmatchedParts returns exactly the unmatched roots, in order")
		}
	}
	for i := range before {
		verifAssert(upstream[i] == before[i], "UnmatchedParts leaves its argument alone")
	}
}

func c01MakeRoots2(n int) *c01Roots {
	r := &c01Roots{}
	names := []string{"A", "B", "C", "D", "E", "F"}
	for i := 0; i < n; i++ {
		src := &syntax.ArrayExp{Value: make([]syntax.Exp, 3)}
		call := &syntax.CallStm{Id: names[i], DecId: names[i], Mapping: src}
		r.calls = append(r.calls, call)
		r.split = append(r.split, &syntax.SplitExp{Call: call, Source: src, Value: src})
		r.nodes = append(r.nodes, syntax.VerifStageNode("ID.ps.P."+names[i], call, nil, nil))
	}
	return r
}

// H_C01_matchFork: a consumer fork with index ia on root A (and, per
// cshape, jb on root B or nothing) referring to a producer forked over A x B
// (3 x 3 forks): the producer fork it reads from has the consumer's own index
// on every shared root and the reference's explicit index on a root the
// consumer lacks; when no such fork exists the result is an error, never
// another fork.
func H_C01_matchFork(cshape int, refshape int) {
	r := c01MakeRoots(2)
	node := &Node{forkRoots: r.calls}
	node.call = syntax.VerifStageNode("ID.ps.P.PROD", &syntax.CallStm{Id: "PROD", DecId: "PROD"}, nil, nil)
	idx := 0
	for b := 0; b < 3; b++ {
		for a := 0; a < 3; a++ {
			id := ForkId{
				&ForkSourcePart{Split: r.split[0], Id: arrayIndexFork(a)},
				&ForkSourcePart{Split: r.split[1], Id: arrayIndexFork(b)},
			}
			node.forks = append(node.forks, &Fork{node: node, forkId: id, index: idx})
			node.forkIds.List = append(node.forkIds.List, id)
			idx++
		}
	}
	ia := verifInt("ia")
	verifAssume(verifAll(ia >= 0, ia <= 3)) // 3 is out of range
	consumer := ForkId{&ForkSourcePart{Split: r.split[0], Id: arrayIndexFork(ia)}}
	wantB, haveB := 0, false
	if cshape == 1 {
		jb := verifInt("jb")
		verifAssume(verifAll(jb >= 0, jb <= 3))
		consumer = append(consumer, &ForkSourcePart{Split: r.split[1], Id: arrayIndexFork(jb)})
		wantB, haveB = jb, true
	}
	var ref map[*syntax.CallStm]syntax.CollectionIndex
	if refshape == 1 {
		rb := verifInt("rb")
		verifAssume(verifAll(rb >= 0, rb <= 3))
		ref = map[*syntax.CallStm]syntax.CollectionIndex{r.calls[1]: arrayIndexFork(rb)}
		if !haveB {
			wantB, haveB = rb, true
		}
	}
	f, err := node.matchFork(ref, consumer)
	verifCover("fork matched")
	if !haveB {
		verifAssert(err != nil, "a consumer that determines no index for a producer root gets an error")
		return
	}
	if ia > 2 || wantB > 2 {
		verifAssert(err != nil, "an index outside the producer's forks is an error, not another fork")
		return
	}
	verifAssert(err == nil && f != nil, "a determined in-range reference resolves")
	if err == nil && f != nil {
		verifAssert(f.forkId[0].Id.ArrayIndex() == ia, "the producer fork has the consumer's index on the shared root")
		verifAssert(f.forkId[1].Id.ArrayIndex() == wantB, "the producer fork has the consumer's / the reference's index on the other root")
	}
}

// H_C01_matchesSymmetric: on fully determined ids over the same roots,
// Matches is symmetric and equals index equality on every root; Equal agrees.
func H_C01_matchesSymmetric() {
	r := c01MakeRoots(2)
	x := ForkId{r.part(0, "xa", 0), r.part(1, "xb", 0)}
	y := ForkId{r.part(0, "ya", 0), r.part(1, "yb", 0)}
	same := x[0].Id.ArrayIndex() == y[0].Id.ArrayIndex() && x[1].Id.ArrayIndex() == y[1].Id.ArrayIndex()
	verifCover("ids compared")
	verifAssert(x.Matches(y) == same, "Matches on determined ids is index equality on every root")
	verifAssert(y.Matches(x) == x.Matches(y), "Matches is symmetric on determined ids")
	verifAssert(x.Equal(y) == same, "Equal on determined ids is index equality on every root")
}

// H_C01_mergeArgs: the arguments a chunk job receives are the chunk
// definition's own arguments where present, else the stage's bound arguments;
// no key is invented or lost.  Keys are arbitrary 1-byte strings.
func H_C01_mergeArgs(nChunk int, nBind int) {
	chunk := &ChunkDef{Args: LazyArgumentMap{}}
	ck := make([]string, nChunk)
	for i := range ck {
		ck[i] = verifString("ck", 1)
		for j := 0; j < i; j++ {
			verifAssume(ck[i] != ck[j])
		}
		chunk.Args[ck[i]] = []byte{'1' + byte(i)}
	}
	bind := LazyArgumentMap{}
	bk := make([]string, nBind)
	for i := range bk {
		bk[i] = verifString("bk", 1)
		for j := 0; j < i; j++ {
			verifAssume(bk[i] != bk[j])
		}
		bind[bk[i]] = []byte{'a' + byte(i)}
	}
	merged := chunk.MergeArguments(bind)
	probe := verifString("probe", 1)
	got, present := merged.Args[probe]
	verifCover("merged")
	var want []byte
	for i := range bk {
		if probe == bk[i] {
			want = []byte{'a' + byte(i)}
		}
	}
	for i := range ck {
		if probe == ck[i] {
			want = []byte{'1' + byte(i)}
		}
	}
	verifAssert(present == (want != nil), "merged arguments have exactly the keys of the chunk definition and the bindings")
	if present && want != nil {
		verifAssert(string(got) == string(want), "the chunk definition's value wins over the binding")
	}
	// the inputs are not modified
	verifAssert(len(chunk.Args) == nChunk && len(bind) == nBind, "MergeArguments does not modify its inputs")
}

// H_C03_makeForkIds: static fork enumeration over an array root of na
// elements and a map root with nk distinct arbitrary 1-byte keys, whatever
// order the key map is iterated in: one fork id per combination, pairwise
// different, keys in sorted order (so fork numbering is reproducible).
func H_C03_makeForkIds(na int, nk int) {
	verifNondetMapOrder(true)
	arrSrc := &syntax.ArrayExp{Value: make([]syntax.Exp, na)}
	arrCall := &syntax.CallStm{Id: "A", DecId: "A", Mapping: arrSrc}
	arrNode := syntax.VerifStageNode("ID.ps.P.A", arrCall, nil, nil)
	syntax.VerifSetSplit(arrNode, &syntax.SplitExp{Call: arrCall, Source: arrSrc, Value: arrSrc})
	keys := make([]string, nk)
	mapSrc := &syntax.MapExp{Kind: syntax.KindMap, Value: map[string]syntax.Exp{}}
	for i := range keys {
		keys[i] = verifString("key", 1)
		for j := 0; j < i; j++ {
			verifAssume(keys[i] != keys[j])
		}
		mapSrc.Value[keys[i]] = &syntax.NullExp{}
	}
	mapCall := &syntax.CallStm{Id: "M", DecId: "M", Mapping: mapSrc}
	mapNode := syntax.VerifStageNode("ID.ps.P.M", mapCall, nil, nil)
	syntax.VerifSetSplit(mapNode, &syntax.SplitExp{Call: mapCall, Source: mapSrc, Value: mapSrc})
	var set ForkIdSet
	set.MakeForkIds(syntax.ForkRootList{arrNode, mapNode}, syntax.NewTypeLookup())
	verifCover("fork ids enumerated")
	// (na, nk >= 1: a statically empty source never reaches MakeForkIds — the
	// call graph prunes such calls as always disabled; checked natively)
	verifAssert(len(set.List) == na*nk, "C03: one fork per combination of element and key")
	if len(set.List) != na*nk {
		return
	}
	for i, id := range set.List {
		verifAssert(len(id) == 2, "C03: every fork id has a part for each root")
		verifAssert(id[0].Id.ArrayIndex() == i%na, "C03: array indices cycle fastest, in order")
		for j := 0; j < i; j++ {
			verifAssert(!id.Equal(set.List[j]), "C03: fork ids are pairwise different")
		}
		// every key is used, in ascending order (reproducible numbering)
		if i >= na {
			verifAssert(set.List[i-na][1].Id.MapKey() < id[1].Id.MapKey(), "C03/C10: map keys are enumerated in sorted order, independent of map iteration order")
		}
		found := false
		for _, k := range keys {
			found = found || id[1].Id.MapKey() == k
		}
		verifAssert(found, "C03: every fork key is a key of the source map")
	}
}

// ---- nested static forks whose inner key set depends on the outer fork ----

const vcNestedMapSrc = `
stage STAGE(
    in  int  num,
    src comp "mock",
)

pipeline INNER(
    in  map<int> nums,
)
{
    map call STAGE(
        num = split self.nums,
    )

    return ()
}

map call INNER(
    nums = split [
        {
            "only": 1,
        },
        {
            "delta": 4,
            "alpha": 1,
            "charlie": 3,
            "bravo": 2,
        },
        {
            "zulu": 1,
            "mike": 2,
        },
    ],
)
`

type vcNestedMap struct {
	ast   *syntax.Ast
	forks syntax.ForkRootList
}

// H_C10_nestedForkIds: the fork identifiers of a map call whose source map is
// an element of the array an enclosing pipeline is mapped over (static fork
// expansion, ForkId.expandStaticForkPart), under an arbitrary iteration order
// of every Go map touched while the identifiers are made.
//
//	C10/C03: the same identifiers in the same order whatever the iteration
//	     order (the position in the list is the fork index recorded in the
//	     pipestance), one per key of each outer element's map.
func H_C10_nestedForkIds() {
	fx := verifCached("vcNestedMap", func() any {
		var parser syntax.Parser
		_, _, ast, err := parser.ParseSourceBytes([]byte(vcNestedMapSrc), "/m/n.mro", nil, false)
		if err != nil {
			panic("fixture does not compile: " + err.Error())
		}
		graph, err := ast.MakePipelineCallGraph("", ast.Call)
		if err != nil {
			panic("fixture does not resolve: " + err.Error())
		}
		return &vcNestedMap{ast, graph.Children[0].ForkRoots()}
	}).(*vcNestedMap)
	// reference: the identifiers as made under the engine's fixed (insertion)
	// iteration order
	var ref ForkIdSet
	ref.MakeForkIds(fx.forks, &fx.ast.TypeTable)
	verifNondetMapOrder(true)
	var ids ForkIdSet
	ids.MakeForkIds(fx.forks, &fx.ast.TypeTable)
	verifNondetMapOrder(false)
	verifCover("nested fork ids enumerated")
	want := []string{
		"fork0/fork_only",
		"fork1/fork_alpha", "fork1/fork_bravo", "fork1/fork_charlie", "fork1/fork_delta",
		"fork2/fork_mike", "fork2/fork_zulu",
	}
	verifAssert(len(ids.List) == len(want) && len(ref.List) == len(want), "C03: one fork per key of each outer element's map")
	seen := map[string]bool{}
	for i, id := range ids.List {
		s, err := id.ForkIdString()
		verifAssert(err == nil, "every fork id has a name")
		seen[s] = true
		if i < len(ref.List) {
			r, _ := ref.List[i].ForkIdString()
			verifAssert(s == r, "C10: fork identifiers come in the same order (hence get the same fork index) whatever the map iteration order")
		}
	}
	for _, w := range want {
		verifAssert(seen[w], "C03: every key of every outer element's map has its fork")
	}
}
