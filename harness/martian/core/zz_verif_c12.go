//verif:native

package core

// C12 — resource limits are never exceeded and never stall the pipestance.
//
// One-step induction: the pre-state of the semaphore is arbitrary subject to
// the representation invariant semInv; one operation with arbitrary
// arguments (within the documented caller contract) is executed from the real
// code; the invariant and the operation's contract are asserted afterwards.
// Every operation is atomic under mu, so any interleaving of callers is a
// sequence of such steps.

const c12Bound = int64(1) << 40

func c12Closed(ch chan struct{}) bool {
	select {
	case <-ch:
		return true
	default:
		return false
	}
}

type c12State struct {
	s      *ResourceSemaphore
	chans  []chan struct{}
	amt    []int64
	locks0 int
	max0   int64
	cur0   int64
	res0   int64
}

// c12Pre builds an arbitrary semaphore with k waiters satisfying semInv.
func c12Pre(k int) *c12State {
	st := &c12State{}
	max := verifInt64("max")
	cur := verifInt64("cur")
	res := verifInt64("res")
	verifAssume(verifAll(max >= 0, max <= c12Bound))
	verifAssume(verifAll(cur >= -c12Bound, cur <= max))
	verifAssume(verifAll(res >= 0, res <= max))
	s := &ResourceSemaphore{
		Formatter: func(int64) string { return "" },
		maxSize:   max, curSize: cur, reserved: res,
	}
	for i := 0; i < k; i++ {
		a := verifInt64("amount")
		verifAssume(verifAll(a >= 0, a <= max))
		ch := make(chan struct{})
		s.waiters = append(s.waiters, waiter{ready: ch, amount: a})
		st.chans = append(st.chans, ch)
		st.amt = append(st.amt, a)
	}
	if k > 0 {
		// no lost wake-up: the oldest waiter does not fit
		verifAssume(cur-res < st.amt[0])
	}
	st.s, st.max0, st.cur0, st.res0 = s, max, cur, res
	st.locks0 = verifLockCount()
	return st
}

// c12Post asserts the representation invariant and the FIFO grant contract:
// the waiters granted by the step are a prefix of the queue, each closed
// exactly once, the reservation grew by exactly their amounts (plus delta),
// and the remaining head does not fit.
func (st *c12State) c12Post(delta int64, label string) {
	s := st.s
	// the one-step argument needs every operation to be ONE critical section:
	// an unlock/re-lock window inside an operation lets a Release slip in
	// unseen (lost wake-up)
	if n := verifLockCount(); n >= 0 {
		verifAssert(n-st.locks0 == 1, label+": the operation is a single critical section under mu, no unlock/re-lock window (ghost)")
	}
	verifAssert(!verifMutexHeld(&s.mu), label+": mutex released")
	verifAssert(s.maxSize == st.max0, label+": maxSize unchanged")
	verifAssert(verifAll(s.reserved >= 0, s.reserved <= s.maxSize), label+": 0 <= reserved <= maxSize")
	verifAssert(s.curSize <= s.maxSize, label+": curSize <= maxSize")
	granted := 0
	sum := int64(0)
	prefix := true
	for i, ch := range st.chans {
		if c12Closed(ch) {
			verifAssert(prefix, label+": grants are a prefix of the queue (FIFO)")
			granted++
			sum += st.amt[i]
		} else {
			prefix = false
		}
	}
	verifAssert(s.reserved == st.res0+delta+sum, label+": reservation grew by exactly the granted amounts")
	verifAssert(len(s.waiters) >= len(st.chans)-granted, label+": ungranted waiters stay queued")
	if len(s.waiters) > 0 {
		verifAssert(s.curSize-s.reserved < s.waiters[0].amount, label+": the oldest waiter does not fit (no lost wake-up)")
	}
	for i := granted; i < len(st.chans); i++ {
		j := i - granted
		if j < len(s.waiters) {
			verifAssert(s.waiters[j].amount == st.amt[i], label+": queue order preserved")
		}
	}
}

// H_C12_acquire: Acquire(n) from an arbitrary valid state with k waiters.
func H_C12_acquire(k int) {
	st := c12Pre(k)
	n := verifInt64("n")
	verifAssume(verifAll(n >= 0, n <= c12Bound))
	var err error
	blocked, _ := verifTry(func() { err = st.s.Acquire(n) })
	s := st.s
	if blocked {
		verifCover("acquire blocks")
		verifAssert(len(s.waiters) == k+1, "a blocked Acquire is queued")
		if len(s.waiters) == k+1 {
			verifAssert(s.waiters[k].amount == n, "a blocked Acquire is queued last with its amount")
			if k == 0 {
				// the new waiter becomes the head and must not fit
				verifAssert(st.cur0-st.res0 < n, "Acquire blocks only if the request does not fit or others wait")
			}
		}
		verifAssert(n <= st.max0, "a request above the maximum is never queued")
		// the queue seen by c12Post must not include the new waiter's channel
		st.c12Post(0, "acquire(blocked)")
	} else if err != nil {
		verifCover("acquire error")
		verifAssert(n > st.max0, "Acquire fails only for requests above the maximum")
		verifAssert(len(s.waiters) == k, "a failed Acquire changes nothing")
		st.c12Post(0, "acquire(error)")
	} else {
		verifCover("acquire immediate")
		verifAssert(k == 0, "Acquire returns at once only when nobody waits (FIFO)")
		verifAssert(st.cur0-st.res0 >= n, "Acquire returns at once only when the request fits")
		st.c12Post(n, "acquire(immediate)")
	}
}

// H_C12_release: Release(n) with n previously granted (0 <= n <= reserved).
func H_C12_release(k int) {
	st := c12Pre(k)
	n := verifInt64("n")
	verifAssume(verifAll(n >= 0, n <= st.res0))
	st.s.Release(n)
	verifCover("released")
	st.c12Post(-n, "release")
}

// H_C12_updateActual: UpdateActual(n) with an arbitrary observation n.
func H_C12_updateActual(k int) {
	st := c12Pre(k)
	n := verifInt64("n")
	verifAssume(verifAll(n >= -c12Bound, n <= c12Bound))
	st.s.UpdateActual(n)
	verifCover("actual updated")
	st.c12Post(0, "updateActual")
}

// H_C12_updateSize: UpdateSize(n), caller contract n <= maxSize.
func H_C12_updateSize(k int) {
	st := c12Pre(k)
	n := verifInt64("n")
	verifAssume(verifAll(n >= -c12Bound, n <= st.max0))
	st.s.UpdateSize(n)
	verifCover("size updated")
	st.c12Post(0, "updateSize")
}

// H_C12_updateFreeUsed: UpdateFreeUsed(free, used) with arbitrary observations.
func H_C12_updateFreeUsed(k int) {
	st := c12Pre(k)
	free := verifInt64("free")
	used := verifInt64("used")
	verifAssume(verifAll(free >= 0, free <= c12Bound, used >= 0, used <= c12Bound))
	st.s.UpdateFreeUsed(free, used)
	verifCover("free/used updated")
	st.c12Post(0, "updateFreeUsed")
}

// H_C12_new: a fresh semaphore satisfies the invariant, and InUse/Available
// report what the fields say.
func H_C12_new() {
	size := verifInt64("size")
	verifAssume(verifAll(size >= 0, size <= c12Bound))
	s := NewResourceSemaphore(size, func(int64) string { return "" })
	verifCover("new")
	verifAssert(verifAll(s.maxSize == size, s.curSize == size, s.reserved == 0, len(s.waiters) == 0), "new semaphore is empty with full capacity")
	verifAssert(verifAll(s.InUse() == 0, s.Available() == size, s.Reserved() == 0, s.CurrentSize() == size, s.QueueLength() == 0), "accessors agree with the state")
	verifAssert(!verifMutexHeld(&s.mu), "accessors release the mutex")
}
