//verif:native

package core

// C14 — report merging: the pipestance-level and node-level VDR reports are
// exactly the sum of what the forks reported.
//
// k reports (some nil) with arbitrary size, count, 0..1 path, 0..1 error and
// 0..2 events each; event instants are drawn (symbolically) from a table that
// contains two instants within one second, one in the next second and one
// later; deltas are arbitrary.  Real code: mergeVDRKillReports,
// VDRKillReport.mergeEvents.

import "time"

var c14Instants = [4]time.Time{
	time.Unix(1000, 0),
	time.Unix(1000, 400000000),
	time.Unix(1001, 200000000),
	time.Unix(1003, 0),
}

func c14Instant(tag string) (time.Time, int) {
	i := verifInt(tag)
	verifAssume(verifAll(i >= 0, i < 4))
	i = verifConcretize(i)
	return c14Instants[i], i
}

func H_C14_mergeReports(k int, nev int) {
	var reports []*VDRKillReport
	var size uint64
	var count uint
	var paths, errs []string
	var delta int64
	maxStamp := -1
	events := 0
	for r := 0; r < k; r++ {
		// callers may pass nil reports, but never as the first one (the
		// function reads killReports[0].Events before its nil check)
		if r > 0 && verifBool("report is nil") {
			reports = append(reports, nil)
			continue
		}
		rep := &VDRKillReport{}
		rep.Size = uint64(verifInt64("size"))
		rep.Count = uint(verifInt64("count"))
		size += rep.Size
		count += rep.Count
		if verifBool("has path") {
			p := "/ps/S" + string(rune('0'+r)) + "/fork0/files/x"
			rep.Paths = append(rep.Paths, p)
			paths = append(paths, p)
		}
		if verifBool("has error") {
			e := "error " + string(rune('0'+r))
			rep.Errors = append(rep.Errors, e)
			errs = append(errs, e)
		}
		st, si := c14Instant("report time")
		rep.Timestamp = WallClockTime(st)
		if si > maxStamp {
			maxStamp = si
		}
		for e := 0; e < nev; e++ {
			if e > 0 && !verifBool("second event") {
				break
			}
			t, _ := c14Instant("event time")
			d := verifInt64("delta")
			verifAssume(verifAll(d > -(1<<40), d < 1<<40))
			rep.Events = append(rep.Events, &VdrEvent{Timestamp: t, DeltaBytes: d})
			delta += d
			events++
		}
		reports = append(reports, rep)
	}
	m := mergeVDRKillReports(reports)
	verifCover("reports merged")
	verifAssert(m != nil, "C14: a merged report is always produced")
	verifAssert(m.Size == size, "C14: the merged report's size is the sum of the reports' sizes")
	verifAssert(m.Count == count, "C14: the merged report's count is the sum of the reports' counts")
	verifAssert(len(m.Paths) == len(paths), "C14: the merged report lists every removed path exactly once")
	for i := range paths {
		if i < len(m.Paths) {
			verifAssert(m.Paths[i] == paths[i], "C14: the merged report lists the removed paths in report order")
		}
	}
	verifAssert(len(m.Errors) == len(errs), "C14: the merged report keeps every error exactly once")
	for i := range errs {
		if i < len(m.Errors) {
			verifAssert(m.Errors[i] == errs[i], "C14: errors are kept in report order")
		}
	}
	if maxStamp >= 0 {
		verifAssert(time.Time(m.Timestamp).Equal(c14Instants[maxStamp]), "C14: the merged report carries the latest timestamp")
	}
	var sum int64
	for i, ev := range m.Events {
		sum += ev.DeltaBytes
		if i > 0 {
			prev := m.Events[i-1]
			verifAssert(!ev.Timestamp.Before(prev.Timestamp), "C14: merged events are in time order")
			if prev.Timestamp.Truncate(time.Second).Equal(ev.Timestamp.Truncate(time.Second)) {
				verifCover("two events in one second")
			}
		}
	}
	verifAssert(sum == delta, "C14: merging events preserves the total number of bytes freed")
	verifAssert(len(m.Events) <= events, "C14: merging never invents events")
	if events > 0 {
		verifAssert(len(m.Events) > 0, "C14: events are not dropped")
		if len(m.Events) < events {
			verifCover("events merged")
		}
	}
}
