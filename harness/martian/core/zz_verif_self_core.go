//verif:native-env

package core

// Translator self-test for the runtime's graph construction (C02/C03/C04/C10):
// test pipelines of the repository are instantiated by the real compiler and
// runtime (Runtime.instantiatePipeline) inside the engine — under two map
// iteration orders — and by the native replay of the same harness; a rendering
// of every node (prenodes, forks and their ids, file keep-alive relation) must
// agree.  The stubs below describe the environment the native run finds too:
// the pipestance directory and the stage code do not exist.

import (
	"context"
	"errors"
	"os"
	"runtime/trace"
	"sort"
)

//verif:stub os.Stat
func vscStat(name string) (os.FileInfo, error) { return nil, errors.New("no such file") }

//verif:stub os.ReadFile
func vscReadFile(name string) ([]byte, error) { return nil, os.ErrNotExist }

//verif:stub runtime/trace.StartRegion
func vscStartRegion(ctx context.Context, regionType string) *trace.Region { return nil }

//verif:stub (*runtime/trace.Region).End
func vscRegionEnd(r *trace.Region) {}

var vscFiles = []string{
	"martian/core/testdata/struct_pipeline.mro",
	"martian/core/testdata/simple_struct_pipeline.mro",
	"martian/core/testdata/map_call_edge_cases.mro",
	"martian/syntax/testdata/map_call_test.mro",
	"martian/syntax/testdata/disable_pipeline.mro",
	"martian/syntax/testdata/resolve_test.mro",
}

func vscSum(s string) string {
	h := uint64(14695981039346656037)
	for i := 0; i < len(s); i++ {
		h ^= uint64(s[i])
		h *= 1099511628211
	}
	const hex = "0123456789abcdef"
	out := make([]byte, 16)
	for i := 15; i >= 0; i-- {
		out[i] = hex[h&15]
		h >>= 4
	}
	return string(out)
}

func vscHolder(n Nodable) string {
	if n == nil || n.getNode() == nil {
		return "<top>"
	}
	return n.GetFQName()
}

func vscRender(src []byte) string {
	conf := DefaultRuntimeOptions()
	conf.VdrMode = VdrRolling
	rt := Runtime{Config: &conf, LocalJobManager: &LocalJobManager{jobSettings: new(JobManagerSettings)}}
	rt.JobManager = rt.LocalJobManager
	_, _, ps, err := rt.instantiatePipeline(src, "/m/self.mro", "ps", "/nonexistent/ps", nil, "none", nil, false, true, context.Background())
	if err != nil {
		return "fails with " + vscSum(err.Error())
	}
	all := ps.node.top.allNodes
	names := make([]string, 0, len(all))
	for k := range all {
		names = append(names, k)
	}
	sort.Strings(names)
	var out []byte
	for _, fq := range names {
		n := all[fq]
		kind := n.call.Kind()
		out = append(out, (fq + " " + kind.String() + "\n")...)
		pre := make([]string, 0, len(n.prenodes))
		for k := range n.prenodes {
			pre = append(pre, k)
		}
		sort.Strings(pre)
		for _, p := range pre {
			out = append(out, ("  after " + p + "\n")...)
		}
		for _, d := range n.directPrenodes {
			out = append(out, ("  returns " + d.GetFQName() + "\n")...)
		}
		for _, f := range n.forks {
			out = append(out, ("  fork " + f.fqname + " " + f.forkId.GoString() + "\n")...)
			args := make([]string, 0, len(f.fileArgs))
			for a := range f.fileArgs {
				args = append(args, a)
			}
			sort.Strings(args)
			for _, a := range args {
				hs := make([]string, 0, len(f.fileArgs[a]))
				for h := range f.fileArgs[a] {
					hs = append(hs, vscHolder(h))
				}
				sort.Strings(hs)
				for _, h := range hs {
					out = append(out, ("    file " + a + " held by " + h + "\n")...)
				}
			}
			posts := make([]string, 0, len(f.filePostNodes))
			for p := range f.filePostNodes {
				posts = append(posts, vscHolder(p))
			}
			sort.Strings(posts)
			for _, p := range posts {
				out = append(out, ("    post " + p + "\n")...)
			}
		}
	}
	return "gives " + vscSum(string(out))
}

const vscStaticMapSrc = `
stage W(
    in  int x,
    in  int y,
    out int o,
    src comp "bin",
)

stage S(
    in  map<int> os,
    in  int[]    ps,
    out int      o,
    src comp     "bin",
)

pipeline P(
    out int o,
)
{
    map call W(
        x = split {
            "zeta":  1,
            "alpha": 2,
            "mid":   3,
        },
        y = 4,
    )

    map call W as V(
        x = split [
            7,
            8,
        ],
        y = 5,
    )

    call S(
        os = W.o,
        ps = V.o,
    )

    return (
        o = S.o,
    )
}

call P()
`

// the fixture texts of the other harness families are instantiated here too
var vscTexts = []string{vscStaticMapSrc, vsRealSrc, vdRealSrc, vrSrc, vrNestedSrc, vrMixSrc}

func H_SELF_instantiate(i int) {
	var src []byte
	name := ""
	if i < len(vscFiles) {
		src = verifRepoFile(vscFiles[i])
		name = vscFiles[i]
	} else {
		src = []byte(vscTexts[i-len(vscFiles)])
		name = "fixture text " + string(rune('0'+i-len(vscFiles)))
	}
	verifReverseMapOrder(false)
	a := vscRender(src)
	verifReverseMapOrder(true)
	b := vscRender(src)
	verifReverseMapOrder(false)
	// ascending and descending by key: these do not cancel out when one map
	// is filled by ranging over another
	verifKeyMapOrder(1)
	c := vscRender(src)
	verifKeyMapOrder(-1)
	d := vscRender(src)
	verifKeyMapOrder(0)
	verifAssert(a == b && a == c && a == d, "C10: the node graph the runtime builds does not depend on map iteration order (ghost)")
	verifCover("self-test instantiated")
	verifCover("self-test instantiate " + name + " " + a)
}
