package core

// C06 / C12 — LocalJobManager.Enqueue: what happens to a local job process
// that fails, and the acquire/release discipline around it.
//
// The job process itself (executeLocal) is replaced by a stub with an
// arbitrary outcome per attempt: success, the "errno 513" spawn failure the
// code retries on, or any other failure; and, independently, whether the job
// managed to write its own _errors before dying.  The goroutine and the
// retry timer are recorded and run by the harness, one at a time.
//
//	C06: when the last attempt failed, _errors exists afterwards (written by
//	     the job, or else by the manager), so the failure is seen by the
//	     runtime; the manager never overwrites the job's own _errors; a failure
//	     that is not the spawn failure is never silently re-run; the number of
//	     re-runs is bounded by maxRetries.
//	C12: while the job runs its clamped request is reserved on every
//	     configured resource and every reservation is within that resource's
//	     limit; whatever the outcome, every reservation is released when the
//	     attempt ends (deferred release), and success is notified.

import (
	"context"
	"errors"
	"io/fs"
	"math"
	"os"
	"os/exec"
	"runtime/trace"
	"time"
)

var (
	vlWrites      []string
	vlErrorsExist bool
	vlTimers      []func()
	vlExecs       int
	vlMgr         *LocalJobManager
	vlPre         [4]int64
	vlNeed        [4]int64
	vlLastOutcome int
)

//verif:stub os.WriteFile
func vlWriteFile(name string, data []byte, perm os.FileMode) error {
	vlWrites = append(vlWrites, name)
	return nil
}

//verif:stub os.ReadFile
func vlReadFile(name string) ([]byte, error) {
	if vlErrorsExist {
		return []byte("job's own error"), nil
	}
	return nil, &fs.PathError{Op: "open", Path: name, Err: fs.ErrNotExist}
}

//verif:stub os/exec.Command
func vlCommand(name string, arg ...string) *exec.Cmd { return &exec.Cmd{Path: name, Args: arg} }

//verif:stub github.com/martian-lang/martian/martian/util.MergeEnv
func vlMergeEnv(envs map[string]string) []string { return nil }

//verif:stub github.com/martian-lang/martian/martian/util.LogInfo
func vlLogInfo(component string, format string, v ...interface{}) {}

//verif:stub github.com/martian-lang/martian/martian/util.LogError
func vlLogError(err error, component string, format string, v ...interface{}) {}

//verif:stub time.AfterFunc
func vlAfterFunc(d time.Duration, f func()) *time.Timer {
	verifAssert(d > 0, "C06: a retry is scheduled in the future")
	vlTimers = append(vlTimers, f)
	return nil
}

//verif:stub runtime/trace.StartRegion
func vlStartRegion(ctx context.Context, regionType string) *trace.Region { return nil }

//verif:stub (*runtime/trace.Region).End
func vlRegionEnd(r *trace.Region) {}

func vlSems() [4]*ResourceSemaphore {
	return [4]*ResourceSemaphore{vlMgr.centcoreSem, vlMgr.memMBSem, vlMgr.vmemMBSem, vlMgr.procsSem}
}

// the job process: observes the reservations held while it runs
//
//verif:stub github.com/martian-lang/martian/martian/core.executeLocal
func vlExecuteLocal(cmd *exec.Cmd, stdoutPath, stderrPath string, localpreflight bool, metadata *Metadata) error {
	vlExecs++
	for i, s := range vlSems() {
		if s == nil {
			continue
		}
		verifAssert(s.reserved <= s.maxSize, "C12: the reservations of running local jobs never exceed the configured limit")
		if i < 2 {
			verifAssert(s.reserved == vlPre[i]+vlNeed[i], "C12: while the job runs its clamped request is reserved for it")
		} else {
			verifAssert(s.reserved >= vlPre[i], "C12: while the job runs its request is reserved for it")
		}
	}
	if verifBool("job wrote its own _errors") {
		vlErrorsExist = true
	}
	o := verifInt("outcome")
	verifAssume(verifAll(o >= 0, o <= 2))
	o = verifConcretize(o)
	vlLastOutcome = o
	switch o {
	case 0:
		return nil
	case 1:
		return errors.New("fork/exec /bin/job: " + exitCodeString)
	}
	return errors.New("exit status 1")
}

var vlRequests = []JobResources{
	{Threads: 1, MemGB: 1},
	{Threads: 0.5, MemGB: 0.3},
	{Threads: 0, MemGB: 0},
	{Threads: 64, MemGB: 1000, VMemGB: 2000},
	{Threads: -1, MemGB: -2},
	{Threads: 2.01, MemGB: 7.9999, VMemGB: 1},
}

// H_C06_enqueue(req, conf): req indexes the (floating-point, hence concrete)
// request table; conf bit 0 = vmem semaphore configured, bit 1 = process
// semaphore configured, bit 2 = the vmem limit (4 GB) is below the memory limit
// (8 GB) instead of above it (16 GB).
func H_C06_enqueue(req int, conf int) {
	vlWrites, vlTimers, vlExecs, vlErrorsExist, vlLastOutcome = nil, nil, 0, false, -1
	const maxCores, maxMemGB = 4, 8
	mgr := &LocalJobManager{
		jobSettings: &JobManagerSettings{ThreadsPerJob: 1, MemGBPerJob: 2, ExtraVmemGB: 1},
		jobDone:     make(chan struct{}, 1),
		maxCores:    maxCores, maxMemGB: maxMemGB,
	}
	vlMgr = mgr
	nop := func(int64) string { return "" }
	mgr.centcoreSem = &ResourceSemaphore{Formatter: nop, maxSize: maxCores * 100, curSize: maxCores * 100}
	mgr.memMBSem = &ResourceSemaphore{Formatter: nop, maxSize: maxMemGB * 1024, curSize: maxMemGB * 1024}
	if conf&1 != 0 {
		mgr.maxVmemMB = 16 * 1024
		if conf&4 != 0 {
			// an address-space limit below the memory limit
			mgr.maxVmemMB = 4 * 1024
		}
		mgr.vmemMBSem = &ResourceSemaphore{Formatter: nop, maxSize: mgr.maxVmemMB, curSize: mgr.maxVmemMB}
	}
	if conf&2 != 0 {
		mgr.procsSem = &ResourceSemaphore{Formatter: nop, maxSize: 1000, curSize: 1000}
	}
	request := vlRequests[req]
	res := mgr.GetSystemReqs(&request)
	vlNeed = [4]int64{int64(math.Ceil(res.Threads * 100)), int64(math.Ceil(res.MemGB * 1024)), 0, 0}
	verifAssert(vlNeed[0] <= maxCores*100, "C12: a job asking for more threads than the limit is clamped to it")
	verifAssert(vlNeed[1] <= maxMemGB*1024, "C12: a job asking for more memory than the limit is clamped to it")
	verifAssert(verifAll(vlNeed[0] > 0, vlNeed[1] > 0), "C12: every job reserves something")
	// other jobs already hold an arbitrary part of every resource, leaving room
	// for this one (waiting for room is the semaphore's business: H_C12_*)
	for i, s := range vlSems() {
		if s == nil {
			continue
		}
		held := verifInt64("held by other jobs")
		room := vlNeed[i]
		switch i {
		case 2:
			room = int64(math.Ceil(res.VMemGB)) * 1024
		case 3:
			room = procsPerJob + maxCores + 1
		}
		verifAssert(room <= s.maxSize, "C12: a job asking for more of a resource than its limit is clamped to the limit (its request can be granted)")
		verifAssume(verifAll(held >= 0, held <= s.maxSize-room))
		s.reserved = held
		vlPre[i] = held
	}
	md := NewMetadata("ID.ps.P.S.fork0.chnk0", "/ps/S/fork0/chnk0")
	errorsPath := md.MetadataFilePath(Errors)

	retries0 := verifInt("retries so far")
	verifAssume(verifAll(retries0 >= 0, retries0 <= maxRetries))
	retries0 = verifConcretize(retries0)
	wait0 := 0
	if retries0 > 0 {
		wait0 = 2 << (retries0 - 1)
	}
	mgr.Enqueue("/bin/job", []string{"a"}, map[string]string{}, md, &request, "ID.ps.P.S", retries0, wait0, false)

	for attempts := 0; attempts < maxRetries+3; attempts++ {
		before := vlExecs
		n := verifNumSpawned()
		for i := 0; i < n; i++ {
			// a no-op for a goroutine which has already run
			verifRunSpawned(i)
		}
		if len(vlTimers) > 0 {
			f := vlTimers[0]
			vlTimers = vlTimers[1:]
			f()
		}
		if vlExecs == before {
			break
		}
		// one attempt ended: everything it reserved is released again
		for i, s := range vlSems() {
			if s != nil {
				verifAssert(s.reserved == vlPre[i], "C12: every reservation is released when the attempt ends, whatever its outcome")
				verifAssert(len(s.waiters) == 0, "C12: nothing is left waiting")
			}
		}
		if vlLastOutcome == 2 {
			verifAssert(len(vlTimers) == 0 && verifNumSpawned() == n, "C06: a job which failed for another reason than the spawn failure is not silently re-run")
		}
	}
	verifCover("job manager quiescent")
	verifAssert(vlExecs >= 1, "C06/C12: the job ran (no resource request is refused)")
	verifAssert(vlExecs <= maxRetries+1-retries0, "C06: the number of automatic re-runs is bounded by maxRetries")
	managerWrote := false
	for _, w := range vlWrites {
		if w == errorsPath {
			managerWrote = true
		} else {
			verifAssert(false, "C06: the job manager writes no other file")
		}
	}
	if vlLastOutcome == 0 {
		verifCover("job succeeded")
		verifAssert(len(mgr.jobDone) == 1, "C06: the run loop is notified of a finished job")
		verifAssert(!managerWrote, "C06: no _errors is written for a job which succeeded")
	} else {
		verifCover("job failed")
		verifAssert(vlErrorsExist || managerWrote, "C06: a job process which failed leaves _errors behind: written by the manager when the job did not")
		if vlErrorsExist {
			verifCover("job wrote _errors itself")
			verifAssert(!managerWrote, "C06: the manager does not overwrite the _errors the job wrote")
		}
	}
}
