package core

// C14 — the real cleanSplitTemp / cleanChunkTemp / cleanJoinTemp on a small
// file-system model: which directories are gone afterwards, what the partial
// report counts, and what happens when an earlier clean-up was interrupted
// half-way (some temporary directories already missing, no report written).

import (
	"os"
	"path/filepath"
	"time"
)

// vtFS is the set of existing paths with their sizes; a directory has the
// size 0 here (the accounting of the code under test only adds sizes).
var (
	vtFS      map[string]int64
	vtDirs    map[string]bool
	vtRemoved []string
	vtWrote   []MetadataFileName
)

func vtUnder(p, dir string) bool {
	return len(p) > len(dir) && p[:len(dir)] == dir && p[len(dir)] == '/'
}

func vtAdd(p string, size int64, dir bool) {
	vtFS[p] = size
	if dir {
		vtDirs[p] = true
	}
}

//verif:stub github.com/martian-lang/martian/martian/util.Readdirnames
func vtReaddirnames(dir string) ([]string, error) {
	if !vtDirs[dir] {
		return nil, &os.PathError{Op: "open", Path: dir, Err: os.ErrNotExist}
	}
	var names []string
	for p := range vtFS {
		if vtUnder(p, dir) {
			rest := p[len(dir)+1:]
			direct := true
			for i := 0; i < len(rest); i++ {
				if rest[i] == '/' {
					direct = false
				}
			}
			if direct {
				names = append(names, rest)
			}
		}
	}
	// directory order is not specified; the callers do not depend on it
	for i := 1; i < len(names); i++ {
		for j := i; j > 0 && names[j] < names[j-1]; j-- {
			names[j], names[j-1] = names[j-1], names[j]
		}
	}
	return names, nil
}

//verif:stub github.com/martian-lang/martian/martian/util.Walk
func vtWalk(root string, walkFn filepath.WalkFunc) error {
	if _, ok := vtFS[root]; !ok {
		return walkFn(root, nil, &os.PathError{Op: "lstat", Path: root, Err: os.ErrNotExist})
	}
	var paths []string
	for p := range vtFS {
		if p == root || vtUnder(p, root) {
			paths = append(paths, p)
		}
	}
	for i := 1; i < len(paths); i++ {
		for j := i; j > 0 && paths[j] < paths[j-1]; j-- {
			paths[j], paths[j-1] = paths[j-1], paths[j]
		}
	}
	for _, p := range paths {
		if err := walkFn(p, vkInfo{vtFS[p]}, nil); err != nil {
			return err
		}
	}
	return nil
}

//verif:stub os.RemoveAll
func vtRemoveAll(p string) error {
	vtRemoved = append(vtRemoved, p)
	for q := range vtFS {
		if q == p || vtUnder(q, p) {
			delete(vtFS, q)
			delete(vtDirs, q)
		}
	}
	return nil
}

//verif:stub os.Lstat
func vtLstat(p string) (os.FileInfo, error) {
	if s, ok := vtFS[p]; ok {
		return vkInfo{s}, nil
	}
	return nil, &os.PathError{Op: "lstat", Path: p, Err: os.ErrNotExist}
}

//verif:stub (*github.com/martian-lang/martian/martian/core.Metadata).getStartTime
func vtStartTime(self *Metadata) time.Time { return time.Time{} }

//verif:stub time.Now
func vtNow() time.Time { return time.Time{} }

//verif:stub github.com/martian-lang/martian/martian/util.EnterCriticalSection
func vtEnterCS() {}

//verif:stub github.com/martian-lang/martian/martian/util.ExitCriticalSection
func vtExitCS() {}

//verif:stub github.com/martian-lang/martian/martian/util.LogInfo
func vtLogInfo(component string, format string, v ...interface{}) {}

var vtLastPartial *PartialVdrKillReport

//verif:stub (*github.com/martian-lang/martian/martian/core.Metadata).Write
func vtMetaWrite(self *Metadata, name MetadataFileName, object interface{}) error {
	vtWrote = append(vtWrote, name)
	if p, ok := object.(*PartialVdrKillReport); ok && name == PartialVdr {
		// the file as the next reader finds it
		c := *p
		vtLastPartial = &c
		self.contents[PartialVdr] = struct{}{}
	}
	return nil
}

//verif:stub (*github.com/martian-lang/martian/martian/core.Metadata).ReadInto
func vtReadInto(self *Metadata, name MetadataFileName, target interface{}) error {
	if p, ok := target.(*PartialVdrKillReport); ok && name == PartialVdr && vtLastPartial != nil {
		*p = *vtLastPartial
		return nil
	}
	return &os.PathError{Op: "open", Path: string(name), Err: os.ErrNotExist}
}

// vtJob creates the directory of one job: metadata file _log, files/out, and
// - when withTmp - tmp/ with nTmp scratch files of arbitrary size.  Returns the
// bytes and entries below tmp/.
func vtJob(md *Metadata, withTmp bool, nTmp int) (int64, uint) {
	vtAdd(md.path, 0, true)
	vtAdd(md.path+"/_log", 10, false)
	vtAdd(md.path+"/files", 0, true)
	vtAdd(md.path+"/files/out", 7, false)
	var bytes int64
	var count uint
	if withTmp {
		vtAdd(md.path+"/tmp", 0, true)
		for i := 0; i < nTmp; i++ {
			s := verifInt64("scratch size")
			verifAssume(verifAll(s >= 0, s <= vkBound))
			vtAdd(md.path+"/tmp/s"+string(rune('0'+i)), s, false)
			bytes += s
			count++
		}
	}
	return bytes, count
}

// H_C14_cleanTemp(phase, k, nTmp): the temporary directories of the split
// (phase 0), of the k chunks (phase 1) or of the join (phase 2) of a completed
// fork are reclaimed.  Each job's tmp/ holds nTmp files of arbitrary size, and
// - as after a clean-up which was interrupted before it could record anything,
// or a stage which removed its own scratch directory - any of the tmp/
// directories may already be missing.
//
//	C14: afterwards no job's tmp/ exists; nothing outside the tmp/ directories
//	     is removed; the partial report grows by exactly the files and bytes
//	     which were below the tmp/ directories; the phase is marked as cleaned
//	     and the report written.
func H_C14_cleanTemp(phase, k, nTmp int) {
	disableUniquification = false
	top := vsTop()
	top.rt.Config.VdrMode = VdrRolling
	_, f := vsStageNode(top, "PROD", true)
	vtFS, vtDirs, vtRemoved, vtWrote = map[string]int64{}, map[string]bool{}, nil, nil
	vtAdd(f.path, 0, true)
	var jobs []*Metadata
	switch phase {
	case 0:
		jobs = []*Metadata{f.split_metadata}
	case 2:
		jobs = []*Metadata{f.join_metadata}
	default:
		f.chunks = nil
		for i := 0; i < k; i++ {
			c := &Chunk{fork: f, index: i, chunkDef: &ChunkDef{}}
			c.metadata = NewMetadata(f.fqname+".chnk"+string(rune('0'+i)), f.path+"/chnk"+string(rune('0'+i)))
			f.chunks = append(f.chunks, c)
			jobs = append(jobs, c.metadata)
		}
	}
	var wantBytes int64
	var wantCount uint
	anyTmp := false
	for _, md := range jobs {
		has := verifBool("tmp exists")
		anyTmp = anyTmp || has
		b, c := vtJob(md, has, nTmp)
		wantBytes += b
		wantCount += c
	}
	var partial *PartialVdrKillReport
	var size0 uint64
	var count0 uint
	if verifBool("earlier partial report") {
		partial = &PartialVdrKillReport{}
		partial.Size, partial.Count = 1000, 3
		size0, count0 = 1000, 3
	}
	switch phase {
	case 0:
		partial = f.cleanSplitTemp(partial)
	case 2:
		partial = f.cleanJoinTemp(partial)
	default:
		partial = f.cleanChunkTemp(partial)
	}
	verifCover("temporary directories cleaned")
	for _, md := range jobs {
		_, ok := vtFS[md.path+"/tmp"]
		verifAssert(!ok, "C14: after the clean-up of a phase no job of that phase has a temporary directory left, even if some were already missing")
		for p := range vtFS {
			verifAssert(!vtUnder(p, md.path+"/tmp"), "C14: nothing below a job's temporary directory survives")
		}
		for _, keep := range []string{"", "/_log", "/files", "/files/out"} {
			_, ok := vtFS[md.path+keep]
			verifAssert(ok, "C14: cleaning temporary directories removes nothing else")
		}
	}
	for _, r := range vtRemoved {
		inTmp := false
		for _, md := range jobs {
			if r == md.path+"/tmp" || vtUnder(r, md.path+"/tmp") {
				inTmp = true
			}
		}
		verifAssert(inTmp, "C14: only temporary directories are removed")
	}
	if !anyTmp {
		// nothing was there to reclaim: whether that is recorded is not claimed
		if partial != nil {
			verifAssert(partial.Size == size0 && partial.Count == count0, "C14: the report does not grow when nothing was removed")
		}
		return
	}
	verifAssert(partial != nil, "C14: the clean-up is recorded")
	if partial == nil {
		return
	}
	verifAssert(partial.Size == size0+uint64(wantBytes) && partial.Count == count0+wantCount, "C14: the report grows by exactly the files and bytes below the removed temporary directories")
	switch phase {
	case 0:
		verifAssert(partial.Split, "C14: the split's clean-up is marked as done")
	case 2:
		verifAssert(partial.Join, "C14: the join's clean-up is marked as done")
	default:
		verifAssert(partial.Chunks, "C14: the chunks' clean-up is marked as done")
	}
	wrote := false
	for _, n := range vtWrote {
		if n == PartialVdr {
			wrote = true
		}
	}
	verifAssert(wrote, "C14: the partial report is written after the clean-up")
	for _, p := range partial.Paths {
		_, ok := vtFS[p]
		verifAssert(!ok, "C14: every path listed in the report no longer exists")
	}
}

// H_C14_splitTempTwice(nTmp): the split's temporary directory (nTmp files of
// arbitrary size) is reclaimed as soon as the split has completed - doChunks
// calls cleanSplitTemp(nil) for a volatile stage - and doChunks runs a second
// time for the fork (after a restart which reset its queued chunks, or a chunk
// retry).
//
//	C14: the partial report on disk still accounts for what the first pass
//	     removed ("the report's file count and byte total equal what was
//	     actually removed", across a restart between partial and final cleanup).
func H_C14_splitTempTwice(nTmp int) {
	disableUniquification = false
	top := vsTop()
	top.rt.Config.VdrMode = VdrRolling
	_, f := vsStageNode(top, "PROD", true)
	vtFS, vtDirs, vtRemoved, vtWrote, vtLastPartial = map[string]int64{}, map[string]bool{}, nil, nil, nil
	vtAdd(f.path, 0, true)
	bytes, count := vtJob(f.split_metadata, true, nTmp)
	f.cleanSplitTemp(nil)
	verifCover("split temp cleaned, then doChunks ran again")
	if vtLastPartial == nil {
		verifAssert(false, "C14: the clean-up is recorded")
		return
	}
	verifAssert(vtLastPartial.Size == uint64(bytes) && vtLastPartial.Count == count, "C14: the first pass records what it removed")
	// the second pass of doChunks
	f.cleanSplitTemp(nil)
	verifAssert(vtLastPartial != nil && vtLastPartial.Size == uint64(bytes) && vtLastPartial.Count == count, "C14: a second pass over a split whose temporary files are already gone does not erase the record of what the first pass removed")
}
