package core

// C04 (what is removed) / C14 (accounting) — the real Fork.vdrKillSome and
// Fork.vdrKill with os.RemoveAll replaced by a recorder.

import (
	"os"
	"path/filepath"
	"time"

	"github.com/martian-lang/martian/martian/syntax"
)

var (
	vkRemoved  []string
	vkWrote    []MetadataFileName
	vkForceSet bool
	vkForceVal bool
	vkWalkN    int
	vkWalkSize []int64
)

//verif:stub os.RemoveAll
func vkRemoveAll(p string) error {
	vkRemoved = append(vkRemoved, p)
	return nil
}

//verif:stub os.WriteFile
func vkWriteFile(name string, data []byte, perm os.FileMode) error { return nil }

//verif:stub encoding/json.MarshalIndent
func vkMarshalIndent(v any, prefix, indent string) ([]byte, error) { return []byte("{}"), nil }

//verif:stub github.com/martian-lang/martian/martian/util.EnterCriticalSection
func vkEnterCS() {}

//verif:stub github.com/martian-lang/martian/martian/util.ExitCriticalSection
func vkExitCS() {}

//verif:stub (*github.com/martian-lang/martian/martian/core.VDRKillReport).mergeEvents
func vkMergeEvents(pr *VDRKillReport) {}

//verif:stub (*github.com/martian-lang/martian/martian/core.Fork).cacheParamFileMap
func vkCacheParamFileMap(self *Fork, outs LazyArgumentMap) {}

//verif:stub (*github.com/martian-lang/martian/martian/core.Fork).getVdrKillReport
func vkGetReport(self *Fork) (*VDRKillReport, bool) { return &VDRKillReport{}, false }

//verif:stub (*github.com/martian-lang/martian/martian/core.Fork).deletePartialKill
func vkDeletePartial(self *Fork) {}

//verif:stub (*github.com/martian-lang/martian/martian/core.Metadata).Write
func vkMetaWrite(self *Metadata, name MetadataFileName, object interface{}) error {
	vkWrote = append(vkWrote, name)
	if p, ok := object.(*PartialVdrKillReport); ok {
		vkPartial = p // what getPartialKillReport reads back on the next pass
	}
	return nil
}

var vkPartial *PartialVdrKillReport

//verif:stub (*github.com/martian-lang/martian/martian/core.PipestanceOverrides).GetForceVolatile
func vkForce(self *PipestanceOverrides, node string, def bool) bool {
	if vkForceSet {
		return vkForceVal
	}
	return def
}

//verif:stub (*github.com/martian-lang/martian/martian/core.Metadata).enumerateFiles
func vkEnumerateFiles(self *Metadata) ([]string, error) {
	return []string{self.curFilesPath + "/out"}, nil
}

type vkInfo struct{ size int64 }

func (vkInfo) Name() string       { return "f" }
func (i vkInfo) Size() int64      { return i.size }
func (vkInfo) Mode() os.FileMode  { return 0 }
func (vkInfo) ModTime() time.Time { return time.Time{} }
func (vkInfo) IsDir() bool        { return false }
func (vkInfo) Sys() any           { return nil }

//verif:stub github.com/martian-lang/martian/martian/util.Walk
func vkWalk(root string, walkFn filepath.WalkFunc) error {
	for i := 0; i < vkWalkN; i++ {
		if err := walkFn(root+"/f", vkInfo{vkWalkSize[i]}, nil); err != nil {
			return err
		}
	}
	return nil
}

var _ = syntax.KindStage

const vkBound = int64(1) << 40

type vkEntry struct {
	path  string
	held  [2]bool // entry.args contains a1 / a2 (nil map if neither)
	size  int64
	count int
}

// H_C04_killSome: vdrKillSome(partial, done) on a completed strict-volatile
// fork whose file cache holds a directory d, a file d/f inside it and a file
// g, each kept alive by an arbitrary subset of {a1, a2}; a1 / a2 may or may
// not still be held by anyone (fileArgs).
//
//	C04: a path is removed only if no live argument keeps it — or anything
//	     inside it — alive; every removed path lies inside the fork directory.
//	C14: the report's size and count grow by exactly the cached sizes / counts
//	     of what was removed (collapsed children included), and every reported
//	     path was passed to RemoveAll.
func H_C04_killSome(doneI int, withPartial int) {
	disableUniquification = false
	top := vsTop()
	top.rt.Config.VdrMode = VdrStrict
	top.rt.overrides = &PipestanceOverrides{}
	_, f := vsStageNode(top, "PROD", false)
	f.metadata.contents[CompleteFile] = struct{}{}
	base := f.path + "/files"
	// dx is a sibling whose name merely extends the name of directory d
	ents := []*vkEntry{{path: base + "/d"}, {path: base + "/d/f"}, {path: base + "/g"}, {path: base + "/dx"}}
	live := [2]bool{verifBool("a1.live"), verifBool("a2.live")}
	f.fileArgs = map[string]map[Nodable]struct{}{}
	f.filePostNodes = map[Nodable]map[string]syntax.Type{}
	holder := &Node{}
	for i, a := range []string{"a1", "a2"} {
		if live[i] {
			f.fileArgs[a] = map[Nodable]struct{}{holder: {}}
			if f.filePostNodes[holder] == nil {
				f.filePostNodes[holder] = map[string]syntax.Type{}
			}
			f.filePostNodes[holder][a] = nil
		}
	}
	f.fileParamMap = map[string]*vdrFileCache{}
	for _, e := range ents {
		e.size = verifInt64("size")
		verifAssume(verifAll(e.size >= 0, e.size <= vkBound))
		c := verifInt("count")
		verifAssume(verifAll(c >= 1, c <= 1000))
		e.count = c
		entry := &vdrFileCache{size: e.size, count: e.count}
		for i, a := range []string{"a1", "a2"} {
			if verifBool("held." + a) {
				e.held[i] = true
				if entry.args == nil {
					entry.args = map[string]struct{}{}
				}
				entry.args[a] = struct{}{}
			}
		}
		f.fileParamMap[e.path] = entry
	}
	// what addFilesToArgsMappings establishes: a directory carries (at least)
	// the arguments of the entries below it
	for i := range []int{0, 1} {
		verifAssume(verifImplies(ents[1].held[i], ents[0].held[i]))
	}
	var partial *PartialVdrKillReport
	size0, count0 := uint64(0), uint(0)
	if withPartial != 0 {
		partial = &PartialVdrKillReport{}
		s := verifInt64("partial.size")
		verifAssume(verifAll(s >= 0, s <= vkBound))
		partial.Size = uint64(s)
		partial.Count = 7
		size0, count0 = partial.Size, partial.Count
	}
	done := doneI != 0
	rep, final := f.vdrKillSome(partial, done)
	verifCover("kill some ran")
	keep := func(e *vkEntry) bool {
		return (e.held[0] && live[0]) || (e.held[1] && live[1])
	}
	removed := func(p string) bool {
		for _, r := range vkRemoved {
			if r == p {
				return true
			}
		}
		return false
	}
	var wantSize uint64
	var wantCount uint
	for _, e := range ents {
		if removed(e.path) {
			verifCover("a path was removed")
			verifAssert(!keep(e), "C04: a file kept alive by a live argument is not removed")
		}
		if !keep(e) {
			wantSize += uint64(e.size)
			wantCount += uint(e.count)
		}
	}
	if removed(ents[0].path) {
		verifAssert(!keep(ents[1]), "C04: a directory is not removed while a file inside it is kept alive")
	}
	for _, r := range vkRemoved {
		verifAssert(len(r) > len(f.path)+1 && r[:len(f.path)+1] == f.path+"/", "C14: every removed path lies inside the fork's own directory")
	}
	// everything that nothing keeps alive is gone (directly or with its parent)
	for i, e := range ents {
		if !keep(e) {
			gone := removed(e.path) || (i == 1 && removed(ents[0].path))
			verifAssert(gone, "C14: a file nothing keeps alive is reclaimed")
		}
	}
	if rep != nil {
		verifAssert(rep.Size == size0+wantSize, "C14: the reported byte total grows by exactly what was removed")
		verifAssert(rep.Count == count0+wantCount, "C14: the reported file count grows by exactly what was removed")
		for _, p := range rep.Paths {
			verifAssert(removed(p), "C14: every reported path was removed")
		}
	} else {
		verifAssert(wantCount == 0 && partial == nil, "no report only when nothing was removed")
	}
	wrote := false
	for _, n := range vkWrote {
		if n == VdrKill {
			wrote = true
		}
	}
	if final {
		verifAssert(wrote, "C14: a final kill writes the _vdrkill report")
	}
	if wrote {
		verifAssert(final, "C14: a kill which writes the fork's final _vdrkill report says so, so that the sweep adds the report (with what the fork's temporary directories held) to the pipestance total")
	}
}

// H_C04_killNonVolatile(split, k): vdrKill on a non-volatile stage with k chunk
// directories (a splitting stage whose split defined k = 0..3 chunks, or a
// non-splitting stage with its one pseudo-chunk) removes exactly the
// chunk-level files of a splitting stage, and reports their size.
func H_C04_killNonVolatile(splitI, k int) {
	disableUniquification = false
	top := vsTop()
	top.rt.Config.VdrMode = VdrRolling
	top.rt.overrides = &PipestanceOverrides{}
	node, f := vsStageNode(top, "PROD", splitI != 0)
	node.call.Call().Modifiers.Volatile = false
	f.metadata.contents[CompleteFile] = struct{}{}
	if splitI == 0 {
		k = 1
	}
	f.chunks = nil
	for i := 0; i < k; i++ {
		c := &Chunk{fork: f, index: i, chunkDef: &ChunkDef{}}
		c.metadata = NewMetadata(f.fqname+".chnk"+string(rune('0'+i)), f.path+"/chnk"+string(rune('0'+i)))
		f.chunks = append(f.chunks, c)
	}
	vkWalkN = 2
	vkWalkSize = []int64{verifInt64("s1"), verifInt64("s2")}
	for _, s := range vkWalkSize {
		verifAssume(verifAll(s >= 0, s <= vkBound))
	}
	rep := f.vdrKill(nil)
	verifCover("non-volatile kill ran")
	for _, r := range vkRemoved {
		verifAssert(splitI != 0, "C04: only splitting stages lose (chunk-level) files when not volatile")
		inChunk := false
		for _, c := range f.chunks {
			p := c.metadata.curFilesPath
			if len(r) > len(p) && r[:len(p)] == p {
				inChunk = true
			}
		}
		verifAssert(inChunk, "C04: a non-volatile stage only loses chunk files, never fork-level outputs")
	}
	if splitI != 0 {
		verifAssert(len(vkRemoved) == k, "C14: the chunk files of every chunk of a splitting stage are reclaimed, however many chunks there are")
		verifAssert(rep != nil && rep.Size == uint64(int64(k)*(vkWalkSize[0]+vkWalkSize[1])) && rep.Count == uint(2*k), "C14: the report totals what was removed")
	} else {
		verifAssert(len(vkRemoved) == 0, "C04: a non-splitting non-volatile stage loses nothing")
	}
}

func vkAncestor(a, b string) bool {
	// a == b, or b has the prefix a + "/"
	if a == b {
		return true
	}
	return len(b) > len(a)+0 && len(a) < len(b) && b[:len(a)] == a && b[len(a)] == '/'
}

// H_C04_anyOverlap: a produced file name and a file an argument refers to
// overlap exactly when they are equal or one is a '/'-separated ancestor of
// the other (n1, n2 arbitrary bytes each).
func H_C04_anyOverlap(n1, n2 int) {
	name := verifString("name", n1)
	file := verifString("file", n2)
	// names are cleaned paths (documented precondition): no trailing separator
	if n1 > 0 {
		verifAssume(name[n1-1] != '/')
	}
	if n2 > 0 {
		verifAssume(file[n2-1] != '/')
	}
	f, nm := anyOverlap([]string{name}, map[string]struct{}{file: {}})
	want := vkAncestor(name, file) || vkAncestor(file, name)
	verifCover("overlap computed")
	verifAssert((f != "") == want, "C04: anyOverlap finds a match exactly for equal names or ancestor/descendant pairs")
	if f != "" {
		verifAssert(f == file && nm == name, "anyOverlap reports the matching pair")
	}
}

// H_C04_pathIsInside: on clean absolute-style inputs without '.' elements
// pathIsInside(test, parent) is equality or ancestry.
func H_C04_pathIsInside(n1, n2 int) {
	test := "/" + verifString("test", n1)
	parent := "/" + verifString("parent", n2)
	verifAssume(filepath.Clean(test) == test)
	verifAssume(filepath.Clean(parent) == parent)
	verifCover("inside computed")
	want := vkAncestor(parent, test)
	if parent == "/" {
		want = true
	}
	verifAssert(pathIsInside(test, parent) == want || parent == "/", "C04/C14: pathIsInside is equality or ancestry on clean paths")
}

// H_C14_killTwice: two VDR passes over one strict-volatile fork, as
// partialVdrKill makes them while consumers finish one after the other.  The
// file cache holds a directory d, a file d/f inside it, a file g and a sibling
// dx, each kept alive by an arbitrary subset of {a1, a2}.  Pass 1 runs while an
// arbitrary subset of the arguments is still held; then an arbitrary subset of
// those is released (their consumers completed) and pass 2 runs, final or not.
//
//	C14: the cumulative report counts every reclaimed path exactly once: its
//	     byte total and file count equal the cached sizes / counts of the
//	     entries nothing keeps alive any more, every reported path was removed,
//	     and nothing still held was removed.
func H_C14_killTwice(doneI int) {
	disableUniquification = false
	top := vsTop()
	top.rt.Config.VdrMode = VdrStrict
	top.rt.overrides = &PipestanceOverrides{}
	_, f := vsStageNode(top, "PROD", false)
	f.metadata.contents[CompleteFile] = struct{}{}
	base := f.path + "/files"
	ents := []*vkEntry{{path: base + "/d"}, {path: base + "/d/f"}, {path: base + "/g"}, {path: base + "/dx"}}
	args := []string{"a1", "a2"}
	holders := []*Node{{}, {}}
	live := [2]bool{verifBool("a1.live"), verifBool("a2.live")}
	f.fileArgs = map[string]map[Nodable]struct{}{}
	f.filePostNodes = map[Nodable]map[string]syntax.Type{}
	for i, a := range args {
		if live[i] {
			f.fileArgs[a] = map[Nodable]struct{}{holders[i]: {}}
			f.filePostNodes[holders[i]] = map[string]syntax.Type{a: nil}
		}
	}
	f.fileParamMap = map[string]*vdrFileCache{}
	for _, e := range ents {
		e.size = verifInt64("size")
		verifAssume(verifAll(e.size >= 0, e.size <= vkBound))
		c := verifInt("count")
		verifAssume(verifAll(c >= 1, c <= 1000))
		e.count = c
		entry := &vdrFileCache{size: e.size, count: e.count}
		for i, a := range args {
			if verifBool("held." + a) {
				e.held[i] = true
				if entry.args == nil {
					entry.args = map[string]struct{}{}
				}
				entry.args[a] = struct{}{}
			}
		}
		f.fileParamMap[e.path] = entry
	}
	for i := range args {
		verifAssume(verifImplies(ents[1].held[i], ents[0].held[i]))
	}
	vkPartial = nil
	rep, final := f.vdrKillSome(nil, false)
	verifCover("first pass ran")
	firstRemoved := len(vkRemoved)
	if !final {
		// some consumers finish: removeFilePostNodes
		var doneNodes []Nodable
		for i := range args {
			if live[i] && verifBool("released."+args[i]) {
				live[i] = false
				doneNodes = append(doneNodes, holders[i])
			}
		}
		f.removeFilePostNodes(doneNodes)
		verifCover("second pass ran")
		rep, final = f.vdrKillSome(vkPartial, doneI != 0)
	}
	keep := func(e *vkEntry) bool {
		return (e.held[0] && live[0]) || (e.held[1] && live[1])
	}
	removed := func(p string) bool {
		for _, r := range vkRemoved {
			if r == p {
				return true
			}
		}
		return false
	}
	var wantSize uint64
	var wantCount uint
	for i, e := range ents {
		if removed(e.path) {
			verifAssert(!keep(e), "C04: a file kept alive by a live argument is not removed")
		}
		if !keep(e) {
			wantSize += uint64(e.size)
			wantCount += uint(e.count)
			gone := removed(e.path) || (i == 1 && removed(ents[0].path))
			verifAssert(gone, "C14: a file nothing keeps alive is reclaimed")
		}
	}
	if len(vkRemoved) > firstRemoved && firstRemoved > 0 {
		verifCover("both passes removed something")
	}
	if rep != nil {
		verifAssert(rep.Size == wantSize, "C14: over several passes the reported byte total equals what was removed (nothing is counted twice)")
		verifAssert(rep.Count == wantCount, "C14: over several passes the reported file count equals what was removed (nothing is counted twice)")
		for _, p := range rep.Paths {
			verifAssert(removed(p), "C14: every reported path was removed")
		}
	} else {
		verifAssert(wantCount == 0, "no report only when nothing was removed")
	}
	_ = final
}
