package core

// C13 — final outputs are materialised faithfully under outs/.
//
// The top-level pipeline below is instantiated by the real compiler and
// runtime; its fork's real postProcess (processStructOuts, handleOuts,
// moveOutFiles, moveOutDir, moveOutArrayDir, moveOutFile, copyOutSymlink) runs
// against a file-system model and the reference JSON decoder of
// zz_verif_c01_real.go.
//
// File-system model (ground truth for the stubs): a map from absolute path to
// a regular file (with an identity), a directory, or a symlink with its
// target.  Every file-typed leaf of the pipeline's _outs is arbitrarily: null,
// the empty string, a file inside the pipestance, a path inside the pipestance
// that does not exist, a file outside the pipestance, a relative symlink
// inside the pipestance to a sibling file, an absolute symlink to a file
// outside, a file in a sub-directory of the files directory, or a relative
// symlink to the file of an earlier output.
//
//	C13: every output file that exists is reachable under outs/ afterwards with
//	     its identity (content) unchanged, the rewritten _outs designates that
//	     same file, the original location still leads to it, files inside the
//	     pipestance are moved (not copied or linked), files that do not exist
//	     are reported null, values that are not files are untouched, no file is
//	     lost or duplicated, and nothing outside the pipestance is modified.

import (
	"context"
	"encoding/json"
	"errors"
	"os"
	"path"
	"path/filepath"
	"runtime/trace"
	"strings"
)

// ---- file-system model

type vpNode struct {
	kind   int // 1 file, 2 directory, 3 symlink
	target string
	inode  int
}

var (
	vpFS      map[string]*vpNode
	vpWritten json.Marshaler
	vpOutsRaw []byte
)

type vpInfo struct {
	os.FileInfo
	mode os.FileMode
}

func (i vpInfo) Mode() os.FileMode { return i.mode }
func (i vpInfo) IsDir() bool       { return i.mode&os.ModeDir != 0 }

func vpInfoOf(n *vpNode) os.FileInfo {
	switch n.kind {
	case 2:
		return vpInfo{mode: os.ModeDir | 0o755}
	case 3:
		return vpInfo{mode: os.ModeSymlink | 0o777}
	}
	return vpInfo{mode: 0o644}
}

func vpNotExist(op, p string) error { return &os.PathError{Op: op, Path: p, Err: os.ErrNotExist} }

// vpWalkPath resolves a path component by component, following symbolic links
// in directories and - if followLast - in the last component; it returns the
// resolved name and the node there (nil if there is none).
func vpWalkPath(p string, followLast bool) (string, *vpNode) {
	p = path.Clean(p)
	for hops := 0; hops < 16; hops++ {
		if p == "/" {
			return p, vpFS[p]
		}
		// resolve the parent first
		parts := strings.Split(strings.TrimPrefix(p, "/"), "/")
		cur := ""
		restart := false
		for i, part := range parts {
			next := cur + "/" + part
			n := vpFS[next]
			last := i == len(parts)-1
			if n != nil && n.kind == 3 && (!last || followLast) {
				target := n.target
				if !path.IsAbs(target) {
					target = path.Join(cur, target)
					if cur == "" {
						target = "/" + n.target
					}
				}
				rest := strings.Join(parts[i+1:], "/")
				p = path.Clean(target + "/" + rest)
				restart = true
				break
			}
			if n == nil {
				if last {
					return next, nil
				}
				return path.Clean(next + "/" + strings.Join(parts[i+1:], "/")), nil
			}
			cur = next
		}
		if !restart {
			return cur, vpFS[cur]
		}
	}
	return p, nil
}

// vpResolve follows symbolic links everywhere in the path.
func vpResolve(p string) (string, *vpNode) { return vpWalkPath(p, true) }

//verif:stub os.Lstat
func vpLstat(name string) (os.FileInfo, error) {
	if _, n := vpWalkPath(name, false); n != nil {
		return vpInfoOf(n), nil
	}
	return nil, vpNotExist("lstat", name)
}

//verif:stub os.Stat
func vpStat(name string) (os.FileInfo, error) {
	if _, n := vpResolve(path.Clean(name)); n != nil {
		return vpInfoOf(n), nil
	}
	return nil, vpNotExist("stat", name)
}

//verif:stub os.Readlink
func vpReadlink(name string) (string, error) {
	if _, n := vpWalkPath(name, false); n != nil && n.kind == 3 {
		return n.target, nil
	}
	return "", errors.New("readlink " + name + ": invalid argument")
}

//verif:stub path/filepath.EvalSymlinks
func vpEvalSymlinks(name string) (string, error) {
	if p, n := vpResolve(path.Clean(name)); n != nil {
		return p, nil
	}
	return "", vpNotExist("lstat", name)
}

func vpMkdirAll(p string) error {
	p = path.Clean(p)
	for d := p; d != "/" && d != "."; d = path.Dir(d) {
		if n := vpFS[d]; n != nil {
			if n.kind != 2 {
				return errors.New("mkdir " + d + ": not a directory")
			}
			continue
		}
		vpFS[d] = &vpNode{kind: 2}
	}
	return nil
}

//verif:stub os.MkdirAll
func vpOsMkdirAll(p string, perm os.FileMode) error { return vpMkdirAll(p) }

//verif:stub github.com/martian-lang/martian/martian/util.MkdirAll
func vpUtilMkdirAll(p string) error { return vpMkdirAll(p) }

//verif:stub os.Symlink
func vpSymlink(oldname, newname string) error {
	if strings.HasSuffix(newname, "/") {
		// (what symlink(2) answers for a name with a trailing slash)
		return &os.LinkError{Op: "symlink", Old: oldname, New: newname, Err: os.ErrNotExist}
	}
	if real, _ := vpWalkPath(path.Dir(path.Clean(newname)), true); true {
		newname = path.Join(real, path.Base(path.Clean(newname)))
	}
	if vpFS[newname] != nil {
		return &os.LinkError{Op: "symlink", Old: oldname, New: newname, Err: os.ErrExist}
	}
	if d := vpFS[path.Dir(newname)]; d == nil || d.kind != 2 {
		return &os.LinkError{Op: "symlink", Old: oldname, New: newname, Err: os.ErrNotExist}
	}
	vpFS[newname] = &vpNode{kind: 3, target: oldname}
	return nil
}

//verif:stub os.Rename
func vpRename(oldpath, newpath string) error {
	oldpath, newpath = path.Clean(oldpath), path.Clean(newpath)
	if real, _ := vpWalkPath(path.Dir(oldpath), true); true {
		oldpath = path.Join(real, path.Base(oldpath))
	}
	if real, _ := vpWalkPath(path.Dir(newpath), true); true {
		newpath = path.Join(real, path.Base(newpath))
	}
	n := vpFS[oldpath]
	if n == nil {
		return &os.LinkError{Op: "rename", Old: oldpath, New: newpath, Err: os.ErrNotExist}
	}
	if d := vpFS[path.Dir(newpath)]; d == nil || d.kind != 2 {
		return &os.LinkError{Op: "rename", Old: oldpath, New: newpath, Err: os.ErrNotExist}
	}
	if n.kind == 2 {
		// a directory moves with everything below it
		if vpFS[newpath] != nil {
			return &os.LinkError{Op: "rename", Old: oldpath, New: newpath, Err: os.ErrExist}
		}
		moved := map[string]*vpNode{}
		for q, m := range vpFS {
			if q == oldpath || (len(q) > len(oldpath) && q[:len(oldpath)] == oldpath && q[len(oldpath)] == '/') {
				moved[newpath+q[len(oldpath):]] = m
				delete(vpFS, q)
			}
		}
		for q, m := range moved {
			vpFS[q] = m
		}
		return nil
	}
	delete(vpFS, oldpath)
	vpFS[newpath] = n
	return nil
}

// ---- the rest of the environment

//verif:stub (*github.com/martian-lang/martian/martian/core.Metadata).readRawBytes
func vpReadRawBytes(self *Metadata, name MetadataFileName) ([]byte, error) {
	if name == OutsFile && vpOutsRaw != nil {
		return vpOutsRaw, nil
	}
	return nil, vpNotExist("open", self.MetadataFilePath(name))
}

//verif:stub (*github.com/martian-lang/martian/martian/core.Metadata).WriteAtomic
func vpWriteAtomic(self *Metadata, name MetadataFileName, object interface{}) error {
	if name == OutsFile {
		vpWritten, _ = object.(json.Marshaler)
	}
	return nil
}

//verif:stub (*github.com/martian-lang/martian/martian/core.Fork).printAlarms
func vpPrintAlarms(self *Fork) {}

//verif:stub github.com/martian-lang/martian/martian/util.Print
func vpPrint(format string, v ...interface{}) {}

//verif:stub github.com/martian-lang/martian/martian/util.PrintBytes
func vpPrintBytes(b []byte) {}

//verif:stub github.com/martian-lang/martian/martian/util.PrintError
func vpPrintError(err error, component string, format string, v ...interface{}) {}

//verif:stub github.com/martian-lang/martian/martian/util.LogInfo
func vpLogInfo(component string, format string, v ...interface{}) {}

//verif:stub os.ReadFile
func vpReadFile(name string) ([]byte, error) { return nil, os.ErrNotExist }

//verif:stub runtime/trace.StartRegion
func vpStartRegion(ctx context.Context, regionType string) *trace.Region { return nil }

//verif:stub (*runtime/trace.Region).End
func vpRegionEnd(r *trace.Region) {}

//verif:stub encoding/json.Unmarshal
func vpUnmarshal(data []byte, v any) error {
	if p, ok := v.(*string); ok {
		d := vjTrim(data)
		if len(d) < 2 || d[0] != '"' || d[len(d)-1] != '"' {
			return errors.New("json: cannot unmarshal into string")
		}
		for _, c := range d[1 : len(d)-1] {
			if c == '\\' || c == '"' || c < 0x20 {
				panic("json model: only plain strings")
			}
		}
		*p = string(d[1 : len(d)-1])
		return nil
	}
	return vjUnmarshal(data, v)
}

//verif:stub encoding/json.Marshal
func vpMarshal(v any) ([]byte, error) { return vjMarshal(v) }

// ---- the program

const vpSrc = `
filetype txt;

struct ST(
    txt f,
    int k,
)

stage S(
    in  int      x,
    out txt      report,
    out int      n,
    out txt[]    logs,
    out ST       st,
    out map<txt> named,
    src comp     "bin",
)

pipeline P(
    in  int      x,
    out txt      report,
    out int      n,
    out txt[]    logs,
    out ST       st,
    out map<txt> named,
)
{
    call S(
        x = self.x,
    )

    return (
        report = S.report,
        n      = S.n,
        logs   = S.logs,
        st     = S.st,
        named  = S.named,
    )
}

call P(
    x = 1,
)
`

func vpGraph() *Pipestance {
	disableUniquification = false
	return verifCached("vpGraph", func() any {
		vpFS = map[string]*vpNode{}
		rt := &Runtime{Config: &RuntimeOptions{JobMode: "local", VdrMode: VdrDisable}, mrjob: "/m/mrjob", adaptersPath: "/m/adapters"}
		_, _, ps, err := rt.instantiatePipeline([]byte(vpSrc), "/m/p.mro", "ps", "/ps", nil, "none", nil, false, true, context.Background())
		if err != nil {
			panic("fixture does not instantiate: " + err.Error())
		}
		return ps
	}).(*Pipestance)
}

const vpFilesDir = "/ps/P/S/fork0/files"

type vpLeaf struct {
	kind  int
	path  string // what the stage reported
	inode int    // identity of the file it designates (0: none)
}

// vpMakeLeaf decides what file-typed leaf i is and builds it in the model.
func vpMakeLeaf(i int, kind int, first vpLeaf) (vpLeaf, []byte) {
	name := "f" + string(rune('0'+i))
	inside := vpFilesDir + "/" + name
	outside := "/ext/" + name
	l := vpLeaf{kind: kind}
	if kind == 8 && (i == 0 || (first.kind != 2 && first.kind != 7)) {
		kind, l.kind = 5, 5 // no earlier output to point at: a link to a sibling
	}
	switch kind {
	case 7: // a file in a sub-directory of the stage's files directory
		vpFS[vpFilesDir+"/sub"] = &vpNode{kind: 2}
		l.path, l.inode = vpFilesDir+"/sub/"+name, 500+i
		vpFS[l.path] = &vpNode{kind: 1, inode: l.inode}
	case 8: // a relative symlink to the file of the first output (another output
		// of the same pipeline, processed before this one)
		l.path, l.inode = inside, first.inode
		vpFS[inside] = &vpNode{kind: 3, target: strings.TrimPrefix(first.path, vpFilesDir+"/")}
	case 0:
		return l, []byte("null")
	case 1:
		return l, []byte(`""`)
	case 2: // a file inside the pipestance
		l.path, l.inode = inside, 100+i
		vpFS[inside] = &vpNode{kind: 1, inode: l.inode}
	case 3: // reported but never written
		l.path = inside
	case 4: // a file outside the pipestance
		l.path, l.inode = outside, 200+i
		vpFS[outside] = &vpNode{kind: 1, inode: l.inode}
	case 5: // relative symlink inside the pipestance to a sibling file
		l.path, l.inode = inside, 300+i
		vpFS[inside+".real"] = &vpNode{kind: 1, inode: l.inode}
		vpFS[inside] = &vpNode{kind: 3, target: name + ".real"}
	case 6: // absolute symlink to a file outside
		l.path, l.inode = inside, 400+i
		vpFS[outside] = &vpNode{kind: 1, inode: l.inode}
		vpFS[inside] = &vpNode{kind: 3, target: outside}
	}
	return l, []byte(`"` + l.path + `"`)
}

// vpStrings lists the values at the file-typed leaves of an _outs document of
// the fixture's shape, in the fixed order report, logs[0], logs[1], st.f,
// named.a ("" for null).
func vpLeaves(doc []byte) ([5][]byte, bool) {
	var out [5][]byte
	var top LazyArgumentMap
	if vjUnmarshal(doc, &top) != nil {
		return out, false
	}
	out[0] = vjTrim(top["report"])
	var logs []json.RawMessage
	if vjUnmarshal(top["logs"], &logs) != nil || len(logs) != 2 {
		return out, false
	}
	out[1], out[2] = vjTrim(logs[0]), vjTrim(logs[1])
	var st, named LazyArgumentMap
	if vjUnmarshal(top["st"], &st) != nil || vjUnmarshal(top["named"], &named) != nil {
		return out, false
	}
	out[3], out[4] = vjTrim(st["f"]), vjTrim(named["a"])
	return out, true
}

func vpUnquote(b []byte) (string, bool) {
	if len(b) >= 2 && b[0] == '"' && b[len(b)-1] == '"' {
		return string(b[1 : len(b)-1]), true
	}
	return "", false
}

// H_C13_postProcess(k0, k1, k2): the kinds of the leaves report, logs[0] and
// st.f are the parameters (0..6); those of logs[1] and named.a are arbitrary
// among {file inside, missing, file outside}.
func H_C13_postProcess(k0, k1, k2 int) { vpRun(k0, k1, k2) }

// H_C13_linkChain(sub, where): an output that is a relative symlink to the
// file of an earlier output of the same pipeline.  The earlier output (report)
// lies directly in the stage's files directory or (sub = 1) in a
// sub-directory of it; by the time the link is processed the file has been
// moved to outs/ and replaced by a relative link, so the link is the start of a
// chain of relative links through directories of different depth.
func H_C13_linkChain(sub, where int) {
	k0 := 2
	if sub != 0 {
		k0 = 7
	}
	if where == 0 {
		vpRun(k0, 8, 2)
	} else {
		vpRun(k0, 2, 8)
	}
}

func vpRun(k0, k1, k2 int) {
	ps := vpGraph()
	vpFS = map[string]*vpNode{}
	vpWritten = nil
	for _, d := range []string{"/ps", "/ps/P", "/ps/P/S", "/ps/P/S/fork0", vpFilesDir, "/ext"} {
		vpFS[d] = &vpNode{kind: 2}
	}
	pick := func(name string) int {
		v := verifInt(name)
		verifAssume(verifAll(v >= 2, v <= 4))
		return verifConcretize(v)
	}
	kinds := [5]int{k0, k1, pick("kind of logs[1]"), k2, pick("kind of named.a")}
	var leaves [5]vpLeaf
	var js [5][]byte
	for i := range kinds {
		leaves[i], js[i] = vpMakeLeaf(i, kinds[i], leaves[0])
	}
	cat := func(parts ...[]byte) []byte {
		var out []byte
		for _, p := range parts {
			out = append(out, p...)
		}
		return out
	}
	vpOutsRaw = cat([]byte(`{"report":`), js[0], []byte(`,"n":7,"logs":[`), js[1], []byte(`,`), js[2],
		[]byte(`],"st":{"f":`), js[3], []byte(`,"k":3},"named":{"a":`), js[4], []byte(`}}`))
	// everything outside the pipestance, before
	before := map[string]vpNode{}
	for p, n := range vpFS {
		if !strings.HasPrefix(p, "/ps/") && p != "/ps" {
			before[p] = *n
		}
	}
	fork := ps.node.forks[0]
	err := fork.postProcess(context.Background())
	verifCover("post-processed")
	verifAssert(err == nil, "C13: post-processing outputs of these shapes reports no error")
	if vpWritten == nil {
		verifAssert(false, "C13: the rewritten _outs is stored")
		return
	}
	doc, merr := vpWritten.MarshalJSON()
	verifAssert(merr == nil, "C13: the rewritten _outs encodes")
	if merr != nil {
		return
	}
	newLeaves, ok := vpLeaves(doc)
	verifAssert(ok, "C13: the rewritten _outs has the shape of the outputs")
	if !ok {
		return
	}
	// values that are not files are untouched
	var top, st LazyArgumentMap
	vjUnmarshal(doc, &top)
	vjUnmarshal(top["st"], &st)
	verifAssert(string(vjTrim(top["n"])) == "7" && string(vjTrim(st["k"])) == "3", "C13: output values that are not files are left alone")
	for i, l := range leaves {
		nv := newLeaves[i]
		switch l.kind {
		case 0, 1, 3:
			verifAssert(string(nv) == "null", "C13: a file output that is null, empty or was never written is reported null")
			continue
		}
		verifCover("existing output file")
		q, isStr := vpUnquote(nv)
		verifAssert(isStr, "C13: an existing output file is still named in the rewritten _outs")
		if !isStr {
			continue
		}
		_, n := vpResolve(path.Clean(q))
		verifAssert(n != nil && n.kind == 1 && n.inode == l.inode, "C13: the rewritten _outs designates the same file (identity unchanged)")
		_, o := vpResolve(l.path)
		verifAssert(o != nil && o.kind == 1 && o.inode == l.inode, "C13: the location the stage reported still leads to the file")
		// reachable under outs/
		found := false
		for p := range vpFS {
			if strings.HasPrefix(p, "/ps/outs/") {
				if _, r := vpResolve(p); r != nil && r.kind == 1 && r.inode == l.inode {
					found = true
				}
			}
		}
		verifAssert(found, "C13: every existing output file is materialised under outs/")
		if l.kind == 2 || l.kind == 7 {
			verifAssert(strings.HasPrefix(q, "/ps/outs/"), "C13: a file inside the pipestance is reported at its new place under outs/")
			if m := vpFS[path.Clean(q)]; m != nil {
				verifAssert(m.kind == 1, "C13: a file inside the pipestance is moved into outs/, not linked")
			}
		}
	}
	// nothing lost, nothing duplicated
	count := map[int]int{}
	for _, n := range vpFS {
		if n.kind == 1 {
			count[n.inode]++
		}
	}
	for _, l := range leaves {
		if l.inode != 0 {
			verifAssert(count[l.inode] == 1, "C13: no output file is lost or duplicated")
		}
	}
	// nothing outside the pipestance is modified
	for p, n := range vpFS {
		if !strings.HasPrefix(p, "/ps/") && p != "/ps" {
			b, ok := before[p]
			verifAssert(ok && b == *n, "C13: nothing outside the pipestance directory is created or changed")
		}
	}
	for p := range before {
		verifAssert(vpFS[p] != nil, "C13: nothing outside the pipestance directory is removed")
	}
	_ = filepath.Separator
}

// ---- a two-dimensional array of files ----

const vp2dSrc = `
filetype txt;

stage S(
    in  int     x,
    out txt[][] grid,
    src comp    "bin",
)

pipeline P(
    in  int     x,
    out txt[][] grid,
)
{
    call S(
        x = self.x,
    )

    return (
        grid = S.grid,
    )
}

call P(
    x = 1,
)
`

func vp2dGraph() *Pipestance {
	disableUniquification = false
	return verifCached("vp2dGraph", func() any {
		vpFS = map[string]*vpNode{}
		rt := &Runtime{Config: &RuntimeOptions{JobMode: "local", VdrMode: VdrDisable}, mrjob: "/m/mrjob", adaptersPath: "/m/adapters"}
		_, _, ps, err := rt.instantiatePipeline([]byte(vp2dSrc), "/m/p.mro", "ps", "/ps", nil, "none", nil, false, true, context.Background())
		if err != nil {
			panic("fixture does not instantiate: " + err.Error())
		}
		return ps
	}).(*Pipestance)
}

// H_C13_array2d(n0, n1): the top-level output is a two-dimensional array of
// files, rows of n0 and n1 files written inside the pipestance.
//
//	C13: every file nested in the array of arrays is materialised under outs/
//	     with its identity, the rewritten _outs keeps the shape and designates
//	     those files.
func H_C13_array2d(n0, n1 int) {
	ps := vp2dGraph()
	vpFS = map[string]*vpNode{}
	vpWritten = nil
	for _, d := range []string{"/ps", "/ps/P", "/ps/P/S", "/ps/P/S/fork0", vpFilesDir} {
		vpFS[d] = &vpNode{kind: 2}
	}
	ns := []int{n0, n1}
	var inodes [][]int
	doc := []byte(`{"grid":[`)
	for r, n := range ns {
		if r > 0 {
			doc = append(doc, ',')
		}
		doc = append(doc, '[')
		row := make([]int, n)
		for c := 0; c < n; c++ {
			p := vpFilesDir + "/g" + string(rune('0'+r)) + string(rune('0'+c))
			row[c] = 700 + 10*r + c
			vpFS[p] = &vpNode{kind: 1, inode: row[c]}
			if c > 0 {
				doc = append(doc, ',')
			}
			doc = append(doc, (`"` + p + `"`)...)
		}
		inodes = append(inodes, row)
		doc = append(doc, ']')
	}
	doc = append(doc, `]}`...)
	vpOutsRaw = doc
	err := ps.node.forks[0].postProcess(context.Background())
	verifCover("2-d array post-processed")
	verifAssert(err == nil, "C13: post-processing a two-dimensional array of files reports no error")
	if vpWritten == nil {
		verifAssert(false, "C13: the rewritten _outs is stored")
		return
	}
	out, merr := vpWritten.MarshalJSON()
	verifAssert(merr == nil, "C13: the rewritten _outs encodes")
	if merr != nil {
		return
	}
	var top LazyArgumentMap
	var rows []json.RawMessage
	if vjUnmarshal(out, &top) != nil || vjUnmarshal(top["grid"], &rows) != nil || len(rows) != 2 {
		verifAssert(false, "C13: the rewritten _outs has the shape of the outputs")
		return
	}
	for r := range ns {
		var cells []json.RawMessage
		if vjUnmarshal(rows[r], &cells) != nil || len(cells) != ns[r] {
			verifAssert(false, "C13: the rewritten _outs has the shape of the outputs")
			return
		}
		for c := range cells {
			q, isStr := vpUnquote(vjTrim(cells[c]))
			verifAssert(isStr, "C13: an existing output file is still named in the rewritten _outs")
			if !isStr {
				continue
			}
			_, n := vpResolve(path.Clean(q))
			verifAssert(n != nil && n.kind == 1 && n.inode == inodes[r][c], "C13: the rewritten _outs designates the same file (identity unchanged)")
			verifAssert(strings.HasPrefix(q, "/ps/outs/"), "C13: a file nested in an array of arrays is materialised under outs/")
		}
	}
}

// H_C05_postProcessResumed(n0, n1, moved): post-processing of a two-dimensional
// array of files (rows of n0 and n1) is resumed after an earlier run was
// killed between moving file number `moved` to outs/ and putting the link back
// into the stage's files/ directory (the _outs still names the old path).
//
//	C05/C13: the resumed run reports the same outputs as an uninterrupted one:
//	     every file - also the one which had already been moved - is
//	     designated under outs/ with its identity.
func H_C05_postProcessResumed(n0, n1, moved int) {
	ps := vp2dGraph()
	vpFS = map[string]*vpNode{}
	vpWritten = nil
	for _, d := range []string{"/ps", "/ps/P", "/ps/P/S", "/ps/P/S/fork0", vpFilesDir, "/ps/outs", "/ps/outs/grid", "/ps/outs/grid/0", "/ps/outs/grid/1"} {
		vpFS[d] = &vpNode{kind: 2}
	}
	ns := []int{n0, n1}
	if moved >= n0+n1 {
		return
	}
	var inodes [][]int
	doc := []byte(`{"grid":[`)
	k := 0
	for r, n := range ns {
		if r > 0 {
			doc = append(doc, ',')
		}
		doc = append(doc, '[')
		row := make([]int, n)
		for c := 0; c < n; c++ {
			p := vpFilesDir + "/g" + string(rune('0'+r)) + string(rune('0'+c))
			row[c] = 700 + 10*r + c
			if k == moved {
				// the interrupted run got as far as the rename
				vpFS["/ps/outs/grid/"+string(rune('0'+r))+"/"+string(rune('0'+c))+".txt"] = &vpNode{kind: 1, inode: row[c]}
			} else {
				vpFS[p] = &vpNode{kind: 1, inode: row[c]}
			}
			k++
			if c > 0 {
				doc = append(doc, ',')
			}
			doc = append(doc, (`"` + p + `"`)...)
		}
		inodes = append(inodes, row)
		doc = append(doc, ']')
	}
	doc = append(doc, `]}`...)
	vpOutsRaw = doc
	ps.node.forks[0].postProcess(context.Background())
	verifCover("interrupted post-processing resumed")
	if vpWritten == nil {
		verifAssert(false, "C13: the rewritten _outs is stored")
		return
	}
	out, merr := vpWritten.MarshalJSON()
	if merr != nil {
		verifAssert(false, "C13: the rewritten _outs encodes")
		return
	}
	var top LazyArgumentMap
	var rows []json.RawMessage
	if vjUnmarshal(out, &top) != nil || vjUnmarshal(top["grid"], &rows) != nil || len(rows) != 2 {
		verifAssert(false, "C13: the rewritten _outs has the shape of the outputs")
		return
	}
	for r := range ns {
		var cells []json.RawMessage
		if vjUnmarshal(rows[r], &cells) != nil || len(cells) != ns[r] {
			verifAssert(false, "C13: the rewritten _outs has the shape of the outputs")
			return
		}
		for c := range cells {
			q, isStr := vpUnquote(vjTrim(cells[c]))
			verifAssert(isStr, "C05: a file which an interrupted post-processing run had already moved to outs/ is still reported (not null) by the resumed run")
			if !isStr {
				continue
			}
			_, n := vpResolve(path.Clean(q))
			verifAssert(n != nil && n.kind == 1 && n.inode == inodes[r][c], "C05/C13: the resumed run designates the same file as an uninterrupted one")
			verifAssert(strings.HasPrefix(q, "/ps/outs/"), "C05/C13: the resumed run reports the file under outs/")
		}
	}
}

// ---- a directory (path) output ----

const vpPathSrc = `
filetype txt;

stage S(
    in  int  x,
    out path dir,
    out txt  inner,
    src comp "bin",
)

pipeline P(
    in  int  x,
    out path dir,
    out txt  inner,
)
{
    call S(
        x = self.x,
    )

    return (
        dir   = S.dir,
        inner = S.inner,
    )
}

call P(
    x = 1,
)
`

func vpPathGraph() *Pipestance {
	disableUniquification = false
	return verifCached("vpPathGraph", func() any {
		vpFS = map[string]*vpNode{}
		rt := &Runtime{Config: &RuntimeOptions{JobMode: "local", VdrMode: VdrDisable}, mrjob: "/m/mrjob", adaptersPath: "/m/adapters"}
		_, _, ps, err := rt.instantiatePipeline([]byte(vpPathSrc), "/m/p.mro", "ps", "/ps", nil, "none", nil, false, true, context.Background())
		if err != nil {
			panic("fixture does not instantiate: " + err.Error())
		}
		return ps
	}).(*Pipestance)
}

// vpReadThrough: the file reached by reading path p the way a user of the
// outs directory would (following links).
func vpReadThrough(p string) int {
	if _, n := vpResolve(path.Clean(p)); n != nil && n.kind == 1 {
		return n.inode
	}
	return 0
}

// H_C13_pathOutput(variant): the top-level output `dir` is a directory the
// stage wrote inside its files/ directory, holding a.txt.
//
//	0: nothing else         1: the stage reported it with a trailing slash
//	2: dir/link.txt -> a.txt (a relative link inside the directory)
//	3: dir/link.txt -> ../other.txt (a relative link leaving the directory)
//	4: a second output, inner, is the file dir/a.txt itself
//
//	C13: the directory is available under outs/dir with the content the stage
//	     wrote - every name inside it reads the same file as before - and the
//	     rewritten _outs points at it.
func H_C13_pathOutput(variant int) {
	ps := vpPathGraph()
	vpFS = map[string]*vpNode{}
	vpWritten = nil
	for _, d := range []string{"/ps", "/ps/P", "/ps/P/S", "/ps/P/S/fork0", vpFilesDir, vpFilesDir + "/dir"} {
		vpFS[d] = &vpNode{kind: 2}
	}
	vpFS[vpFilesDir+"/dir/a.txt"] = &vpNode{kind: 1, inode: 801}
	names := map[string]int{"a.txt": 801}
	reported := vpFilesDir + "/dir"
	inner := "null"
	switch variant {
	case 1:
		reported += "/"
	case 2:
		vpFS[vpFilesDir+"/dir/link.txt"] = &vpNode{kind: 3, target: "a.txt"}
		names["link.txt"] = 801
	case 3:
		vpFS[vpFilesDir+"/other.txt"] = &vpNode{kind: 1, inode: 802}
		vpFS[vpFilesDir+"/dir/link.txt"] = &vpNode{kind: 3, target: "../other.txt"}
		names["link.txt"] = 802
	case 4:
		inner = `"` + vpFilesDir + `/dir/a.txt"`
	}
	vpOutsRaw = []byte(`{"dir":"` + reported + `","inner":` + inner + `}`)
	ps.node.forks[0].postProcess(context.Background())
	verifCover("directory output post-processed")
	if vpWritten == nil {
		verifAssert(false, "C13: the rewritten _outs is stored")
		return
	}
	doc, merr := vpWritten.MarshalJSON()
	if merr != nil {
		verifAssert(false, "C13: the rewritten _outs encodes")
		return
	}
	var top LazyArgumentMap
	if vjUnmarshal(doc, &top) != nil {
		verifAssert(false, "C13: the rewritten _outs has the shape of the outputs")
		return
	}
	q, isStr := vpUnquote(vjTrim(top["dir"]))
	verifAssert(isStr, "C13: an existing directory output is still named in the rewritten _outs")
	if !isStr {
		return
	}
	known := ""
	switch variant {
	case 1:
		known = "C13-path-output-trailing-slash"
	case 3:
		known = "C13-path-output-links-leaving-it"
	case 4:
		known = "C13-file-output-inside-path-output"
	}
	if known != "" && verifKnown(known) {
		return
	}
	_, d := vpResolve(path.Clean(q))
	verifAssert(d != nil && d.kind == 2, "C13: the rewritten _outs designates the directory")
	verifAssert(strings.HasPrefix(q, "/ps/outs/"), "C13: a directory output inside the pipestance is reported at its place under outs/")
	for name, inode := range names {
		verifAssert(vpReadThrough("/ps/outs/dir/"+name) == inode, "C13: every name inside a directory output reads the same content under outs/ as the stage wrote")
	}
	if variant == 4 {
		iq, ok := vpUnquote(vjTrim(top["inner"]))
		verifAssert(ok && vpReadThrough(iq) == 801, "C13: a file output which lies inside a directory output is still designated by the rewritten _outs")
		verifAssert(vpReadThrough("/ps/outs/inner.txt") == 801, "C13: a file output which lies inside a directory output is available under outs/")
	}
}

var vpOddKeys = []string{"ok", "b/c", "..", "x y"}

// H_C13_mapKeyNames(k): the typed-map output `named` has, next to the key "a",
// a second key which is or is not a legal file name (keys of a typed map of
// files become file names under outs/named/).
//
//	C13: the rewritten _outs keeps the shape: both keys are still there and
//	     each still designates its file - a key which cannot become a file name
//	     is not silently dropped from the record.
func H_C13_mapKeyNames(k int) {
	ps := vpGraph()
	vpFS = map[string]*vpNode{}
	vpWritten = nil
	for _, d := range []string{"/ps", "/ps/P", "/ps/P/S", "/ps/P/S/fork0", vpFilesDir} {
		vpFS[d] = &vpNode{kind: 2}
	}
	vpFS[vpFilesDir+"/fa"] = &vpNode{kind: 1, inode: 901}
	vpFS[vpFilesDir+"/fb"] = &vpNode{kind: 1, inode: 902}
	key := vpOddKeys[k]
	vpOutsRaw = []byte(`{"report":null,"n":7,"logs":[null,null],"st":{"f":null,"k":3},"named":{"a":"` + vpFilesDir + `/fa","` + key + `":"` + vpFilesDir + `/fb"}}`)
	ps.node.forks[0].postProcess(context.Background())
	verifCover("typed map with an odd key post-processed")
	if vpWritten == nil {
		verifAssert(false, "C13: the rewritten _outs is stored")
		return
	}
	doc, merr := vpWritten.MarshalJSON()
	var top, named LazyArgumentMap
	if merr != nil || vjUnmarshal(doc, &top) != nil || vjUnmarshal(top["named"], &named) != nil {
		verifAssert(false, "C13: the rewritten _outs has the shape of the outputs")
		return
	}
	for name, inode := range map[string]int{"a": 901, key: 902} {
		v, ok := named[name]
		verifAssert(ok, "C13: every key of a typed-map output is still in the rewritten _outs (the record keeps its shape)")
		if !ok {
			continue
		}
		q, isStr := vpUnquote(vjTrim(v))
		verifAssert(isStr && vpReadThrough(q) == inode, "C13: every entry of a typed-map output still designates its file")
	}
}
