//verif:native

package core

import "unicode/utf8"

// C18 — cluster job scripts reproduce values exactly.
//
// Oracle: POSIX sh double-quote semantics (XCU 2.2.3): inside "..." only
// $, `, \ are special; a backslash quotes only $ ` " \ and newline.

// posixDequote interprets q as exactly one double-quoted shell word and
// returns the string the shell would produce.  ok is false when the word
// is not closed exactly at the end, or when an unescaped $ or ` (parameter
// expansion / command substitution) is met.
func posixDequote(q []byte) (out []byte, ok bool) {
	n := len(q)
	if n < 2 || q[0] != '"' {
		return nil, false
	}
	i := 1
	for i < n {
		c := q[i]
		switch c {
		case '"':
			// closing quote: must be the last byte
			return out, i == n-1
		case '$', '`':
			return nil, false
		case '\\':
			if i+1 >= n {
				return nil, false
			}
			d := q[i+1]
			switch d {
			case '$', '`', '"', '\\':
				out = append(out, d)
			case '\n':
				// line continuation: removed
			default:
				out = append(out, '\\', d)
			}
			i += 2
			continue
		default:
			out = append(out, c)
		}
		i++
	}
	return nil, false
}

func hasNul(s string) bool {
	r := false
	for i := 0; i < len(s); i++ {
		r = verifAny(r, s[i] == 0)
	}
	return r
}

func hasByte(s string, c byte) bool {
	r := false
	for i := 0; i < len(s); i++ {
		r = verifAny(r, s[i] == c)
	}
	return r
}

// octalExpand is what the recorded finding C18-invalid-utf8 amounts to: each
// byte that is not part of a valid UTF-8 sequence comes back from the shell
// as the four characters \ooo instead of as itself.
func octalExpand(s string) string {
	var out []byte
	for len(s) > 0 {
		r, w := utf8.DecodeRuneInString(s)
		if r == utf8.RuneError && w == 1 {
			out = append(out, '\\', '0'+s[0]>>6, '0'+((s[0]>>3)&7), '0'+(s[0]&7))
		} else {
			out = append(out, s[:w]...)
		}
		s = s[w:]
	}
	return string(out)
}

// c18Want is the string sh must recover.  With the known finding enabled the
// expectation is relaxed for exactly the bytes the finding names, so that any
// other deviation is still reported.
func c18Want(s string) string {
	if verifKnown("C18-invalid-utf8") {
		return octalExpand(s)
	}
	return s
}

// H_C18_quote: for every string s of n bytes without NUL, a POSIX shell
// evaluating appendShellSafeQuote(s) as a word recovers exactly s.
func H_C18_quote(n int) {
	s := verifString("s", n)
	verifAssume(!hasNul(s))
	q := appendShellSafeQuote(nil, s)
	out, ok := posixDequote(q)
	verifCover("quoted")
	verifAssert(ok, "quoted word is one closed double-quoted word without live $ or `")
	if ok {
		verifAssert(string(out) == c18Want(s), "sh recovers the original string")
	}
}

// H_C18_shellSafeQuote: the string wrapper agrees with the append form.
func H_C18_shellSafeQuote(n int) {
	s := verifString("s", n)
	a := shellSafeQuote(s)
	b := string(appendShellSafeQuote(nil, s))
	verifCover("wrapped")
	verifAssert(a == b, "shellSafeQuote equals appendShellSafeQuote")
}

// shWords splits a script fragment of the shape formatArgs produces into
// shell words: words are separated by blanks or backslash-newline; a word is
// a run of unquoted name characters and double-quoted segments.
func shWords(b []byte) (words [][]byte, ok bool) {
	i, n := 0, len(b)
	for {
		// separators
		for i < n {
			if b[i] == ' ' {
				i++
			} else if b[i] == '\\' && i+1 < n && b[i+1] == '\n' {
				i += 2
			} else {
				break
			}
		}
		if i >= n {
			return words, true
		}
		var w []byte
		for i < n && b[i] != ' ' && !(b[i] == '\\' && i+1 < n && b[i+1] == '\n') {
			c := b[i]
			if c == '"' {
				// find the closing quote honouring backslash escapes
				j := i + 1
				for j < n && b[j] != '"' {
					if b[j] == '\\' {
						j++
					}
					j++
				}
				if j >= n {
					return nil, false
				}
				seg, segOK := posixDequote(b[i : j+1])
				if !segOK {
					return nil, false
				}
				w = append(w, seg...)
				i = j + 1
			} else if c >= 'A' && c <= 'Z' || c >= 'a' && c <= 'z' || c >= '0' && c <= '9' || c == '_' || c == '=' {
				w = append(w, c)
				i++
			} else {
				return nil, false // an unquoted shell metacharacter
			}
		}
		words = append(words, w)
	}
}

// H_C18_formatArgs: the argument/environment block of a job script yields
// exactly the assignment and argv it was built from.
func H_C18_formatArgs(nv, nc, na int) {
	v := verifString("v", nv)
	cmd := verifString("cmd", nc)
	arg := verifString("arg", na)
	verifAssume(!hasNul(v))
	verifAssume(!hasNul(cmd))
	verifAssume(!hasNul(arg))
	out := formatArgs(map[string]string{"MRO_K1": v}, cmd, []string{arg})
	words, ok := shWords([]byte(out))
	verifCover("formatted")
	verifAssert(ok, "formatArgs output splits into shell words without live metacharacters")
	if ok {
		verifAssert(len(words) == 3, "exactly one assignment, the command and one argument")
		if len(words) == 3 {
			verifAssert(string(words[0]) == "MRO_K1="+c18Want(v), "environment value recovered")
			verifAssert(string(words[1]) == c18Want(cmd), "command recovered")
			verifAssert(string(words[2]) == c18Want(arg), "argument recovered")
		}
	}
}

// H_C18_formatArgsOrder: two environment entries come out as two separate
// assignments, each with its own value, whatever the map iteration order.
func H_C18_formatArgsOrder(n int) {
	v1 := verifString("v1", n)
	v2 := verifString("v2", n)
	verifAssume(!hasNul(v1))
	verifAssume(!hasNul(v2))
	verifNondetMapOrder(true)
	out := formatArgs(map[string]string{"A": v1, "B": v2}, "c", nil)
	words, ok := shWords([]byte(out))
	verifCover("formatted2")
	verifAssert(ok, "two-entry environment block splits into shell words")
	if ok {
		verifAssert(len(words) == 3, "two assignments and the command")
		if len(words) == 3 {
			verifAssert(string(words[0]) == "A="+c18Want(v1), "first assignment (sorted) recovered")
			verifAssert(string(words[1]) == "B="+c18Want(v2), "second assignment recovered")
			verifAssert(string(words[2]) == "c", "command recovered after environment")
		}
	}
}
