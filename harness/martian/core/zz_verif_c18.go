//verif:native

package core

// C18 — cluster job scripts reproduce values exactly.
//
// Oracle: POSIX sh double-quote semantics (XCU 2.2.3): inside "..." only
// $, `, \ are special; a backslash quotes only $ ` " \ and newline.

// posixDequote interprets q as exactly one double-quoted shell word and
// returns the string the shell would produce.  ok is false when the word
// is not closed exactly at the end, or when an unescaped $ or ` (parameter
// expansion / command substitution) is met.
func posixDequote(q []byte) (out []byte, ok bool) {
	n := len(q)
	if n < 2 || q[0] != '"' {
		return nil, false
	}
	i := 1
	for i < n {
		c := q[i]
		switch c {
		case '"':
			// closing quote: must be the last byte
			return out, i == n-1
		case '$', '`':
			return nil, false
		case '\\':
			if i+1 >= n {
				return nil, false
			}
			d := q[i+1]
			switch d {
			case '$', '`', '"', '\\':
				out = append(out, d)
			case '\n':
				// line continuation: removed
			default:
				out = append(out, '\\', d)
			}
			i += 2
			continue
		default:
			out = append(out, c)
		}
		i++
	}
	return nil, false
}

func hasNul(s string) bool {
	r := false
	for i := 0; i < len(s); i++ {
		r = verifAny(r, s[i] == 0)
	}
	return r
}

func hasByte(s string, c byte) bool {
	r := false
	for i := 0; i < len(s); i++ {
		r = verifAny(r, s[i] == c)
	}
	return r
}

// knownC18 excludes the inputs of the recorded findings.
func c18Exclusions(s string) {
	if verifKnown("C18-backquote") {
		verifAssume(!hasByte(s, '`'))
	}
}

// H_C18_quote: for every string s of n bytes without NUL, a POSIX shell
// evaluating appendShellSafeQuote(s) as a word recovers exactly s.
func H_C18_quote(n int) {
	s := verifString("s", n)
	verifAssume(!hasNul(s))
	c18Exclusions(s)
	q := appendShellSafeQuote(nil, s)
	out, ok := posixDequote(q)
	verifCover("quoted")
	verifAssert(ok, "quoted word is one closed double-quoted word without live $ or `")
	if ok {
		verifAssert(string(out) == s, "sh recovers the original string")
	}
}

// H_C18_shellSafeQuote: the string wrapper agrees with the append form.
func H_C18_shellSafeQuote(n int) {
	s := verifString("s", n)
	a := shellSafeQuote(s)
	b := string(appendShellSafeQuote(nil, s))
	verifCover("wrapped")
	verifAssert(a == b, "shellSafeQuote equals appendShellSafeQuote")
}
