//verif:native

package core

import "unicode/utf8"

// C18 — cluster job scripts reproduce values exactly.
//
// Oracle: POSIX sh double-quote semantics (XCU 2.2.3): inside "..." only
// $, `, \ are special; a backslash quotes only $ ` " \ and newline.

// posixDequote interprets q as exactly one double-quoted shell word and
// returns the string the shell would produce.  ok is false when the word
// is not closed exactly at the end, or when an unescaped $ or ` (parameter
// expansion / command substitution) is met.
func posixDequote(q []byte) (out []byte, ok bool) {
	n := len(q)
	if n < 2 || q[0] != '"' {
		return nil, false
	}
	i := 1
	for i < n {
		c := q[i]
		switch c {
		case '"':
			// closing quote: must be the last byte
			return out, i == n-1
		case '$', '`':
			return nil, false
		case '\\':
			if i+1 >= n {
				return nil, false
			}
			d := q[i+1]
			switch d {
			case '$', '`', '"', '\\':
				out = append(out, d)
			case '\n':
				// line continuation: removed
			default:
				out = append(out, '\\', d)
			}
			i += 2
			continue
		default:
			out = append(out, c)
		}
		i++
	}
	return nil, false
}

func hasNul(s string) bool {
	r := false
	for i := 0; i < len(s); i++ {
		r = verifAny(r, s[i] == 0)
	}
	return r
}

func hasByte(s string, c byte) bool {
	r := false
	for i := 0; i < len(s); i++ {
		r = verifAny(r, s[i] == c)
	}
	return r
}

// octalExpand is what the recorded finding C18-invalid-utf8 amounts to: each
// byte that is not part of a valid UTF-8 sequence comes back from the shell
// as the four characters \ooo instead of as itself.
func octalExpand(s string) string {
	var out []byte
	for len(s) > 0 {
		r, w := utf8.DecodeRuneInString(s)
		if r == utf8.RuneError && w == 1 {
			out = append(out, '\\', '0'+s[0]>>6, '0'+((s[0]>>3)&7), '0'+(s[0]&7))
		} else {
			out = append(out, s[:w]...)
		}
		s = s[w:]
	}
	return string(out)
}

// c18Want is the string sh must recover.  With the known finding enabled the
// expectation is relaxed for exactly the bytes the finding names, so that any
// other deviation is still reported.
func c18Want(s string) string {
	if verifKnown("C18-invalid-utf8") {
		return octalExpand(s)
	}
	return s
}

// H_C18_quote: for every string s of n bytes without NUL, a POSIX shell
// evaluating appendShellSafeQuote(s) as a word recovers exactly s.
func H_C18_quote(n int) {
	s := verifString("s", n)
	verifAssume(!hasNul(s))
	q := appendShellSafeQuote(nil, s)
	out, ok := posixDequote(q)
	verifCover("quoted")
	verifAssert(ok, "quoted word is one closed double-quoted word without live $ or `")
	if ok {
		verifAssert(string(out) == c18Want(s), "sh recovers the original string")
	}
}

// H_C18_shellSafeQuote: the string wrapper agrees with the append form.
func H_C18_shellSafeQuote(n int) {
	s := verifString("s", n)
	a := shellSafeQuote(s)
	b := string(appendShellSafeQuote(nil, s))
	verifCover("wrapped")
	verifAssert(a == b, "shellSafeQuote equals appendShellSafeQuote")
}

// shWords splits a script fragment of the shape formatArgs produces into
// shell words: words are separated by blanks or backslash-newline; a word is
// a run of unquoted name characters and double-quoted segments.
func shWords(b []byte) (words [][]byte, ok bool) {
	i, n := 0, len(b)
	for {
		// separators
		for i < n {
			if b[i] == ' ' {
				i++
			} else if b[i] == '\\' && i+1 < n && b[i+1] == '\n' {
				i += 2
			} else {
				break
			}
		}
		if i >= n {
			return words, true
		}
		var w []byte
		for i < n && b[i] != ' ' && !(b[i] == '\\' && i+1 < n && b[i+1] == '\n') {
			c := b[i]
			if c == '"' {
				// find the closing quote honouring backslash escapes
				j := i + 1
				for j < n && b[j] != '"' {
					if b[j] == '\\' {
						j++
					}
					j++
				}
				if j >= n {
					return nil, false
				}
				seg, segOK := posixDequote(b[i : j+1])
				if !segOK {
					return nil, false
				}
				w = append(w, seg...)
				i = j + 1
			} else if c >= 'A' && c <= 'Z' || c >= 'a' && c <= 'z' || c >= '0' && c <= '9' || c == '_' || c == '=' {
				w = append(w, c)
				i++
			} else {
				return nil, false // an unquoted shell metacharacter
			}
		}
		words = append(words, w)
	}
}

// H_C18_formatArgs: the argument/environment block of a job script yields
// exactly the assignment and argv it was built from.
func H_C18_formatArgs(nv, nc, na int) {
	v := verifString("v", nv)
	cmd := verifString("cmd", nc)
	arg := verifString("arg", na)
	verifAssume(!hasNul(v))
	verifAssume(!hasNul(cmd))
	verifAssume(!hasNul(arg))
	out := formatArgs(map[string]string{"MRO_K1": v}, cmd, []string{arg})
	words, ok := shWords([]byte(out))
	verifCover("formatted")
	verifAssert(ok, "formatArgs output splits into shell words without live metacharacters")
	if ok {
		verifAssert(len(words) == 3, "exactly one assignment, the command and one argument")
		if len(words) == 3 {
			verifAssert(string(words[0]) == "MRO_K1="+c18Want(v), "environment value recovered")
			verifAssert(string(words[1]) == c18Want(cmd), "command recovered")
			verifAssert(string(words[2]) == c18Want(arg), "argument recovered")
		}
	}
}

// H_C18_formatArgsOrder: two environment entries come out as two separate
// assignments, each with its own value, whatever the map iteration order.
func H_C18_formatArgsOrder(n int) {
	v1 := verifString("v1", n)
	v2 := verifString("v2", n)
	verifAssume(!hasNul(v1))
	verifAssume(!hasNul(v2))
	verifNondetMapOrder(true)
	out := formatArgs(map[string]string{"A": v1, "B": v2}, "c", nil)
	words, ok := shWords([]byte(out))
	verifCover("formatted2")
	verifAssert(ok, "two-entry environment block splits into shell words")
	if ok {
		verifAssert(len(words) == 3, "two assignments and the command")
		if len(words) == 3 {
			verifAssert(string(words[0]) == "A="+c18Want(v1), "first assignment (sorted) recovered")
			verifAssert(string(words[1]) == "B="+c18Want(v2), "second assignment recovered")
			verifAssert(string(words[2]) == "c", "command recovered after environment")
		}
	}
}

// ---- the whole job script: template substitution around formatArgs ----

const c18Template = "#!/bin/sh\n" +
	"#$ -N __MRO_JOB_NAME__\n" +
	"#$ -pe threads __MRO_THREADS__\n" +
	"#$ -l mem_free=__MRO_MEM_GB__G\n" +
	"#$ -A __MRO_ACCOUNT__\n" +
	"#$ __MRO_RESOURCES__\n" +
	"#$ -o __MRO_STDOUT__\n" +
	"#$ -e __MRO_STDERR__\n" +
	"cd __MRO_JOB_WORKDIR__\n" +
	"__MRO_CMD__\n"

// the vocabulary of the template language itself: values and paths built from
// these must come through verbatim too
var c18Vocabulary = []string{
	"__MRO_MEM_GB__", "__MRO_ACCOUNT__", "__MRO_RESOURCES__", "__MRO_CMD__", "__MRO_THREADS__",
	"__MRO_STDOUT__", "__MRO_VMEM_GB__", "__MRO_JOB_NAME__", "__RESOURCES__",
}

func c18Lines(s string) [][]byte {
	var lines [][]byte
	start := 0
	b := []byte(s)
	for i := range b {
		if b[i] == '\n' {
			lines = append(lines, b[start:i])
			start = i + 1
		}
	}
	return append(lines, b[start:])
}

// H_C18_jobScript(word, where, n): an argument (where = 0), an environment
// value (1) or the pipestance path (2) is n arbitrary bytes followed by one of
// the template language's own parameter names.
//
//	C18: the job script is the template with every annotation replaced by its
//	     value once — values are never re-scanned — so the command line
//	     de-quotes to exactly the arguments and environment given, the
//	     stdout / stderr / workdir paths to exactly the metadata paths, and
//	     lines whose parameter has no value are dropped.
func H_C18_jobScript(word, where, n int) {
	pre := verifString("prefix", n)
	verifAssume(!hasNul(pre))
	verifAssume(!hasByte(pre, '\n')) // (paths and the line-based oracle below)
	val := pre + c18Vocabulary[word]
	arg, env, dir := "plain", "v", "/ps/P/S/fork0"
	switch where {
	case 0:
		arg = val
	case 1:
		env = val
	default:
		dir = "/ps/" + val
	}
	mgr := &RemoteJobManager{jobMode: "sge", jobResourcesMappings: map[string]string{}, memGBPerCore: 0}
	mgr.config = jobManagerConfig{
		jobSettings:      &JobManagerSettings{ThreadsPerJob: 1, MemGBPerJob: 4, ExtraVmemGB: 3},
		jobResourcesOpt:  "-l __RESOURCES__",
		jobTemplate:      c18Template,
		threadingEnabled: true,
	}
	md := NewMetadata("ID.ps.P.S.fork0", dir)
	md.curFilesPath = dir + "/files"
	script := mgr.jobScript("/m/mrjob", []string{arg}, map[string]string{"K": env}, md,
		&JobResources{Threads: 2, MemGB: 4}, "ID.ps.P.S.fork0", "main")
	verifCover("script generated")
	// (a line whose parameter is empty is blanked: its newline stays)
	var lines [][]byte
	for _, l := range c18Lines(script) {
		if len(l) > 0 {
			lines = append(lines, l)
		}
	}
	// MRO_ACCOUNT is unset in the engine and natively by default; no special resource requested
	want := []string{"#!/bin/sh", "#$ -N ID.ps.P.S.fork0.main", "#$ -pe threads 2", "#$ -l mem_free=4G"}
	for i, wl := range want {
		verifAssert(i < len(lines) && string(lines[i]) == wl, "C18: header annotations are replaced by their values; lines whose parameter is empty are dropped")
	}
	if len(lines) < 8 {
		verifAssert(false, "C18: the script keeps the lines of the template")
		return
	}
	rest := lines[4:]
	check := func(line []byte, prefix string, wantWord string, label string) {
		if len(line) < len(prefix) || string(line[:len(prefix)]) != prefix {
			verifAssert(false, label)
			return
		}
		words, ok := shWords(line[len(prefix):])
		verifAssert(ok && len(words) == 1 && string(words[0]) == c18Want(wantWord), label)
	}
	check(rest[0], "#$ -o ", md.MetadataFilePath("stdout"), "C18: the stdout path arrives verbatim")
	check(rest[1], "#$ -e ", md.MetadataFilePath("stderr"), "C18: the stderr path arrives verbatim")
	check(rest[2], "cd ", md.curFilesPath, "C18: the working directory arrives verbatim")
	// the command: environment assignments, the command, the argument (joined by backslash-newline)
	var cmd []byte
	for i, l := range rest[3:] {
		if i > 0 {
			cmd = append(cmd, '\n')
		}
		cmd = append(cmd, l...)
	}
	words, ok := shWords(cmd)
	verifAssert(ok, "C18: the command line splits into shell words without live metacharacters")
	if ok {
		n := len(words)
		verifAssert(n >= 3, "C18: environment, command and argument are all present")
		if n >= 3 {
			verifAssert(string(words[n-1]) == c18Want(arg), "C18: the argument arrives verbatim, even if it spells a template parameter")
			verifAssert(string(words[n-2]) == "/m/mrjob", "C18: the command arrives verbatim")
			found := false
			for _, w := range words[:n-2] {
				if string(w) == "K="+c18Want(env) {
					found = true
				}
			}
			verifAssert(found, "C18: the environment value arrives verbatim, even if it spells a template parameter")
		}
	}
}
