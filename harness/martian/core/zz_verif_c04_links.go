package core

// C04 — symlink-aware name expansion (getLogicalFileNames): every name under
// which a stage output can be reached must be known to VDR, so that a file
// held under one name is not deleted under another.
//
// File-system model (the stubs are its ground truth): the stage's files
// directory /ps/S/files contains a directory entry d which is a real
// directory or a symlink to /data/d, and inside it an entry f which is a
// regular file, a relative symlink to g (in the same directory), an absolute
// symlink to /data/x, a symlink to itself, or missing.  Which of these holds
// is arbitrary.

import (
	"errors"
	"os"
)

var (
	vlParentLink bool
	vlLeaf       int // 0 file, 1 rel link -> g, 2 abs link -> /data/x, 3 link to itself, 4 missing
)

type vlInfo struct {
	os.FileInfo
	mode os.FileMode
}

func (i vlInfo) Mode() os.FileMode { return i.mode }

const (
	vlDir      = "/ps/S/files/d"
	vlName     = "/ps/S/files/d/f"
	vlRealDir  = "/data/d"
	vlRealName = "/data/d/f"
)

func vlLeafOf(name string) (string, bool) {
	for _, d := range []string{vlDir, vlRealDir} {
		if len(name) > len(d)+1 && name[:len(d)+1] == d+"/" {
			if d == vlRealDir && !vlParentLink {
				return "", false
			}
			return name[len(d)+1:], true
		}
	}
	return "", false
}

//verif:stub os.Lstat
func vlLstat(name string) (os.FileInfo, error) {
	if name == vlDir {
		if vlParentLink {
			return vlInfo{mode: os.ModeSymlink | 0o777}, nil
		}
		return vlInfo{mode: os.ModeDir | 0o755}, nil
	}
	if name == vlRealDir && vlParentLink {
		return vlInfo{mode: os.ModeDir | 0o755}, nil
	}
	if name == "/data/x" {
		return vlInfo{mode: 0o644}, nil
	}
	if leaf, ok := vlLeafOf(name); ok {
		switch {
		case leaf == "f" && vlLeaf == 0, leaf == "g" && vlLeaf == 1:
			return vlInfo{mode: 0o644}, nil
		case leaf == "f" && vlLeaf >= 1 && vlLeaf <= 3:
			return vlInfo{mode: os.ModeSymlink | 0o777}, nil
		}
	}
	return nil, &os.PathError{Op: "lstat", Path: name, Err: os.ErrNotExist}
}

//verif:stub os.Readlink
func vlReadlink(name string) (string, error) {
	if name == vlDir && vlParentLink {
		return vlRealDir, nil
	}
	if leaf, ok := vlLeafOf(name); ok && leaf == "f" {
		switch vlLeaf {
		case 1:
			return "g", nil
		case 2:
			return "/data/x", nil
		case 3:
			return "f", nil
		}
	}
	return "", errors.New("readlink " + name + ": invalid argument")
}

// vlPhysical: where the model says name really lives (all links resolved).
func vlPhysical(name string) (string, bool) {
	leaf, ok := vlLeafOf(name)
	if !ok {
		return "", false
	}
	dir := vlDir
	if vlParentLink {
		dir = vlRealDir
	}
	switch {
	case leaf == "f" && vlLeaf == 0:
		return dir + "/f", true
	case leaf == "f" && vlLeaf == 1, leaf == "g" && vlLeaf == 1:
		return dir + "/g", true
	case leaf == "f" && vlLeaf == 2:
		return "/data/x", true
	}
	return "", false // missing, or a link to itself
}

//verif:stub path/filepath.EvalSymlinks
func vlEvalSymlinks(name string) (string, error) {
	if p, ok := vlPhysical(name); ok {
		return p, nil
	}
	return "", errors.New("evalsymlinks " + name + ": no such file or too many links")
}

func H_C04_logicalNames() {
	vlParentLink = verifBool("parent directory is a symlink")
	l := verifInt("leaf kind")
	verifAssume(verifAll(l >= 0, l <= 4))
	vlLeaf = verifConcretize(l)
	verifRecursionLimit(100)
	names := getLogicalFileNames(vlName)
	verifCover("names expanded")
	has := func(s string) bool {
		for _, n := range names {
			if n == s {
				return true
			}
		}
		return false
	}
	for i := range names {
		for j := range names {
			if i < j {
				verifAssert(names[i] != names[j], "C04: the logical names of a file are listed once each")
			}
		}
	}
	verifAssert(len(names) <= 6, "C04: name expansion terminates (a link to itself does not loop)")
	if vlLeaf == 4 {
		verifAssert(len(names) == 0, "C04: a file that does not exist has no names")
		return
	}
	verifAssert(has(vlName), "C04: the name the stage reported is a logical name of the file")
	if phys, ok := vlPhysical(vlName); ok {
		verifCover("resolvable file")
		verifAssert(has(phys), "C04: the physical location of the file (all symlinks resolved, also those of parent directories) is one of its logical names")
	}
	if vlLeaf == 1 {
		verifAssert(has(vlDir+"/g"), "C04: the target of a relative link, as seen through the reported directory, is a logical name")
	}
	if vlLeaf == 2 {
		verifAssert(has("/data/x"), "C04: the target of an absolute link is a logical name")
	}
}
