package core

// C01 — stage arguments and pipeline outputs equal the MRO dataflow semantics,
// on a pipeline instantiated by the real compiler and runtime.
//
// The MRO text below is parsed, compiled and instantiated by the real code
// (as in zz_verif_sched.go).  The harness then plays the jobs: it decides
// which upstream forks have written _outs and what they contain — array
// lengths 1..3 (concretised), leaf values arbitrary decimal digits (symbolic
// bytes) — and runs the real Node.expandForks, Node.resolveInputs (TopNode.
// resolve, resolveRef, resolveSplit, resolveMerge, matchFork(s),
// LazyArgumentMap.Path, the types' FilterJson) and resolvePipelineOutputs.
// The oracle is what the MRO text says each call receives.
//
// Environment model (part of the claim): Metadata.read returns the _outs the
// harness chose (or "does not exist"); encoding/json.Unmarshal and
// json.Marshal are replaced by vjUnmarshal / vjMarshal below, a reference
// decoder for exactly the well-formed value shapes the harness produces
// (digits, true/false, flat arrays and objects of those); anything else
// panics and would be reported.

import (
	"strconv"
	"bytes"
	"context"
	"encoding/json"
	"errors"
	"fmt"
	"os"
	"path/filepath"
	"runtime/trace"
	"strings"

	"github.com/martian-lang/martian/martian/syntax"
)

//verif:stub os.Stat
func vrStat(name string) (os.FileInfo, error) { return nil, errors.New("no such file") }

// the few plain files a re-attach reads (H_C15_reattachText)
var vrFiles map[string]string

//verif:stub os.ReadFile
func vrReadFile(name string) ([]byte, error) {
	if text, ok := vrFiles[name]; ok {
		return []byte(text), nil
	}
	return nil, os.ErrNotExist
}

// directories are created for forks that turn out to be empty (disabled)
//
//verif:stub os.Mkdir
func vrMkdir(name string, perm os.FileMode) error { return nil }

//verif:stub os.MkdirAll
func vrMkdirAll(name string, perm os.FileMode) error { return nil }

// ... and marked disabled
var vrWritten []string

//verif:stub os.WriteFile
func vrWriteFile(name string, data []byte, perm os.FileMode) error {
	vrWritten = append(vrWritten, name)
	return nil
}

//verif:stub runtime/trace.StartRegion
func vrStartRegion(ctx context.Context, regionType string) *trace.Region { return nil }

//verif:stub (*runtime/trace.Region).End
func vrRegionEnd(r *trace.Region) {}

//verif:stub github.com/martian-lang/martian/martian/util.LogInfo
func vrLogInfo(component string, format string, v ...interface{}) {}

// ---- the _outs files

var vrOuts map[*Metadata]LazyArgumentMap

//verif:stub (*github.com/martian-lang/martian/martian/core.Metadata).read
func vrRead(self *Metadata, name MetadataFileName, limit int64) (LazyArgumentMap, error) {
	if name == OutsFile {
		if m, ok := vrOuts[self]; ok {
			return m, nil
		}
	}
	return nil, &os.PathError{Op: "open", Path: self.MetadataFilePath(name), Err: os.ErrNotExist}
}

// ---- reference JSON model for the shapes the harness produces

func vjTrim(b []byte) []byte { return bytes.TrimSpace(b) }

// vjSplit splits the inside of a flat [...] or {...} at top-level commas.
func vjSplit(b []byte) [][]byte {
	var parts [][]byte
	depth, start := 0, 0
	if len(b) == 0 {
		return nil
	}
	for i := 0; i < len(b); i++ {
		switch b[i] {
		case '[', '{':
			depth++
		case ']', '}':
			depth--
		case '"':
			// a key of a nested object: skip to the closing quote
			for i++; b[i] != '"'; i++ {
				if b[i] == '\\' {
					panic("json model: escapes are not modelled")
				}
			}
		case ',':
			if depth == 0 {
				parts = append(parts, b[start:i])
				start = i + 1
			}
		}
	}
	return append(parts, b[start:])
}

func vjIsNumber(b []byte) bool {
	if len(b) == 0 {
		return false
	}
	ok := true
	for _, c := range b {
		ok = verifAll(ok, c >= '0', c <= '9')
	}
	return ok
}

// vjIsFloat: digits, optionally followed by a fraction (the number forms the
// fixtures use).
func vjIsFloat(b []byte) bool {
	for i, c := range b {
		if c == '.' {
			return i > 0 && vjIsNumber(b[:i]) && vjIsNumber(b[i+1:])
		}
	}
	return vjIsNumber(b)
}

//verif:stub encoding/json.Unmarshal
func vjUnmarshal(data []byte, v any) error {
	data = vjTrim(data)
	if len(data) == 0 {
		return errors.New("unexpected end of JSON input")
	}
	isNull := bytes.Equal(data, []byte("null"))
	switch p := v.(type) {
	case *int64:
		if isNull {
			return nil
		}
		if !vjIsNumber(data) {
			return errors.New("json: cannot unmarshal into int64")
		}
		return nil // the value itself is never used by the callers
	case *float64:
		if isNull {
			return nil
		}
		if !vjIsFloat(data) {
			return errors.New("json: cannot unmarshal into float64")
		}
		return nil
	case *bool:
		switch {
		case isNull:
		case bytes.Equal(data, []byte("true")):
			*p = true
		case bytes.Equal(data, []byte("false")):
			*p = false
		default:
			return errors.New("json: cannot unmarshal into bool")
		}
		return nil
	case *[]json.RawMessage:
		if isNull {
			*p = nil
			return nil
		}
		if data[0] != '[' || data[len(data)-1] != ']' {
			return errors.New("json: cannot unmarshal into array")
		}
		res := []json.RawMessage{}
		for _, e := range vjSplit(data[1 : len(data)-1]) {
			res = append(res, json.RawMessage(vjTrim(e)))
		}
		*p = res
		return nil
	case *string:
		if isNull {
			return nil
		}
		if len(data) < 2 || data[0] != '"' || data[len(data)-1] != '"' {
			return errors.New("json: cannot unmarshal into string")
		}
		for _, c := range data[1 : len(data)-1] {
			if c == '\\' || c == '"' || c < 0x20 {
				panic("json model: only plain strings")
			}
		}
		*p = string(data[1 : len(data)-1])
		return nil
	case *map[string]json.RawMessage:
		m, err := vjObject(data, isNull)
		*p = m
		return err
	case *LazyArgumentMap:
		m, err := vjObject(data, isNull)
		*p = m
		return err
	}
	if u, ok := v.(json.Unmarshaler); ok {
		// encoding/json hands the raw value to the type's own decoder
		return u.UnmarshalJSON(data)
	}
	panic(fmt.Sprintf("json model: unsupported Unmarshal target %T", v))
}

func vjObject(data []byte, isNull bool) (map[string]json.RawMessage, error) {
	if isNull {
		return nil, nil
	}
	if data[0] != '{' || data[len(data)-1] != '}' {
		return nil, errors.New("json: cannot unmarshal into object")
	}
	// flat objects with plain keys: {"k":value,...}; keys are concrete
	m := map[string]json.RawMessage{}
	b := data[1 : len(data)-1]
	for i := 0; i < len(b); {
		for i < len(b) && (b[i] == ' ' || b[i] == ',' || b[i] == '\n') {
			i++
		}
		if i >= len(b) {
			break
		}
		if b[i] != '"' {
			panic("json model: object key expected")
		}
		j := i + 1
		for b[j] != '"' {
			if b[j] == '\\' {
				panic("json model: escaped keys are not modelled")
			}
			j++
		}
		key := string(b[i+1 : j])
		j++
		for b[j] == ' ' {
			j++
		}
		if b[j] != ':' {
			panic("json model: ':' expected")
		}
		j++
		depth, k := 0, j
		for ; k < len(b); k++ {
			c := b[k]
			if c == '[' || c == '{' {
				depth++
			} else if c == ']' || c == '}' {
				depth--
			} else if c == ',' && depth == 0 {
				break
			}
		}
		m[key] = json.RawMessage(vjTrim(b[j:k]))
		i = k
	}
	return m, nil
}

//verif:stub encoding/json.Marshal
func vjMarshal(v any) ([]byte, error) {
	switch x := v.(type) {
	case string:
		for i := 0; i < len(x); i++ {
			if c := x[i]; c < 0x20 || c == '"' || c == '\\' || c >= 0x7f {
				panic("json model: only plain ASCII keys are modelled")
			}
		}
		return []byte("\"" + x + "\""), nil
	case json.Marshaler:
		return x.MarshalJSON()
	case *int64:
		return strconv.AppendInt(nil, *x, 10), nil
	}
	panic(fmt.Sprintf("json model: unsupported Marshal argument %T", v))
}

// ---- the program

const vrSrc = `
stage GEN(
    in  int   n,
    out int[] xs,
    out int   v,
    src comp  "bin",
)

stage WORK(
    in  int x,
    in  int c,
    out int y,
    src comp "bin",
)

stage SUM(
    in  int[] ys,
    in  int   v,
    out int   s,
    src comp  "bin",
)

pipeline P(
    in  int   n,
    out int[] ys,
    out int   s,
)
{
    call GEN(
        n = self.n,
    )

    map call WORK(
        x = split GEN.xs,
        c = GEN.v,
    )

    call SUM(
        ys = WORK.y,
        v  = GEN.v,
    )

    return (
        ys = WORK.y,
        s  = SUM.s,
    )
}

call P(
    n = 3,
)
`

type vrReal struct {
	ps             *Pipestance
	gen, work, sum *Node
}

func vrGraph() *vrReal {
	disableUniquification = false
	return verifCached("vrGraph", func() any {
		rt := &Runtime{Config: &RuntimeOptions{JobMode: "local", VdrMode: VdrDisable}, mrjob: "/m/mrjob", adaptersPath: "/m/adapters"}
		_, _, ps, err := rt.instantiatePipeline([]byte(vrSrc), "/m/p.mro", "ps", "/ps", nil, "none", nil, false, true, context.Background())
		if err != nil {
			panic("fixture does not instantiate: " + err.Error())
		}
		n := func(name string) *Node {
			x := ps.node.top.allNodes["ID.ps.P."+name]
			if x == nil {
				panic("fixture has no node " + name)
			}
			return x
		}
		return &vrReal{ps, n("GEN"), n("WORK"), n("SUM")}
	}).(*vrReal)
}

// vrDigit: an arbitrary one-digit JSON number.
func vrDigit(name string) json.RawMessage {
	b := verifBytes(name, 1)
	verifAssume(verifAll(b[0] >= '0', b[0] <= '9'))
	return json.RawMessage(b)
}

func vrArray(elems []json.RawMessage) json.RawMessage {
	out := []byte{'['}
	for i, e := range elems {
		if i > 0 {
			out = append(out, ',')
		}
		out = append(out, e...)
	}
	return append(out, ']')
}

func vrEncode(m json.Marshaler) []byte {
	b, err := m.MarshalJSON()
	if err != nil {
		panic("cannot encode: " + err.Error())
	}
	var buf bytes.Buffer
	for _, c := range b {
		if c != ' ' && c != '\n' && c != '\t' {
			buf.WriteByte(c)
		}
	}
	return buf.Bytes()
}

// H_C01_dataflow(n): GEN produced an array of n elements and a scalar.
func H_C01_dataflow(n int) {
	w := vrGraph()
	vrOuts = map[*Metadata]LazyArgumentMap{}
	xs := make([]json.RawMessage, n)
	for i := range xs {
		xs[i] = vrDigit("xs")
	}
	v := vrDigit("v")
	// before GEN has finished nothing downstream is ready
	_, _, err := w.work.resolveInputs(w.work.forks[0].forkId, false)
	_ = err
	vrOuts[w.gen.forks[0].metadata] = LazyArgumentMap{"xs": vrArray(xs), "v": v}
	w.work.expandForks(true)
	verifCover("forks expanded")
	vrUniqueForks(w.work)
	verifAssert(len(w.work.forks) == n, "C01/C03: a map call over a run-time array has one fork per element")
	for i, f := range w.work.forks {
		_, args, err := w.work.resolveInputs(f.forkId, false)
		verifAssert(err == nil, "C01: the inputs of a map-call fork resolve once the producer finished")
		if err != nil {
			return
		}
		want := append(append(append([]byte(`{"c":`), v...), `,"x":`...), xs[i]...)
		want = append(want, '}')
		verifAssert(verifBytesEq(vrEncode(args), want), "C01: fork i of a map call receives element i of the split array and the unsplit arguments whole")
	}
	// the WORK forks finish in any order; some may not have finished
	ys := make([]json.RawMessage, n)
	all := true
	for i, f := range w.work.forks {
		ys[i] = vrDigit("y")
		if verifBool("WORK fork finished") {
			vrOuts[f.metadata] = LazyArgumentMap{"y": ys[i]}
		} else {
			all = false
		}
	}
	rb := w.sum.call.ResolvedInputs()["ys"]
	ready, _, _ := w.ps.node.top.resolve(rb.Exp, rb.Type, w.sum.forks[0].forkId, 1<<30)
	verifAssert(ready == all, "C01: a value merged from a mapped call is ready exactly when every fork has produced its output")
	_, args, err := w.sum.resolveInputs(w.sum.forks[0].forkId, false)
	if all {
		verifCover("merge resolved")
		verifAssert(err == nil, "C01: a merged input resolves once every fork finished")
		if err == nil {
			want := append(append(append([]byte(`{"v":`), v...), `,"ys":`...), vrArray(ys)...)
			want = append(want, '}')
			verifAssert(verifBytesEq(vrEncode(args), want), "C01: a call bound to a mapped call's output receives all fork outputs in fork order")
		}
		outs, _, err := w.ps.node.resolvePipelineOutputs(nil)
		_ = outs
		_ = err
	}
}

// ---- a map call over a run-time array nested inside a mapped pipeline ----

const vrNestedSrc = `
stage GEN(
    in  int[] what,
    out int[] result,
    src comp  "bin",
)

stage WORK(
    in  int  what,
    out int  result,
    src comp "bin",
)

stage COLLECT(
    in  int[] what,
    out int[] result,
    src comp  "bin",
)

pipeline INNER(
    in  int[] vals,
    out int[] ws,
    out int[] direct,
)
{
    call GEN(
        what = self.vals,
    )

    map call WORK(
        what = split GEN.result,
    )

    call COLLECT(
        what = WORK.result,
    )

    return (
        ws     = COLLECT.result,
        direct = WORK.result,
    )
}

pipeline OUTER(
    in  int[][] vss,
    out INNER[] r,
)
{
    map call INNER(
        vals = split self.vss,
    )

    return (
        r = INNER,
    )
}

call OUTER(
    vss = [
        [1],
        [2],
    ],
)
`

type vrNested struct {
	ps                 *Pipestance
	gen, work, collect *Node
}

func vrNestedGraph() *vrNested {
	disableUniquification = false
	return verifCached("vrNestedGraph", func() any {
		rt := &Runtime{Config: &RuntimeOptions{JobMode: "local", VdrMode: VdrDisable}, mrjob: "/m/mrjob", adaptersPath: "/m/adapters"}
		_, _, ps, err := rt.instantiatePipeline([]byte(vrNestedSrc), "/m/p.mro", "ps", "/ps", nil, "none", nil, false, true, context.Background())
		if err != nil {
			panic("fixture does not instantiate: " + err.Error())
		}
		n := func(name string) *Node {
			x := ps.node.top.allNodes["ID.ps.OUTER.INNER."+name]
			if x == nil {
				panic("fixture has no node " + name)
			}
			return x
		}
		return &vrNested{ps, n("GEN"), n("WORK"), n("COLLECT")}
	}).(*vrNested)
}

// H_C01_nested(n0, n1, order): INNER is mapped over two elements; its GEN
// fork i produced an array of n_i arbitrary digits; the GEN forks finish in
// the given order (0: fork 0 first, 1: fork 1 first, 2: both before the
// runtime looks), the runtime expanding WORK's forks after each, as the run
// loop does.
//
//	C01/C03: WORK runs exactly once per element of each inner array and
//	receives that element; COLLECT fork i receives exactly the outputs of the
//	WORK forks of its own INNER fork, in order.
func H_C01_nested(n0, n1, order int) {
	w := vrNestedGraph()
	vrOuts = map[*Metadata]LazyArgumentMap{}
	verifAssert(len(w.gen.forks) == 2, "C01/C03: a pipeline mapped over two elements has two forks of every call inside")
	ns := [2]int{n0, n1}
	var xs [2][]json.RawMessage
	for i := 0; i < 2; i++ {
		xs[i] = make([]json.RawMessage, ns[i])
		for j := range xs[i] {
			xs[i][j] = vrDigit("element")
		}
	}
	finish := func(i int) {
		vrOuts[w.gen.forks[i].metadata] = LazyArgumentMap{"result": vrArray(xs[i])}
	}
	switch order {
	case 0:
		finish(0)
		w.work.expandForks(false)
		finish(1)
	case 1:
		finish(1)
		w.work.expandForks(false)
		finish(0)
	default:
		finish(0)
		finish(1)
	}
	w.work.expandForks(true)
	verifCover("nested forks expanded")
	vrUniqueForks(w.work)
	verifAssert(len(w.work.forks) == n0+n1, "C01/C03: the inner map call has one fork per element of every inner array")
	// every WORK fork receives one element; collect what each outer fork's
	// WORK invocations received, by position
	var seen [2][]bool
	seen[0], seen[1] = make([]bool, n0), make([]bool, n1)
	for _, f := range w.work.forks {
		_, args, err := w.work.resolveInputs(f.forkId, false)
		verifAssert(err == nil, "C01: the inputs of every inner fork resolve")
		if err != nil {
			return
		}
		verifAssert(len(f.forkId) == 2, "C01/C03: an inner fork is identified by its outer and inner index")
		if len(f.forkId) != 2 {
			return
		}
		oi, ok1 := f.forkId[0].Id.(arrayIndexFork)
		ii, ok2 := f.forkId[1].Id.(arrayIndexFork)
		verifAssert(ok1 && ok2, "C01/C03: after expansion both indices of an inner fork are known")
		outer, inner := int(oi), int(ii)
		if !ok1 || !ok2 || outer < 0 || outer > 1 || inner < 0 || inner >= ns[outer] {
			verifAssert(false, "C01/C03: fork indices are within the arrays")
			return
		}
		verifAssert(!seen[outer][inner], "C01/C03: no element is processed twice")
		seen[outer][inner] = true
		want := append(append([]byte(`{"what":`), xs[outer][inner]...), '}')
		verifAssert(verifBytesEq(vrEncode(args), want), "C01: the fork for element j of outer fork i receives exactly that element")
		// the job echoes a fresh arbitrary digit
		vrOuts[f.metadata] = LazyArgumentMap{"result": vrDigit("work result")}
	}
	for i := 0; i < 2; i++ {
		for j := range seen[i] {
			verifAssert(seen[i][j], "C01/C03: every element is processed")
		}
	}
	w.collect.expandForks(true)
	verifAssert(len(w.collect.forks) == 2, "C01/C03: COLLECT runs once per outer fork")
	for i, f := range w.collect.forks {
		_, args, err := w.collect.resolveInputs(f.forkId, false)
		verifAssert(err == nil, "C01: the merged inputs resolve")
		if err != nil {
			return
		}
		// the WORK outputs of outer fork i, in inner order
		ys := make([]json.RawMessage, ns[i])
		for _, wf := range w.work.forks {
			o := int(wf.forkId[0].Id.(arrayIndexFork))
			k := int(wf.forkId[1].Id.(arrayIndexFork))
			if o == i {
				ys[k] = vrOuts[wf.metadata]["result"]
			}
		}
		want := append(append([]byte(`{"what":`), vrArray(ys)...), '}')
		verifAssert(verifBytesEq(vrEncode(args), want), "C01: a merge inside a mapped pipeline collects exactly the forks of its own outer fork, in order")
		verifCover("nested merge resolved")
		// COLLECT echoes what it received
		vrOuts[f.metadata] = LazyArgumentMap{"result": vrArray(ys)}
	}
	// the top-level outputs: one entry per outer element, each with the WORK
	// results of that outer fork (directly, and as collected)
	outs, _, err := w.ps.node.resolvePipelineOutputs(nil)
	verifAssert(err == nil && outs != nil, "C01: the pipeline's outputs resolve once every stage has finished")
	if err != nil || outs == nil {
		return
	}
	want := []byte(`{"r":[`)
	for i := 0; i < 2; i++ {
		ys := make([]json.RawMessage, ns[i])
		for _, wf := range w.work.forks {
			if int(wf.forkId[0].Id.(arrayIndexFork)) == i {
				ys[int(wf.forkId[1].Id.(arrayIndexFork))] = vrOuts[wf.metadata]["result"]
			}
		}
		if i > 0 {
			want = append(want, ',')
		}
		want = append(want, `{"direct":`...)
		want = append(want, vrArray(ys)...)
		want = append(want, `,"ws":`...)
		want = append(want, vrArray(ys)...)
		want = append(want, '}')
	}
	want = append(want, `]}`...)
	verifCover("nested pipeline outputs resolved")
	verifAssert(verifBytesEq(vrEncode(outs), want), "C01: the outputs of a mapped pipeline are one entry per element it was mapped over, each holding that fork's results (also those merged from an inner mapped call)")
}

// ---- typed-map split, struct projection, disabled call, literals, pipeline outputs ----

const vrMixSrc = `
struct ST(
    int a,
    int b,
)

stage GEN(
    in  int      n,
    out map<int> m,
    out ST       st,
    out bool     flag,
    out int      v,
    src comp     "bin",
)

stage W(
    in  int x,
    out int y,
    src comp "bin",
)

stage DIS(
    in  int x,
    out int y,
    src comp "bin",
)

stage USE(
    in  map<int> ys,
    in  int      a,
    in  int[]    lit,
    in  int      d,
    out int      o,
    src comp     "bin",
)

pipeline P(
    in  int      n,
    out map<int> ys,
    out int      a,
    out int      dy,
)
{
    call GEN(
        n = self.n,
    )

    map call W(
        x = split GEN.m,
    )

    call DIS(
        x = GEN.v,
    ) using (
        disabled = GEN.flag,
    )

    call USE(
        ys  = W.y,
        a   = GEN.st.a,
        lit = [
            GEN.v,
            5,
        ],
        d   = DIS.y,
    )

    return (
        ys = W.y,
        a  = GEN.st.a,
        dy = DIS.y,
    )
}

call P(
    n = 3,
)
`

type vrMix struct {
	ps               *Pipestance
	gen, w, dis, use *Node
}

func vrMixGraph() *vrMix {
	disableUniquification = false
	return verifCached("vrMixGraph", func() any {
		rt := &Runtime{Config: &RuntimeOptions{JobMode: "local", VdrMode: VdrDisable}, mrjob: "/m/mrjob", adaptersPath: "/m/adapters"}
		_, _, ps, err := rt.instantiatePipeline([]byte(vrMixSrc), "/m/p.mro", "ps", "/ps", nil, "none", nil, false, true, context.Background())
		if err != nil {
			panic("fixture does not instantiate: " + err.Error())
		}
		n := func(name string) *Node {
			x := ps.node.top.allNodes["ID.ps.P."+name]
			if x == nil {
				panic("fixture has no node " + name)
			}
			return x
		}
		return &vrMix{ps, n("GEN"), n("W"), n("DIS"), n("USE")}
	}).(*vrMix)
}

var vrKeys = []string{"k1", "k2", "k3"}

func vrCat(parts ...[]byte) []byte {
	var out []byte
	for _, p := range parts {
		out = append(out, p...)
	}
	return out
}

// H_C01_mix(nkeys): GEN produced a typed map with nkeys keys, a struct, a
// flag and a scalar, all leaf values arbitrary.
func H_C01_mix(nkeys int) {
	w := vrMixGraph()
	vrOuts = map[*Metadata]LazyArgumentMap{}
	vals := make([]json.RawMessage, nkeys)
	m := []byte{'{'}
	for i := 0; i < nkeys; i++ {
		vals[i] = vrDigit("m value")
		if i > 0 {
			m = append(m, ',')
		}
		m = vrCat(m, []byte(`"`+vrKeys[i]+`":`), vals[i])
	}
	m = append(m, '}')
	a, b, v := vrDigit("st.a"), vrDigit("st.b"), vrDigit("v")
	flag := verifBool("flag")
	flagJSON := json.RawMessage("false")
	if flag {
		flagJSON = json.RawMessage("true")
	}
	vrOuts[w.gen.forks[0].metadata] = LazyArgumentMap{
		"m": json.RawMessage(m), "st": json.RawMessage(vrCat([]byte(`{"a":`), a, []byte(`,"b":`), b, []byte(`}`))),
		"flag": flagJSON, "v": v,
	}
	w.w.expandForks(true)
	verifCover("map forks expanded")
	vrUniqueForks(w.w)
	verifAssert(len(w.w.forks) == nkeys, "C01/C03: a map call over a run-time typed map has one fork per key")
	ys := make([]json.RawMessage, nkeys)
	for _, f := range w.w.forks {
		if len(f.forkId) != 1 {
			verifAssert(false, "C01/C03: a singly mapped call has a one-part fork id")
			return
		}
		key, ok := f.forkId[0].Id.(mapKeyFork)
		verifAssert(ok, "C01/C03: the forks of a map call over a map are identified by key")
		idx := -1
		for i := 0; i < nkeys; i++ {
			if string(key) == vrKeys[i] {
				idx = i
			}
		}
		if idx < 0 || ys[idx] != nil {
			verifAssert(false, "C01/C03: exactly one fork per key of the map")
			return
		}
		_, args, err := w.w.resolveInputs(f.forkId, false)
		verifAssert(err == nil, "C01: the inputs of a map-call fork resolve")
		if err != nil {
			return
		}
		verifAssert(verifBytesEq(vrEncode(args), vrCat([]byte(`{"x":`), vals[idx], []byte(`}`))), "C01: the fork for key k receives the value stored under k")
		ys[idx] = vrDigit("W result")
		vrOuts[f.metadata] = LazyArgumentMap{"y": ys[idx]}
	}
	// DIS: disabled exactly when GEN.flag is true
	dy := json.RawMessage("null")
	if !flag {
		_, args, err := w.dis.resolveInputs(w.dis.forks[0].forkId, false)
		verifAssert(err == nil, "C01: DIS inputs resolve")
		if err == nil {
			verifAssert(verifBytesEq(vrEncode(args), vrCat([]byte(`{"x":`), v, []byte(`}`))), "C01: a plain reference passes the producer's value")
		}
		dy = vrDigit("DIS result")
		vrOuts[w.dis.forks[0].metadata] = LazyArgumentMap{"y": dy}
	} else {
		verifCover("call disabled")
		dis, err := w.dis.forks[0].disabled()
		verifAssert(err == nil && dis, "C01/C03: a call whose disabling condition evaluates to true is disabled")
	}
	ym := []byte{'{'}
	for i := 0; i < nkeys; i++ {
		if i > 0 {
			ym = append(ym, ',')
		}
		ym = vrCat(ym, []byte(`"`+vrKeys[i]+`":`), ys[i])
	}
	ym = append(ym, '}')
	_, args, err := w.use.resolveInputs(w.use.forks[0].forkId, false)
	verifAssert(err == nil, "C01: the inputs of the consumer resolve")
	if err != nil {
		return
	}
	verifCover("consumer resolved")
	want := vrCat([]byte(`{"a":`), a, []byte(`,"d":`), dy, []byte(`,"lit":[`), v, []byte(`,5],"ys":`), ym, []byte(`}`))
	verifAssert(verifBytesEq(vrEncode(args), want), "C01: struct projection, literal array with a reference, merged typed map and the (null if disabled) output of a disabled call arrive as the MRO text says")
	outs, _, err := w.ps.node.resolvePipelineOutputs(nil)
	verifAssert(err == nil, "C01: the pipeline outputs resolve")
	if err == nil {
		wantOuts := vrCat([]byte(`{"a":`), a, []byte(`,"dy":`), dy, []byte(`,"ys":`), ym, []byte(`}`))
		verifAssert(verifBytesEq(vrEncode(outs), wantOuts), "C01: the pipeline outputs are the bound values")
		verifCover("pipeline outputs resolved")
	}
}

// ---- a typed-map map call inside an array-mapped pipeline (static sources) ----

const vrArrMapSrc = `
stage LEAF(
    in  int x,
    out int y,
    src comp "bin",
)

stage SUMMARY(
    in  map<int>[] ys,
    out int        o,
    src comp       "bin",
)

pipeline MID(
    in  map<int> xs,
    out map<int> ys,
)
{
    map call LEAF(
        x = split self.xs,
    )

    return (
        ys = LEAF.y,
    )
}

pipeline TOP(
    out int o,
)
{
    map call MID(
        xs = split [
            {
                "p": 1,
                "q": 2,
            },
            {
                "p": 3,
                "q": 4,
            },
        ],
    )

    call SUMMARY(
        ys = MID.ys,
    )

    return (
        o = SUMMARY.o,
    )
}

call TOP()
`

type vrArrMap struct {
	ps            *Pipestance
	leaf, summary *Node
}

func vrArrMapGraph() *vrArrMap {
	disableUniquification = false
	return verifCached("vrArrMapGraph", func() any {
		rt := &Runtime{Config: &RuntimeOptions{JobMode: "local", VdrMode: VdrDisable}, mrjob: "/m/mrjob", adaptersPath: "/m/adapters"}
		_, _, ps, err := rt.instantiatePipeline([]byte(vrArrMapSrc), "/m/p.mro", "ps", "/ps", nil, "none", nil, false, true, context.Background())
		if err != nil {
			panic("fixture does not instantiate: " + err.Error())
		}
		return &vrArrMap{ps, ps.node.top.allNodes["ID.ps.TOP.MID.LEAF"], ps.node.top.allNodes["ID.ps.TOP.SUMMARY"]}
	}).(*vrArrMap)
}

// vrUniqueForks: the forks of one node never share a name, directory or
// journal name (C11), whatever the shape of their ids.
func vrUniqueForks(n *Node) {
	for i, f := range n.forks {
		for j, g := range n.forks {
			if i < j {
				verifAssert(f.fqname != g.fqname && f.path != g.path, "C11: two forks of one call never share a name or a directory")
				verifAssert(f.split_metadata.journalPath != g.split_metadata.journalPath, "C11: two forks of one call never share a journal name")
			}
		}
	}
}

// H_C01_arrayOfMaps: LEAF is mapped over the keys of a map which is itself an
// element of the array MID is mapped over.
//
//	C01/C03: one LEAF fork per (element, key), each receiving that value; the
//	consumer receives an array of maps of the LEAF outputs.  C11: distinct names.
func H_C01_arrayOfMaps() {
	w := vrArrMapGraph()
	vrOuts = map[*Metadata]LazyArgumentMap{}
	w.leaf.expandForks(true)
	verifCover("array-of-maps forks")
	verifAssert(len(w.leaf.forks) == 4, "C01/C03: one fork per element of the outer array and key of the inner map")
	vrUniqueForks(w.leaf)
	want := [2][2]byte{{'1', '2'}, {'3', '4'}}
	var ys [2][2]json.RawMessage
	for _, f := range w.leaf.forks {
		if len(f.forkId) != 2 {
			verifAssert(false, "C01/C03: the fork id has an outer and an inner part")
			return
		}
		oi, ok1 := f.forkId[0].Id.(arrayIndexFork)
		ki, ok2 := f.forkId[1].Id.(mapKeyFork)
		verifAssert(ok1 && ok2 && int(oi) >= 0 && int(oi) < 2 && (ki == "p" || ki == "q"), "C01/C03: forks are identified by array index and map key")
		if !(ok1 && ok2 && int(oi) >= 0 && int(oi) < 2 && (ki == "p" || ki == "q")) {
			return
		}
		k := 0
		if ki == "q" {
			k = 1
		}
		verifAssert(ys[oi][k] == nil, "C01/C03: no (element, key) pair is processed twice")
		_, args, err := w.leaf.resolveInputs(f.forkId, false)
		verifAssert(err == nil, "C01: the inputs of every fork resolve")
		if err != nil {
			return
		}
		verifAssert(verifBytesEq(vrEncode(args), []byte{'{', '"', 'x', '"', ':', want[oi][k], '}'}), "C01: the fork for (element i, key k) receives the value stored there")
		ys[oi][k] = vrDigit("LEAF result")
		vrOuts[f.metadata] = LazyArgumentMap{"y": ys[oi][k]}
	}
	_, args, err := w.summary.resolveInputs(w.summary.forks[0].forkId, false)
	verifAssert(err == nil, "C01: the consumer's inputs resolve")
	if err != nil {
		return
	}
	wantArgs := vrCat([]byte(`{"ys":[{"p":`), ys[0][0], []byte(`,"q":`), ys[0][1], []byte(`},{"p":`), ys[1][0], []byte(`,"q":`), ys[1][1], []byte(`}]}`))
	verifAssert(verifBytesEq(vrEncode(args), wantArgs), "C01: the outputs of a map call nested in an array-mapped pipeline merge into an array of maps")
	verifCover("array of maps merged")
}

// ---- statically known nested map calls with non-uniform inner collections ----

var vrStaticOuter = []string{
	"[\n            [],\n            [7],\n            [1, 2, 3],\n        ]",
	"[\n            [7],\n            [],\n            [1, 2, 3],\n        ]",
	"[\n            [7],\n            [1, 2, 3],\n            [],\n        ]",
	"[\n            [],\n            [],\n            [5, 6],\n        ]",
}
var vrStaticWant = [][][]byte{
	{{}, {'7'}, {'1', '2', '3'}},
	{{'7'}, {}, {'1', '2', '3'}},
	{{'7'}, {'1', '2', '3'}, {}},
	{{}, {}, {'5', '6'}},
}

func vrStaticSrc(variant int) string {
	return `
stage WORK(
    in  int  what,
    out int  result,
    src comp "bin",
)

pipeline INNER(
    in  int[] vals,
    out int[] ws,
)
{
    map call WORK(
        what = split self.vals,
    )

    return (
        ws = WORK.result,
    )
}

pipeline OUTER(
    out int[][] r,
)
{
    map call INNER(
        vals = split ` + vrStaticOuter[variant] + `,
    )

    return (
        r = INNER.ws,
    )
}

call OUTER()
`
}

type vrStatic struct {
	ps   *Pipestance
	work *Node
}

func vrStaticGraph(variant int) *vrStatic {
	disableUniquification = false
	return verifCached("vrStaticGraph"+string(rune('0'+variant)), func() any {
		rt := &Runtime{Config: &RuntimeOptions{JobMode: "local", VdrMode: VdrDisable}, mrjob: "/m/mrjob", adaptersPath: "/m/adapters"}
		_, _, ps, err := rt.instantiatePipeline([]byte(vrStaticSrc(variant)), "/m/p.mro", "ps", "/ps", nil, "none", nil, false, true, context.Background())
		if err != nil {
			panic("fixture does not instantiate: " + err.Error())
		}
		return &vrStatic{ps, ps.node.top.allNodes["ID.ps.OUTER.INNER.WORK"]}
	}).(*vrStatic)
}

// H_C01_staticNested(variant): INNER is mapped over a literal array of arrays
// of different lengths, one or two of them empty, in every position.
//
//	C01/C03: WORK runs exactly once for every element of every inner array and
//	receives it; an empty inner array contributes no job and does not affect
//	its siblings; the pipeline output is the array of arrays of WORK results.
func H_C01_staticNested(variant int) {
	w := vrStaticGraph(variant)
	vrOuts = map[*Metadata]LazyArgumentMap{}
	want := vrStaticWant[variant]
	w.work.expandForks(true)
	verifCover("static nested forks")
	vrUniqueForks(w.work)
	seen := make([][]bool, len(want))
	results := make([][]json.RawMessage, len(want))
	for i := range want {
		seen[i] = make([]bool, len(want[i]))
		results[i] = make([]json.RawMessage, len(want[i]))
	}
	enabled := 0
	for _, f := range w.work.forks {
		if dis, err := f.disabled(); err == nil && dis {
			// the placeholder fork of an empty inner array
			continue
		}
		enabled++
		if len(f.forkId) != 2 {
			verifAssert(false, "C01/C03: an inner fork has an outer and an inner index")
			return
		}
		oi, ok1 := f.forkId[0].Id.(arrayIndexFork)
		ii, ok2 := f.forkId[1].Id.(arrayIndexFork)
		if !ok1 || !ok2 || int(oi) < 0 || int(oi) >= len(want) || int(ii) < 0 || int(ii) >= len(want[oi]) {
			verifAssert(false, "C01/C03: every enabled fork stands for an element of one of the inner arrays")
			return
		}
		verifAssert(!seen[oi][ii], "C01/C03: no element is processed twice")
		seen[oi][ii] = true
		_, args, err := w.work.resolveInputs(f.forkId, false)
		verifAssert(err == nil, "C01: the inputs of every fork resolve")
		if err != nil {
			return
		}
		verifAssert(verifBytesEq(vrEncode(args), []byte{'{', '"', 'w', 'h', 'a', 't', '"', ':', want[oi][ii], '}'}), "C01: the fork for element j of inner array i receives exactly that element")
		results[oi][ii] = vrDigit("WORK result")
		vrOuts[f.metadata] = LazyArgumentMap{"result": results[oi][ii]}
	}
	total := 0
	for i := range want {
		total += len(want[i])
		for j := range seen[i] {
			verifAssert(seen[i][j], "C01/C03: every element of every inner array is processed, also after an empty sibling")
		}
	}
	verifAssert(enabled == total, "C01/C03: exactly one enabled fork per element")
	outs, _, err := w.ps.node.resolvePipelineOutputs(nil)
	verifAssert(err == nil, "C01: the pipeline outputs resolve")
	if err == nil {
		// (an empty inner array is a disabled call: its merged output is null;
		// an empty array would denote the same thing, both are accepted)
		build := func(empty string) []byte {
			out := []byte(`{"r":[`)
			for i := range results {
				if i > 0 {
					out = append(out, ',')
				}
				if len(results[i]) == 0 {
					out = append(out, empty...)
				} else {
					out = append(out, vrArray(results[i])...)
				}
			}
			return append(out, []byte(`]}`)...)
		}
		got := vrEncode(outs)
		verifAssert(verifAny(verifBytesEq(got, build("null")), verifBytesEq(got, build("[]"))), "C01: the outputs merge into an array of arrays, null / empty where the inner array was empty")
		verifCover("static nested outputs")
	}
}

// ---- C04: the keep-alive relation of forks created at run time ----

const vrKeepSrc = `
filetype txt;

stage GEN(
    in  int   n,
    out int[] xs,
    src comp  "bin",
)

stage WORK(
    in  int x,
    out txt f,
    out txt kept,
    out txt used,
    out txt scratch,
    src comp "bin",
)

stage USE(
    in  txt[] fs,
    out int   r,
    src comp  "bin",
)

pipeline P(
    in  int   n,
    out txt[] results,
    out int   r,
)
{
    call GEN(
        n = self.n,
    )

    map call WORK(
        x = split GEN.xs,
    )

    call USE(
        fs = WORK.used,
    )

    return (
        results = WORK.f,
        r       = USE.r,
    )

    retain (
        WORK.kept,
    )
}

call P(
    n = 3,
)
`

// vrKeepText: with consumer = false nothing but the top level and the retain
// declaration refers to WORK's outputs.
func vrKeepText(consumer bool) string {
	if consumer {
		return vrKeepSrc
	}
	t := vrKeepSrc
	cut := func(what string) {
		k := strings.Index(t, what)
		if k < 0 {
			panic("fixture text lacks " + what)
		}
		t = t[:k] + t[k+len(what):]
	}
	cut("    call USE(\n        fs = WORK.used,\n    )\n\n")
	cut("        r       = USE.r,\n")
	cut("    out int   r,\n)\n{\n    call GEN(")
	k := strings.Index(t, "    out txt[] results,\n")
	t = t[:k] + "    out txt[] results,\n)\n{\n    call GEN(" + t[k+len("    out txt[] results,\n"):]
	return t
}

func vrKeepGraph(consumer bool) *vrReal {
	disableUniquification = false
	key := "vrKeepGraph0"
	if consumer {
		key = "vrKeepGraph1"
	}
	return verifCached(key, func() any {
		rt := &Runtime{Config: &RuntimeOptions{JobMode: "local", VdrMode: VdrStrict}, mrjob: "/m/mrjob", adaptersPath: "/m/adapters"}
		_, _, ps, err := rt.instantiatePipeline([]byte(vrKeepText(consumer)), "/m/p.mro", "ps", "/ps", nil, "none", nil, false, true, context.Background())
		if err != nil {
			panic("fixture does not instantiate: " + err.Error())
		}
		n := func(name string) *Node {
			return ps.node.top.allNodes["ID.ps.P."+name]
		}
		return &vrReal{ps, n("GEN"), n("WORK"), n("USE")}
	}).(*vrReal)
}

// H_C04_dynamicForks(n): WORK is mapped over an array only known at run time
// (n elements), so its forks beyond the first are created by expandForks /
// cloneFork.  Its output f is a top-level output, kept is retained, used is
// consumed by USE, scratch by nobody.
//
//	C04: every fork — also those created at run time — holds its top-level
//	     output and its retained output for ever (the holder nil is never
//	     released), and holds the consumed output for its consumer; nothing
//	     holds the scratch output.
func H_C04_dynamicForks(n int, consumerI int) {
	w := vrKeepGraph(consumerI != 0)
	vrOuts = map[*Metadata]LazyArgumentMap{}
	xs := make([]json.RawMessage, n)
	for i := range xs {
		xs[i] = vrDigit("xs")
	}
	vrOuts[w.gen.forks[0].metadata] = LazyArgumentMap{"xs": vrArray(xs)}
	w.work.expandForks(true)
	verifCover("forks expanded")
	verifAssert(len(w.work.forks) == n, "C03: a map call over a run-time array has one fork per element")
	use := w.sum // (third node of the fixture: USE)
	for _, f := range w.work.forks {
		for _, arg := range []string{"f", "kept"} {
			// (the top-level pipeline's hold is recorded under a typed nil
			// (*Node)(nil) key, a retain under the nil interface)
			holders, ok := f.fileArgs[arg]
			_, top := holders[nil]
			_, top2 := holders[Nodable((*Node)(nil))]
			top = top || top2
			verifAssert(ok && top, "C04: every fork of a mapped call, also one created at run time, keeps its top-level / retained output held for ever")
		}
		if consumerI == 0 {
			for _, arg := range []string{"used", "scratch"} {
				_, any := f.fileArgs[arg]
				verifAssert(!any, "C14: an output nobody uses is not held")
			}
			continue
		}
		holders := f.fileArgs["used"]
		held := false
		for h := range holders {
			if h != nil && h.getNode() == use {
				held = true
			}
		}
		verifAssert(held, "C04: every fork of a mapped call keeps the output a later call consumes held for that call")
		byNode := false
		for h, args := range f.filePostNodes {
			if h != nil && h.getNode() == use {
				_, byNode = args["used"]
			}
		}
		verifAssert(byNode, "C04: the consumer is recorded as a holder of the fork (fileArgs and filePostNodes agree)")
		_, scratch := f.fileArgs["scratch"]
		verifAssert(!scratch, "C14: an output nobody uses is not held")
	}
}

// ---- C04: files reached through a projection stay held ----

type vrRegular struct{ os.FileInfo }

func (vrRegular) Mode() os.FileMode { return 0o644 }
func (vrRegular) IsDir() bool       { return false }
func (vrRegular) Size() int64       { return 1 }

// the files a stage's jobs left in their files directories
var vrStageFiles map[*Metadata][]string

//verif:stub (*github.com/martian-lang/martian/martian/core.Metadata).enumerateFiles
func vrEnumerateFiles(self *Metadata) ([]string, error) { return vrStageFiles[self], nil }

//verif:stub github.com/martian-lang/martian/martian/util.Walk
func vrWalk(root string, walkFn filepath.WalkFunc) error { return walkFn(root, vrRegular{}, nil) }

//verif:stub os.Lstat
func vrLstat(name string) (os.FileInfo, error) { return vrRegular{}, nil }

//verif:stub (*github.com/martian-lang/martian/martian/core.Metadata).appendRaw
func vrAppendRaw(self *Metadata, name MetadataFileName, text string) error {
	self.cache(name, self.uniquifier)
	return nil
}

//verif:stub os.Readlink
func vrReadlink(name string) (string, error) { return "", errors.New("readlink: invalid argument") }

//verif:stub path/filepath.EvalSymlinks
func vrEvalSymlinks(name string) (string, error) { return name, nil }

const vrProjSrc = `
filetype txt;

struct S(
    txt f,
    int n,
)

stage PRODUCE(
    in  int      n,
    out map<S>   items,
    out S[]      arr,
    out S        one,
    out map<S>[] many,
    out map<S>[][] grid,
    src comp     "bin",
)

stage CONSUME(
    in  map<txt>   x,
    in  txt[]      y,
    in  txt        z,
    in  map<txt>[] w,
    in  map<txt>[][] g,
    out int        n,
    src comp       "bin",
)

pipeline TOP(
    in  int n,
    out int n,
)
{
    call PRODUCE(
        n = self.n,
    )

    call CONSUME(
        x = PRODUCE.items.f,
        y = PRODUCE.arr.f,
        z = PRODUCE.one.f,
        w = PRODUCE.many.f,
        g = PRODUCE.grid.f,
    )

    return (
        n = CONSUME.n,
    )
}

call TOP(
    n = 3,
)
`

func vrProjGraph() *vrReal {
	disableUniquification = false
	return verifCached("vrProjGraph", func() any {
		rt := &Runtime{Config: &RuntimeOptions{JobMode: "local", VdrMode: VdrStrict}, mrjob: "/m/mrjob", adaptersPath: "/m/adapters"}
		_, _, ps, err := rt.instantiatePipeline([]byte(vrProjSrc), "/m/p.mro", "ps", "/ps", nil, "none", nil, false, true, context.Background())
		if err != nil {
			panic("fixture does not instantiate: " + err.Error())
		}
		n := func(name string) *Node { return ps.node.top.allNodes["ID.ps.TOP."+name] }
		return &vrReal{ps, n("PRODUCE"), n("CONSUME"), nil}
	}).(*vrReal)
}

// H_C04_projectedHolds(nkeys): CONSUME is bound to the file member f of
// PRODUCE's outputs, projected through a typed map, an array, a plain struct,
// an array and a two-dimensional array of typed maps.  PRODUCE has finished; its _outs holds nkeys
// entries per map (keys arbitrary lower-case letters — including the letters
// that are member names of the struct), each with its own file.  The real
// removeEmptyFileArgs and getArgsToFilesMap run, as they do when the stage
// completes and when VDR first looks at it.
//
//	C04: while CONSUME has not finished, every file its arguments name is
//	     still attributed to an argument CONSUME holds — whatever the path of
//	     the projection and whatever the map keys are.
func H_C04_projectedHolds(nkeys int) {
	w := vrProjGraph()
	prod, cons := w.gen, w.work
	f := prod.forks[0]
	files := func(tag string, k int) string {
		return "/ps/TOP/PRODUCE/fork0/files/" + tag + string(rune('0'+k)) + ".txt"
	}
	entry := func(path string) []byte { return []byte(`{"f":"` + path + `","n":1}`) }
	keys := make([]string, nkeys)
	for i := range keys {
		b := verifBytes("key", 1)
		verifAssume(verifAll(b[0] >= 'a', b[0] <= 'z'))
		keys[i] = string(b)
		for j := 0; j < i; j++ {
			verifAssume(keys[j] != keys[i])
		}
	}
	mapOf := func(tag string) []byte {
		out := []byte{'{'}
		for i, k := range keys {
			if i > 0 {
				out = append(out, ',')
			}
			out = append(out, (`"` + k + `":`)...)
			out = append(out, entry(files(tag, i))...)
		}
		return append(out, '}')
	}
	outs := LazyArgumentMap{
		"items": mapOf("item"),
		"arr":   vrCat([]byte("["), entry(files("arr", 0)), []byte(","), entry(files("arr", 1)), []byte("]")),
		"one":   entry(files("one", 0)),
		"many":  vrCat([]byte("["), mapOf("many"), []byte("]")),
		"grid":  vrCat([]byte("[["), mapOf("grid"), []byte("],[]]")),
	}
	want := map[string][]string{
		"items.f": nil, "arr.f": {files("arr", 0), files("arr", 1)}, "one.f": {files("one", 0)}, "many.f": nil, "grid.f": nil,
	}
	for i := range keys {
		want["items.f"] = append(want["items.f"], files("item", i))
		want["many.f"] = append(want["many.f"], files("many", i))
		want["grid.f"] = append(want["grid.f"], files("grid", i))
	}
	for arg := range want {
		_, held := f.fileArgs[arg][cons]
		verifAssert(held, "C04: the consumer holds every output member it is bound to (as instantiated)")
	}
	// what doComplete does when the stage finishes, and what VDR does when it
	// first looks at the fork
	vrStageFiles = map[*Metadata][]string{}
	for _, names := range want {
		vrStageFiles[f.join_metadata] = append(vrStageFiles[f.join_metadata], names...)
	}
	scratch := "/ps/TOP/PRODUCE/fork0/files/scratch.txt"
	vrStageFiles[f.join_metadata] = append(vrStageFiles[f.join_metadata], scratch)
	f.removeEmptyFileArgs(outs)
	f.fileParamMap = nil
	f.cacheParamFileMap(outs)
	verifCover("projected arguments examined")
	for arg, names := range want {
		_, held := f.fileArgs[arg][cons]
		verifAssert(held, "C04: an argument that names files stays held by its unfinished consumer after the producer completed")
		for _, name := range names {
			entry := f.fileParamMap[name]
			verifAssert(entry != nil, "the stage's files are all in the VDR file cache")
			if entry != nil {
				_, ok := entry.args[arg]
				verifAssert(ok, "C04: every file an argument names through a projection (array, typed map, struct) is kept alive by that argument while the consumer is unfinished")
			}
		}
	}
	if e := f.fileParamMap[scratch]; e != nil {
		verifAssert(e.args == nil, "C14: a file no argument names is not kept alive")
	}
}

// ---- a mapped call inside a pipeline mapped over a run-time array of arrays ----

const vrDynNestedSrc = `
stage GEN(
    in  int     n,
    out int[][] result,
    src comp    "bin",
)

stage ECHO(
    in  int  what,
    out int  result,
    src comp "bin",
)

pipeline INNER(
    in  int[] xs,
    out int[] rs,
)
{
    map call ECHO(
        what = split self.xs,
    )

    return (
        rs = ECHO.result,
    )
}

pipeline TOP(
    out INNER[] rs,
    out int[][] flat,
)
{
    call GEN(
        n = 1,
    )

    map call INNER(
        xs = split GEN.result,
    )

    return (
        rs   = INNER,
        flat = INNER.rs,
    )
}

call TOP()
`

type vrDynNested struct {
	ps        *Pipestance
	gen, echo *Node
	err       error
}

func vrDynNestedGraph() *vrDynNested {
	disableUniquification = false
	return verifCached("vrDynNestedGraph", func() any {
		rt := &Runtime{Config: &RuntimeOptions{JobMode: "local", VdrMode: VdrDisable}, mrjob: "/m/mrjob", adaptersPath: "/m/adapters"}
		_, _, ps, err := rt.instantiatePipeline([]byte(vrDynNestedSrc), "/m/p.mro", "ps", "/ps", nil, "none", nil, false, true, context.Background())
		if err != nil {
			return &vrDynNested{err: err}
		}
		return &vrDynNested{ps: ps, gen: ps.node.top.allNodes["ID.ps.TOP.GEN"], echo: ps.node.top.allNodes["ID.ps.TOP.INNER.ECHO"]}
	}).(*vrDynNested)
}

// H_C01_dynamicNested(n0, n1, n2): GEN produced three arrays of n0, n1 and n2
// arbitrary digits (n = 0: an empty array); the pipeline INNER is mapped over
// them at run time, the stage ECHO inside it over each array's elements.
//
//	C07: the program (a two-dimensional array merged from nested map calls)
//	     type-checks and instantiates.
//	C01: each ECHO fork receives its element; the top-level outputs hold one
//	     entry per outer element, each with exactly the results of that
//	     element's ECHO forks, in order — as a struct per fork and as an array
//	     of arrays.
func H_C01_dynamicNested(n0, n1, n2 int) {
	w := vrDynNestedGraph()
	verifAssert(w.err == nil, "C07/C01: a well-typed program with nested map calls returning a two-dimensional array instantiates")
	if w.err != nil {
		return
	}
	vrOuts = map[*Metadata]LazyArgumentMap{}
	ns := []int{n0, n1, n2}
	xs := make([][]json.RawMessage, len(ns))
	outer := make([]json.RawMessage, len(ns))
	for i, n := range ns {
		xs[i] = make([]json.RawMessage, n)
		for j := range xs[i] {
			xs[i][j] = vrDigit("element")
		}
		outer[i] = vrArray(xs[i])
	}
	vrOuts[w.gen.forks[0].metadata] = LazyArgumentMap{"result": vrArray(outer)}
	w.echo.expandForks(true)
	verifCover("dynamic nested forks expanded")
	total := n0 + n1 + n2
	ys := make([][]json.RawMessage, len(ns))
	for i, n := range ns {
		ys[i] = make([]json.RawMessage, n)
	}
	count := 0
	for _, f := range w.echo.forks {
		if len(f.forkId) != 2 {
			verifAssert(false, "C01/C03: an inner fork is identified by its outer and inner index")
			return
		}
		oi, ok1 := f.forkId[0].Id.(arrayIndexFork)
		ii, ok2 := f.forkId[1].Id.(arrayIndexFork)
		if !ok1 || !ok2 {
			// (the placeholder fork of an empty inner array)
			continue
		}
		o, k := int(oi), int(ii)
		if o < 0 || o >= len(ns) || k < 0 || k >= ns[o] {
			verifAssert(false, "C01/C03: fork indices are within the arrays")
			return
		}
		_, args, err := w.echo.resolveInputs(f.forkId, false)
		verifAssert(err == nil, "C01: the inputs of every inner fork resolve")
		if err != nil {
			return
		}
		want := append(append([]byte(`{"what":`), xs[o][k]...), '}')
		verifAssert(verifBytesEq(vrEncode(args), want), "C01: the fork for element j of outer fork i receives exactly that element")
		verifAssert(ys[o][k] == nil, "C01/C03: no element is processed twice")
		ys[o][k] = vrDigit("echo result")
		vrOuts[f.metadata] = LazyArgumentMap{"result": ys[o][k]}
		count++
	}
	verifAssert(count == total, "C01/C03: the inner map call has one fork per element of every inner array")
	if count != total {
		return
	}
	outs, _, err := w.ps.node.resolvePipelineOutputs(nil)
	verifAssert(err == nil && outs != nil, "C01: the pipeline's outputs resolve once every stage has finished")
	if err != nil || outs == nil {
		return
	}
	flat := []byte(`{"flat":[`)
	rs := []byte(`,"rs":[`)
	for i := range ns {
		if i > 0 {
			flat = append(flat, ',')
			rs = append(rs, ',')
		}
		flat = append(flat, vrArray(ys[i])...)
		rs = append(rs, `{"rs":`...)
		rs = append(rs, vrArray(ys[i])...)
		rs = append(rs, '}')
	}
	want := append(append(append(flat, ']'), rs...), `]}`...)
	verifCover("dynamic nested outputs resolved")
	verifAssert(verifBytesEq(vrEncode(outs), want), "C01: the outputs of a pipeline mapped over a run-time array are one entry per element, each holding the results of that element's inner forks")
}

// ---- C06: a chunk whose outputs are missing or ill-typed fails the stage ----

const vrChunkSrc = `
stage SPLITTER(
    in  int x,
    out int o,
    src comp "bin",
) split (
    in  int c,
    out int d,
)

pipeline P(
    in  int x,
    out int o,
)
{
    call SPLITTER(
        x = self.x,
    )

    return (
        o = SPLITTER.o,
    )
}

call P(
    x = 1,
)
`

func vrChunkGraph() *Fork {
	disableUniquification = false
	return verifCached("vrChunkGraph", func() any {
		rt := &Runtime{Config: &RuntimeOptions{JobMode: "local", VdrMode: VdrDisable}, mrjob: "/m/mrjob", adaptersPath: "/m/adapters"}
		_, _, ps, err := rt.instantiatePipeline([]byte(vrChunkSrc), "/m/p.mro", "ps", "/ps", nil, "none", nil, false, true, context.Background())
		if err != nil {
			panic("fixture does not instantiate: " + err.Error())
		}
		return ps.node.top.allNodes["ID.ps.P.SPLITTER"].forks[0]
	}).(*Fork)
}

var vrChunkOutKinds = []string{
	`null`,                 // the job wrote null as its outputs
	`{"d":4,"o":5}`,        // what the stage declares
	`{"d":"four","o":5}`,   // an ill-typed chunk output
	`{"o":5}`,              // a declared chunk output is missing
	`{"d":4,"o":[5]}`,      // an ill-typed stage output
	`{"d":4,"o":5,"zz":1}`, // an undeclared extra output
}

// H_C06_chunkOutputs(kind, level): the real Chunk.verifyOutput, which doJoin
// calls for every chunk before it starts the join, on what a finished chunk
// left as its _outs, at enforcement level `level` (1 log, 2 alarm, 3 error).
//
//	C06: whenever the chunk's outputs are rejected — _errors is written for the
//	     chunk — the verdict is "not ok", so that the join is not started and
//	     the stage cannot complete on top of a failed chunk; missing (null)
//	     outputs are rejected at every level, ill-typed and missing declared
//	     outputs at the strictest level; valid outputs are accepted without an
//	     error.
func H_C06_chunkOutputs(kind, level int) {
	f := vrChunkGraph()
	old := syntax.GetEnforcementLevel()
	syntax.SetEnforcementLevel(syntax.LanguageEnforceLevel(level))
	c := NewChunk(f, 0, &ChunkDef{}, 1)
	var outs LazyArgumentMap
	if err := vjUnmarshal([]byte(vrChunkOutKinds[kind]), &outs); err != nil {
		panic("fixture outs do not decode")
	}
	vrWritten = nil
	ok := c.verifyOutput(outs)
	syntax.SetEnforcementLevel(old)
	verifCover("chunk outputs verified")
	_, failed := c.metadata.contents[Errors]
	if failed {
		verifCover("chunk outputs rejected")
		verifAssert(!ok, "C06: a chunk whose outputs were rejected (_errors written) never lets the join start")
	}
	switch kind {
	case 0:
		verifAssert(failed && !ok, "C06: a chunk job that produced no outputs (null) fails the stage")
	case 1:
		verifAssert(ok && !failed, "C06: a chunk with outputs of the declared shape is accepted")
	case 2, 3, 4:
		if level == 3 {
			verifAssert(failed && !ok, "C06: a chunk with ill-typed or missing declared outputs fails the stage at the strictest enforcement level")
		}
	}
}

// ---- projection of a struct member through nested collections ----

const vrGridSrc = `
struct CELL(
    int    v,
    string name,
)

stage MAKE(
    in  int          n,
    out CELL[][]     grid,
    out map<CELL[]>  sheets,
    out map<CELL>[]  rows,
    out CELL[]       line,
    src comp         "bin",
)

stage USE(
    in  int[][]    g,
    in  map<int[]> s,
    in  map<int>[] r,
    in  int[]      l,
    in  CELL[][]   whole,
    out int        o,
    src comp       "bin",
)

pipeline P(
    in  int n,
    out int o,
)
{
    call MAKE(
        n = self.n,
    )

    call USE(
        g     = MAKE.grid.v,
        s     = MAKE.sheets.v,
        r     = MAKE.rows.v,
        l     = MAKE.line.v,
        whole = MAKE.grid,
    )

    return (
        o = USE.o,
    )
}

call P(
    n = 1,
)
`

func vrGridGraph() *vrReal {
	disableUniquification = false
	return verifCached("vrGridGraph", func() any {
		rt := &Runtime{Config: &RuntimeOptions{JobMode: "local", VdrMode: VdrDisable}, mrjob: "/m/mrjob", adaptersPath: "/m/adapters"}
		_, _, ps, err := rt.instantiatePipeline([]byte(vrGridSrc), "/m/p.mro", "ps", "/ps", nil, "none", nil, false, true, context.Background())
		if err != nil {
			panic("fixture does not instantiate: " + err.Error())
		}
		n := func(name string) *Node { return ps.node.top.allNodes["ID.ps.P."+name] }
		return &vrReal{ps, n("MAKE"), n("USE"), nil}
	}).(*vrReal)
}

// H_C01_projectNested(n0, n1): MAKE returned a two-dimensional array of
// structs (rows of n0 and n1 cells), a typed map of arrays of structs, an
// array of typed maps of structs and a plain array of structs, every member an
// arbitrary digit / letter; USE is bound to the member v projected through
// each of them.
//
//	C01/C07: the consumer receives the member of every element, in the shape of
//	     the collection it was projected through, and no binding-resolution
//	     error occurs for the accepted program.
func H_C01_projectNested(n0, n1 int) {
	w := vrGridGraph()
	make_, use := w.gen, w.work
	vrOuts = map[*Metadata]LazyArgumentMap{}
	cell := func() (json.RawMessage, json.RawMessage) {
		v := vrDigit("v")
		l := verifBytes("name", 1)
		verifAssume(verifAll(l[0] >= 'a', l[0] <= 'z'))
		return vrCat([]byte(`{"name":"`), l, []byte(`","v":`), v, []byte(`}`)), v
	}
	row := func(n int) (json.RawMessage, json.RawMessage) {
		cs, vs := make([]json.RawMessage, n), make([]json.RawMessage, n)
		for i := range cs {
			cs[i], vs[i] = cell()
		}
		return vrArray(cs), vrArray(vs)
	}
	r0, v0 := row(n0)
	r1, v1 := row(n1)
	grid, gridV := vrArray([]json.RawMessage{r0, r1}), vrArray([]json.RawMessage{v0, v1})
	sh, shV := row(n1)
	sheets, sheetsV := vrCat([]byte(`{"k":`), sh, []byte(`}`)), vrCat([]byte(`{"k":`), shV, []byte(`}`))
	c1, cv1 := cell()
	c2, cv2 := cell()
	rows := vrCat([]byte(`[{"a":`), c1, []byte(`},{"b":`), c2, []byte(`}]`))
	rowsV := vrCat([]byte(`[{"a":`), cv1, []byte(`},{"b":`), cv2, []byte(`}]`))
	line, lineV := row(n0)
	vrOuts[make_.forks[0].metadata] = LazyArgumentMap{"grid": grid, "sheets": sheets, "rows": rows, "line": line}
	_, args, err := use.resolveInputs(use.forks[0].forkId, false)
	verifCover("nested projections resolved")
	verifAssert(err == nil, "C07/C01: projecting a struct member through nested collections of an accepted program raises no binding-resolution error at run time")
	if err != nil {
		return
	}
	want := vrCat([]byte(`{"g":`), gridV, []byte(`,"l":`), lineV, []byte(`,"r":`), rowsV, []byte(`,"s":`), sheetsV, []byte(`,"whole":`), grid, []byte(`}`))
	verifAssert(verifBytesEq(vrEncode(args), want), "C01: a member projected through arrays of arrays, typed maps of arrays and arrays of typed maps arrives as the member of every element, in the same shape")
}

// ---- C05: forks of a run-time map call rebuilt by a re-attached mrp ----

// the fork directories whose split/_stage_defs exists on disk (a re-attached
// mrp rebuilds the chunk list of a fork from it)
var vrStageDefsOnDisk map[string]bool

//verif:stub (*github.com/martian-lang/martian/martian/core.Metadata).ReadInto
func vrReadInto(self *Metadata, name MetadataFileName, target interface{}) error {
	if sd, ok := target.(**StageDefs); ok && name == StageDefsFile && vrStageDefsOnDisk[self.path] {
		*sd = &StageDefs{ChunkDefs: []*ChunkDef{{}}}
		return nil
	}
	return &os.PathError{Op: "open", Path: self.MetadataFilePath(name), Err: os.ErrNotExist}
}

// H_C05_restoredForks(nkeys): mrp was interrupted while the forks of W (mapped
// over the typed map GEN produced at run time, nkeys keys) were past their
// split phase: every fork directory fork_<key> has split/_stage_defs.  A
// re-attached mrp starts with the single placeholder fork and turns it into
// the real forks in RestoreForks (expandForks).
//
//	C05: afterwards every fork — the first one, which is the renamed
//	     placeholder, included — has the chunk list its _stage_defs records, in
//	     its own directory, so that the completion its chunk recorded is found
//	     and the job is not executed again.
func H_C05_restoredForks(nkeys int) {
	w := vrMixGraph()
	vrOuts = map[*Metadata]LazyArgumentMap{}
	vrStageDefsOnDisk = map[string]bool{}
	m := []byte{'{'}
	for i := 0; i < nkeys; i++ {
		if i > 0 {
			m = append(m, ',')
		}
		m = vrCat(m, []byte(`"`+vrKeys[i]+`":`), vrDigit("m value"))
		vrStageDefsOnDisk["/ps/P/W/fork_"+vrKeys[i]+"/split"] = true
	}
	m = append(m, '}')
	vrOuts[w.gen.forks[0].metadata] = LazyArgumentMap{
		"m": json.RawMessage(m), "st": json.RawMessage(`{"a":1,"b":2}`), "flag": json.RawMessage("false"), "v": json.RawMessage("3"),
	}
	verifAssert(len(w.w.forks) == 1 && len(w.w.forks[0].chunks) == 0, "a freshly instantiated map call over a run-time map has one placeholder fork without chunks")
	w.ps.RestoreForks(context.Background())
	verifCover("forks restored")
	verifAssert(len(w.w.forks) == nkeys, "C03/C05: a re-attached mrp restores one fork per key")
	for i, f := range w.w.forks {
		verifAssert(f.path == "/ps/P/W/fork_"+vrKeys[i], "C11/C05: a restored fork lives in the directory named after its key")
		verifAssert(len(f.chunks) == 1, "C05: every restored fork has the chunk list its _stage_defs records (the completion its job recorded is found, the job is not executed again)")
		if len(f.chunks) == 1 {
			verifAssert(strings.HasPrefix(f.chunks[0].metadata.path, f.path+"/"), "C05: a restored fork's chunk lives in that fork's directory")
		}
	}
}

// ---- a call disabled per element inside a mapped pipeline ----

const vrDisMapSrc = `
stage FLAGS(
    in  int    n,
    out bool[] cs,
    out int[]  vs,
    src comp   "nothing",
)

stage WORK(
    in  int  value,
    out int  result,
    src comp "nothing",
)

pipeline P3(
    in  int  value,
    out int  rx,
)
{
    call WORK(
        value = self.value,
    )

    return (
        rx = WORK.result,
    )
}

pipeline INNER(
    in  bool c,
    in  int  value,
    out int  rx,
)
{
    call P3(
        value = self.value,
    ) using (
        disabled = self.c,
    )

    return (
        rx = P3.rx,
    )
}

pipeline TOP(
    in  int[]  values,
    out int[]  rx,
)
{
    call FLAGS(
        n = 1,
    )

    map call INNER(
        c     = split FLAGS.cs,
        value = split VALUES,
    )

    return (
        rx = INNER.rx,
    )
}

call TOP(
    values = [
        1,
        2,
    ],
)
`

func vrDisMapGraph(static bool) *vrReal {
	disableUniquification = false
	key, values := "vrDisMapGraphDyn", "FLAGS.vs"
	if static {
		key, values = "vrDisMapGraphStatic", "self.values"
	}
	return verifCached(key, func() any {
		rt := &Runtime{Config: &RuntimeOptions{JobMode: "local", VdrMode: VdrDisable}, mrjob: "/m/mrjob", adaptersPath: "/m/adapters"}
		src := strings.Replace(vrDisMapSrc, "split VALUES", "split "+values, 1)
		if !static {
			src = strings.Replace(src, "    in  int[]  values,\n", "", 1)
			src = strings.Replace(src, "call TOP(\n    values = [\n        1,\n        2,\n    ],\n)", "call TOP()", 1)
		}
		_, _, ps, err := rt.instantiatePipeline([]byte(src), "/m/p.mro", "ps", "/ps", nil, "none", nil, false, true, context.Background())
		if err != nil {
			panic("fixture does not instantiate: " + err.Error())
		}
		n := func(name string) *Node { return ps.node.top.allNodes["ID.ps.TOP."+name] }
		return &vrReal{ps, n("FLAGS"), n("INNER.P3.WORK"), nil}
	}).(*vrReal)
}

// H_C01_disabledInMapped(static): a pipeline INNER is mapped over two
// elements - a literal array of the top-level call (static = 1) or an array a
// stage produced (static = 0) - together with an array of flags a stage
// produced; inside it the call P3 is disabled by its element's flag.
//
//	C03: WORK runs exactly for the elements whose flag is false.
//	C01: it receives its element; the top-level output holds, per element, the
//	     result of its WORK or null where the call was disabled.
func H_C01_disabledInMapped(static int) {
	w := vrDisMapGraph(static != 0)
	flags, work := w.gen, w.work
	vrOuts = map[*Metadata]LazyArgumentMap{}
	var off [2]bool
	cs := []byte{'['}
	for i := range off {
		off[i] = verifBool("element disabled")
		if i > 0 {
			cs = append(cs, ',')
		}
		if off[i] {
			cs = append(cs, "true"...)
		} else {
			cs = append(cs, "false"...)
		}
	}
	cs = append(cs, ']')
	vrOuts[flags.forks[0].metadata] = LazyArgumentMap{"cs": json.RawMessage(cs), "vs": json.RawMessage("[1,2]")}
	work.expandForks(true)
	verifCover("forks of the conditionally disabled call expanded")
	verifAssert(len(work.forks) == 2, "C03: one fork per element")
	if len(work.forks) != 2 {
		return
	}
	var results [2]json.RawMessage
	for i, f := range work.forks {
		dis, err := f.disabled()
		verifAssert(err == nil, "C03: the disabling condition of every fork resolves")
		verifAssert(dis == off[i], "C03: a fork is disabled exactly when its element's flag says so")
		if !dis {
			_, args, err := work.resolveInputs(f.forkId, false)
			verifAssert(err == nil, "C01: the inputs of an enabled fork resolve")
			if err == nil {
				verifAssert(verifBytesEq(vrEncode(args), []byte(`{"value":`+string(rune('1'+i))+`}`)), "C01: the fork for element i receives element i")
			}
			results[i] = vrDigit("work result")
			vrOuts[f.metadata] = LazyArgumentMap{"result": results[i]}
		} else {
			results[i] = json.RawMessage("null")
		}
	}
	outs, _, err := w.ps.node.resolvePipelineOutputs(nil)
	if static != 0 && verifKnown("C01-static-map-dynamic-disable") {
		// known finding: these outputs do not resolve
		return
	}
	verifAssert(err == nil && outs != nil, "C01: the pipeline's outputs resolve once every enabled stage has finished")
	if err != nil || outs == nil {
		return
	}
	want := vrCat([]byte(`{"rx":[`), results[0], []byte(","), results[1], []byte(`]}`))
	verifCover("outputs with disabled elements resolved")
	verifAssert(verifBytesEq(vrEncode(outs), want), "C01: per element, the top-level output holds the result of the call, or null where the call was disabled")
}

const vrSibSrc = `
stage FLAG(
    out bool flag,
    src comp "flag",
)

stage WORK(
    in  int x,
    out int y,
    src comp "work",
)

stage USE(
    in  int a,
    in  int b,
    out int r,
    src comp "use",
)

pipeline LEVEL3(
    in  int  x,
    in  bool skip_a,
    in  bool skip_b,
    out int  a,
    out int  b,
)
{
    call WORK as A(
        x = self.x,
    ) using (
        disabled = self.skip_a,
    )

    call WORK as B(
        x = self.x,
    ) using (
        disabled = self.skip_b,
    )

    return (
        a = A.y,
        b = B.y,
    )
}

pipeline LEVEL2(
    in  int  x,
    in  bool skip3,
    in  bool skip_a,
    in  bool skip_b,
    out int  a,
    out int  b,
)
{
    call LEVEL3(
        x      = self.x,
        skip_a = self.skip_a,
        skip_b = self.skip_b,
    ) using (
        disabled = self.skip3,
    )

    return (
        a = LEVEL3.a,
        b = LEVEL3.b,
    )
}

pipeline LEVEL1(
    in  int  x,
    in  bool skip2,
    in  bool skip3,
    in  bool skip_a,
    in  bool skip_b,
    out int  a,
    out int  b,
)
{
    call LEVEL2(
        x      = self.x,
        skip3  = self.skip3,
        skip_a = self.skip_a,
        skip_b = self.skip_b,
    ) using (
        disabled = self.skip2,
    )

    return (
        a = LEVEL2.a,
        b = LEVEL2.b,
    )
}

pipeline TOP(
    in  int x,
    out int a,
    out int b,
    out int r,
)
{
    call FLAG as SKIP1()
    call FLAG as SKIP2()
    call FLAG as SKIP3()
    call FLAG as SKIP_A()
    call FLAG as SKIP_B()

    call LEVEL1(
        x      = self.x,
        skip2  = SKIP2.flag,
        skip3  = SKIP3.flag,
        skip_a = SKIP_A.flag,
        skip_b = SKIP_B.flag,
    ) using (
        disabled = SKIP1.flag,
    )

    call USE(
        a = LEVEL1.a,
        b = LEVEL1.b,
    )

    return (
        a = LEVEL1.a,
        b = LEVEL1.b,
        r = USE.r,
    )
}

call TOP(
    x = 7,
)
`

type vrSib struct {
	ps    *Pipestance
	flags [5]*Node
	a, b  *Node
	use   *Node
}

func vrSibGraph() *vrSib {
	disableUniquification = false
	return verifCached("vrSibGraph", func() any {
		rt := &Runtime{Config: &RuntimeOptions{JobMode: "local", VdrMode: VdrDisable}, mrjob: "/m/mrjob", adaptersPath: "/m/adapters"}
		_, _, ps, err := rt.instantiatePipeline([]byte(vrSibSrc), "/m/p.mro", "ps", "/ps", nil, "none", nil, false, true, context.Background())
		if err != nil {
			panic("fixture does not instantiate: " + err.Error())
		}
		n := func(name string) *Node { return ps.node.top.allNodes["ID.ps.TOP."+name] }
		return &vrSib{ps, [5]*Node{n("SKIP1"), n("SKIP2"), n("SKIP3"), n("SKIP_A"), n("SKIP_B")},
			n("LEVEL1.LEVEL2.LEVEL3.A"), n("LEVEL1.LEVEL2.LEVEL3.B"), n("USE")}
	}).(*vrSib)
}

// H_C01_disabledSiblings: two calls A and B of one stage sit below three nested
// sub-pipelines, each disabled by its own run-time flag, and each of A and B
// has a run-time flag of its own; all five flags are arbitrary.
//
//	C03: A is disabled exactly when one of the three enclosing flags or its own
//	     flag is true - never because of its sibling's flag - and likewise B.
//	C01: the consumer and the top-level outputs receive each call's result, or
//	     null where the call was disabled.
func H_C01_disabledSiblings() {
	w := vrSibGraph()
	vrOuts = map[*Metadata]LazyArgumentMap{}
	var fl [5]bool
	for i, n := range w.flags {
		fl[i] = verifBool("flag")
		v := "false"
		if fl[i] {
			v = "true"
		}
		vrOuts[n.forks[0].metadata] = LazyArgumentMap{"flag": json.RawMessage(v)}
	}
	outer := fl[0] || fl[1] || fl[2]
	want := [2]bool{outer || fl[3], outer || fl[4]}
	var res [2]json.RawMessage
	for i, n := range []*Node{w.a, w.b} {
		f := n.forks[0]
		dis, err := f.disabled()
		verifAssert(err == nil, "C03: the disabling conditions of a call nested in disabled pipelines resolve")
		verifAssert(dis == want[i], "C03: a call is disabled exactly when its own condition or that of an enclosing pipeline holds")
		if !dis {
			_, args, err := n.resolveInputs(f.forkId, false)
			verifAssert(err == nil, "C01: the inputs of an enabled call resolve")
			if err == nil {
				verifAssert(verifBytesEq(vrEncode(args), []byte(`{"x":7}`)), "C01: the nested call receives the top-level input")
			}
			res[i] = vrDigit("work result")
			vrOuts[f.metadata] = LazyArgumentMap{"y": res[i]}
		}
		if want[i] {
			res[i] = json.RawMessage("null")
		}
	}
	verifCover("sibling calls below three disabled pipelines resolved")
	_, args, err := w.use.resolveInputs(w.use.forks[0].forkId, false)
	verifAssert(err == nil, "C01: the consumer's inputs resolve")
	if err != nil {
		return
	}
	wantArgs := vrCat([]byte(`{"a":`), res[0], []byte(`,"b":`), res[1], []byte(`}`))
	verifAssert(verifBytesEq(vrEncode(args), wantArgs), "C01: the consumer receives each call's result, or null where the call was disabled")
	r := vrDigit("use result")
	vrOuts[w.use.forks[0].metadata] = LazyArgumentMap{"r": r}
	outs, _, err := w.ps.node.resolvePipelineOutputs(nil)
	verifAssert(err == nil && outs != nil, "C01: the pipeline's outputs resolve")
	if err != nil || outs == nil {
		return
	}
	wantOuts := vrCat([]byte(`{"a":`), res[0], []byte(`,"b":`), res[1], []byte(`,"r":`), r, []byte(`}`))
	verifCover("outputs below disabled pipelines resolved")
	verifAssert(verifBytesEq(vrEncode(outs), wantOuts), "C01: the top-level outputs hold each call's result, or null where the call was disabled")
}

const vrConstSrc = `
stage MAKE(
    out int[] list,
    src comp  "s",
)

stage S(
    in  int x,
    out int y,
    src comp "s",
)

stage USE(
    in  int[] ys,
    out int   r,
    src comp  "u",
)

pipeline P(
    in  int x,
    in  int k,
    out int y,
    out int z,
)
{
    call S(
        x = self.x,
    )

    return (
        y = self.k,
        z = S.y,
    )
}

pipeline TOP(
    out int   r,
    out int[] ys,
)
{
    call MAKE()

    map call P(
        x = split MAKE.list,
        k = 5,
    )

    call USE(
        ys = P.y,
    )

    return (
        r  = USE.r,
        ys = P.y,
    )
}

call TOP()
`

type vrConst struct {
	*vrReal
	h *Node
}

func vrConstGraph(passThrough bool) *vrConst {
	disableUniquification = false
	key := "vrConstGraph"
	if passThrough {
		key = "vrConstGraphPass"
	}
	return verifCached(key, func() any {
		rt := &Runtime{Config: &RuntimeOptions{JobMode: "local", VdrMode: VdrDisable}, mrjob: "/m/mrjob", adaptersPath: "/m/adapters"}
		src := vrConstSrc
		if passThrough {
			// the value handed through comes from another stage
			src = strings.Replace(src, "        k = 5,\n", "        k = H.val,\n", 1)
			src = strings.Replace(src, "    call MAKE()\n", "    call MAKE()\n\n    call H()\n", 1)
			src = strings.Replace(src, "stage S(", "stage H(\n    out int val,\n    src comp \"h\",\n)\n\nstage S(", 1)
		}
		_, _, ps, err := rt.instantiatePipeline([]byte(src), "/m/p.mro", "ps", "/ps", nil, "none", nil, false, true, context.Background())
		if err != nil {
			panic("fixture does not instantiate: " + err.Error())
		}
		n := func(name string) *Node { return ps.node.top.allNodes["ID.ps.TOP."+name] }
		return &vrConst{&vrReal{ps, n("MAKE"), n("P.S"), n("USE")}, n("H")}
	}).(*vrConst)
}

// H_C01_constFromMapped(n, pass): a pipeline mapped over an array of n elements
// a stage produced returns, beside a stage output, a value it was given - a
// constant (pass = 0) or the output of an unrelated stage (pass = 1); a
// consumer binds the collected values.
//
//	C02: the consumer waits for the stage which determines how many there are.
//	C01: it receives the constant once per element (null or an empty array for
//	     none), and so does the top-level output.
func H_C01_constFromMapped(n, pass int) {
	w := vrConstGraph(pass != 0)
	use := w.sum
	vrOuts = map[*Metadata]LazyArgumentMap{}
	kv := json.RawMessage("5")
	if pass != 0 {
		kv = vrDigit("handed through")
		vrOuts[w.h.forks[0].metadata] = LazyArgumentMap{"val": kv}
	}
	_, waits := use.prenodes[w.gen.GetFQName()]
	verifCover("consumer of a constant collected from a mapped call")
	verifAssert(waits, "C01/C02: a consumer of values collected from a mapped call waits for the stage which determines their number")
	xs := make([]json.RawMessage, n)
	ks := make([]json.RawMessage, n)
	for i := range xs {
		xs[i] = vrDigit("element")
		ks[i] = kv
	}
	vrOuts[w.gen.forks[0].metadata] = LazyArgumentMap{"list": vrArray(xs)}
	w.work.expandForks(true)
	verifAssert(len(w.work.forks) == n || (n == 0 && len(w.work.forks) == 1), "C03: one fork per element")
	for _, f := range w.work.forks {
		vrOuts[f.metadata] = LazyArgumentMap{"y": vrDigit("work result")}
	}
	_, args, err := use.resolveInputs(use.forks[0].forkId, false)
	verifAssert(err == nil, "C01: the consumer's inputs resolve")
	if err != nil {
		return
	}
	got := vrEncode(args)
	want := vrCat([]byte(`{"ys":`), vrArray(ks), []byte(`}`))
	ok := verifBytesEq(got, want)
	if n == 0 {
		ok = ok || verifBytesEq(got, []byte(`{"ys":null}`))
	}
	verifAssert(ok, "C01: the consumer receives the constant once per element of the mapped collection")
	r := vrDigit("use result")
	vrOuts[use.forks[0].metadata] = LazyArgumentMap{"r": r}
	outs, _, err := w.ps.node.resolvePipelineOutputs(nil)
	verifAssert(err == nil && outs != nil, "C01: the pipeline's outputs resolve")
	if err != nil || outs == nil {
		return
	}
	gotO := vrEncode(outs)
	okO := verifBytesEq(gotO, vrCat([]byte(`{"r":`), r, []byte(`,"ys":`), vrArray(ks), []byte(`}`)))
	if n == 0 {
		okO = okO || verifBytesEq(gotO, vrCat([]byte(`{"r":`), r, []byte(`,"ys":null}`)))
	}
	verifCover("constant outputs of a mapped call resolved")
	verifAssert(okO, "C01: the top-level output holds the constant once per element")
}

//verif:stub (*github.com/martian-lang/martian/martian/core.Metadata).readRawSafe
func vrReadRawSafe(self *Metadata, name MetadataFileName) (string, error) {
	return "it failed\n", nil
}

// H_C06_dynamicForkError(n, fork, part): WORK is mapped over an array of n
// elements which GEN produces at run time.  mrp loaded the metadata of every
// node when it started (Pipestance.LoadMetadata: collectMetadatas for the one
// placeholder fork); GEN finishes, the forks of WORK are expanded, and the
// split (part 1), the join (part 2) or the fork itself (part 0: outputs which
// do not validate) of fork `fork` fails, while each of the other forks has
// finished or is still running.
//
//	C06: the stage is failed, and the error mrp reports (Node.getFatalError)
//	     names the failing job of that stage and the path of its _errors file.
func H_C06_dynamicForkError(n, fork, part int) {
	w := vrGraph()
	vrOuts = map[*Metadata]LazyArgumentMap{}
	// Pipestance.LoadMetadata at start-up
	for _, f := range w.work.forks {
		f.collectMetadatas()
	}
	xs := make([]json.RawMessage, n)
	for i := range xs {
		xs[i] = vrDigit("element")
	}
	vrOuts[w.gen.forks[0].metadata] = LazyArgumentMap{"xs": vrArray(xs), "v": json.RawMessage("1")}
	w.work.expandForks(true)
	if fork >= len(w.work.forks) || len(w.work.forks) != n {
		return
	}
	f := w.work.forks[fork]
	md := []*Metadata{f.metadata, f.split_metadata, f.join_metadata}[part]
	md.contents[Errors] = struct{}{}
	// every other fork has finished, or is still running
	for _, g := range w.work.forks {
		if g != f && verifBool("another fork has finished") {
			g.metadata.contents[CompleteFile] = struct{}{}
		}
	}
	verifCover("a job of a dynamically expanded fork failed")
	verifAssert(w.work.getState() == Failed, "C06: a failing job of a mapped stage fails the stage")
	fqname, _, _, _, kind, paths := w.work.getFatalError()
	verifAssert(fqname == md.fqname, "C06: the reported error names the failing job, also for forks created while mrp was running")
	verifAssert(kind == Errors && len(paths) > 0 && paths[0] == md.MetadataFilePath(Errors), "C06: the reported error points at the failing job's _errors file")
}

const vrErrSrc = `
stage GEN(
    out int a,
    out int b,
    out int c,
    src comp "g",
)

stage USE(
    in  int a,
    in  int b,
    in  int c,
    out int r,
    src comp "u",
)

pipeline P(
    out int r,
)
{
    call GEN()

    call USE(
        a = GEN.a,
        b = GEN.b,
        c = GEN.c,
    )

    return (
        r = USE.r,
    )
}

call P()
`

func vrErrGraph() *vrReal {
	disableUniquification = false
	return verifCached("vrErrGraph", func() any {
		rt := &Runtime{Config: &RuntimeOptions{JobMode: "local", VdrMode: VdrDisable}, mrjob: "/m/mrjob", adaptersPath: "/m/adapters"}
		_, _, ps, err := rt.instantiatePipeline([]byte(vrErrSrc), "/m/p.mro", "ps", "/ps", nil, "none", nil, false, true, context.Background())
		if err != nil {
			panic("fixture does not instantiate: " + err.Error())
		}
		n := func(name string) *Node { return ps.node.top.allNodes["ID.ps.P."+name] }
		return &vrReal{ps, n("GEN"), n("USE"), nil}
	}).(*vrReal)
}

// H_C10_resolveErrors: the producer of three inputs of a stage left outputs in
// which an arbitrary subset of the three is missing; the consumer's arguments
// are resolved under four map iteration orders (insertion, reverse, ascending
// and descending by key).
//
//	C10: the error recorded for the consumer (written to its _errors or alarm
//	     file by writeInvocation) is the same text under every order.
func H_C10_resolveErrors() {
	w := vrErrGraph()
	use := w.work
	outs := LazyArgumentMap{}
	missing := 0
	for _, k := range []string{"a", "b", "c"} {
		if verifBool("output present") {
			outs[k] = json.RawMessage("1")
		} else {
			missing++
		}
	}
	vrOuts = map[*Metadata]LazyArgumentMap{w.gen.forks[0].metadata: outs}
	render := func() string {
		_, _, err := use.resolveInputs(use.forks[0].forkId, false)
		if err == nil {
			return "<nil>"
		}
		return err.Error()
	}
	verifReverseMapOrder(false)
	a := render()
	verifReverseMapOrder(true)
	b := render()
	verifReverseMapOrder(false)
	verifKeyMapOrder(1)
	c := render()
	verifKeyMapOrder(-1)
	d := render()
	verifKeyMapOrder(0)
	verifCover("arguments resolved under four map orders")
	if missing >= 2 && a != "<nil>" {
		verifCover("several parameters failed to resolve")
	}
	verifAssert(a == b && a == c && a == d, "C10: the error recorded when several parameters fail to resolve does not depend on map iteration order (ghost)")
}

const vrWholeSrc = `
struct NARROW(
    int    a,
    string b,
)

struct WIDE(
    int    a,
    string b,
    int    extra,
)

struct T(
    NARROW   w,
    int      n,
    NARROW[] ws,
)

stage PRODUCE(
    out WIDE   w,
    out int    n,
    out WIDE[] ws,
    src comp   "p",
)

stage CONSUME(
    in  T    t,
    in  T[]  ts,
    out int  r,
    src comp "c",
)

pipeline TOP(
    out T   t,
    out int r,
)
{
    call PRODUCE()

    call CONSUME(
        t  = PRODUCE,
        ts = [PRODUCE],
    )

    return (
        t = PRODUCE,
        r = CONSUME.r,
    )
}

call TOP()
`

func vrWholeGraph() *vrReal {
	disableUniquification = false
	return verifCached("vrWholeGraph", func() any {
		rt := &Runtime{Config: &RuntimeOptions{JobMode: "local", VdrMode: VdrDisable}, mrjob: "/m/mrjob", adaptersPath: "/m/adapters"}
		_, _, ps, err := rt.instantiatePipeline([]byte(vrWholeSrc), "/m/p.mro", "ps", "/ps", nil, "none", nil, false, true, context.Background())
		if err != nil {
			panic("fixture does not instantiate: " + err.Error())
		}
		n := func(name string) *Node { return ps.node.top.allNodes["ID.ps.TOP."+name] }
		return &vrReal{ps, n("PRODUCE"), n("CONSUME"), nil}
	}).(*vrReal)
}

// H_C01_wholeCall(form): a call's whole output set is bound to a struct
// parameter (`t = PRODUCE`, `ts = [PRODUCE]`, `return (t = PRODUCE)`) whose
// members have the same names as the outputs but narrower types: a struct with
// fewer fields, and an array of them.  The producer wrote the extra fields; its
// int output is written as a plain integer (form 0) or as an integral float
// (form 1: `3.0`, which is a valid int output).
//
//	C01: the consumer and the top-level outputs receive the declared members
//	     only (extra fields dropped at every level), with the producer's values.
func H_C01_wholeCall(form int) {
	w := vrWholeGraph()
	vrOuts = map[*Metadata]LazyArgumentMap{}
	a, extra, n := vrDigit("a"), vrDigit("extra"), vrDigit("n")
	wide := vrCat([]byte(`{"a":`), a, []byte(`,"b":"x","extra":`), extra, []byte(`}`))
	narrow := vrCat([]byte(`{"a":`), a, []byte(`,"b":"x"}`))
	nOut := n
	if form == 1 {
		nOut = vrCat(n, []byte(".0"))
	}
	vrOuts[w.gen.forks[0].metadata] = LazyArgumentMap{"w": wide, "n": nOut, "ws": vrCat([]byte("["), wide, []byte("]"))}
	t := vrCat([]byte(`{"n":`), n, []byte(`,"w":`), narrow, []byte(`,"ws":[`), narrow, []byte(`]}`))
	_, args, err := w.work.resolveInputs(w.work.forks[0].forkId, false)
	verifCover("whole call bound to a narrower struct")
	if form == 1 && verifKnown("C01-whole-call-integral-float") {
		return
	}
	verifAssert(err == nil, "C01: binding a call's whole output to a struct of narrower members resolves")
	if err != nil {
		return
	}
	want := vrCat([]byte(`{"t":`), t, []byte(`,"ts":[`), t, []byte(`]}`))
	verifAssert(verifBytesEq(vrEncode(args), want), "C01: a whole call bound to a struct delivers the declared members only, extra fields dropped at every level")
	r := vrDigit("r")
	vrOuts[w.work.forks[0].metadata] = LazyArgumentMap{"r": r}
	outs, _, err := w.ps.node.resolvePipelineOutputs(nil)
	verifAssert(err == nil && outs != nil, "C01: the pipeline's outputs resolve")
	if err != nil || outs == nil {
		return
	}
	wantO := vrCat([]byte(`{"r":`), r, []byte(`,"t":`), t, []byte(`}`))
	verifAssert(verifBytesEq(vrEncode(outs), wantO), "C01: a whole call returned as a struct records the declared members only")
}

const vrReattachSrc = `
stage GEN(
    in  int n,
    out int v,
    src comp "bin",
)

pipeline P(
    in  int n,
    out int v,
)
{
    call GEN(
        n = self.n,
    )

    return (
        v = GEN.v,
    )
}
`

var vrReattachCalls = []struct {
	text string
	same bool
}{
	{"call P(\n    n = 3,\n)\n", true},
	{"# run three\ncall P(\n    n = 3,\n)\n", true},   // a comment
	{"call P(n = 3,)\n", true},                          // formatting
	{"\ncall P(\n    n = 3,\n)\n\n", true},          // blank lines
	{"call P(\n    n = 4,\n)\n", false},               // an argument value
	{"call P(\n    n = 2,\n)\n", false},               // another argument value
}

// H_C15_reattachText(v): the real Runtime.reattachToPipestance (read-only, as
// mrp --inspect and the equivalence check of a read-write attach do) with a
// supplied invocation whose call statement is variant v of the recorded
// `call P(n = 3,)`; the recorded _invocation and _mrosource are on the (model)
// disk.
//
//	C15: re-attach succeeds when the supplied invocation differs only in
//	     comments or formatting, and is refused when an argument value differs.
func H_C15_reattachText(v int) {
	disableUniquification = false
	rt := &Runtime{Config: &RuntimeOptions{JobMode: "local", VdrMode: VdrDisable}, mrjob: "/m/mrjob", adaptersPath: "/m/adapters"}
	old := vrReattachSrc + "\n" + vrReattachCalls[0].text
	vrFiles = map[string]string{
		"/ps/_invocation": old,
		"/ps/_mrosource":  old,
	}
	neu := vrReattachSrc + "\n" + vrReattachCalls[v].text
	ps, err := rt.reattachToPipestance("ps", "/ps", neu, "/m/p.mro", nil, "none", nil, true, true, InvocationFile, context.Background())
	vrFiles = nil
	verifCover("re-attach with an edited invocation text")
	if vrReattachCalls[v].same {
		verifAssert(err == nil && ps != nil, "C15: re-attach succeeds when the supplied invocation differs from the recorded one only in comments or formatting")
	} else {
		verifAssert(err != nil, "C15: re-attach is refused when an argument value of the invocation changed")
	}
}

const vrStatInDynSrc = `
stage GEN(
    out int[] arr,
    src comp  "g",
)

stage WORK(
    in  int x,
    in  int y,
    out int r,
    src comp "w",
)

pipeline INNER(
    in  int   x,
    out int[] rs,
)
{
    map call WORK(
        x = self.x,
        y = split [
            10,
            20,
            30,
        ],
    )

    return (
        rs = WORK.r,
    )
}

pipeline TOP(
    out int[][] rs,
)
{
    call GEN()

    map call INNER(
        x = split GEN.arr,
    )

    return (
        rs = INNER.rs,
    )
}

call TOP()
`

func vrStatInDynGraph() *vrReal {
	disableUniquification = false
	return verifCached("vrStatInDynGraph", func() any {
		rt := &Runtime{Config: &RuntimeOptions{JobMode: "local", VdrMode: VdrDisable}, mrjob: "/m/mrjob", adaptersPath: "/m/adapters"}
		_, _, ps, err := rt.instantiatePipeline([]byte(vrStatInDynSrc), "/m/p.mro", "ps", "/ps", nil, "none", nil, false, true, context.Background())
		if err != nil {
			panic("fixture does not instantiate: " + err.Error())
		}
		n := func(name string) *Node { return ps.node.top.allNodes["ID.ps.TOP."+name] }
		return &vrReal{ps, n("GEN"), n("INNER.WORK"), nil}
	}).(*vrReal)
}

// H_C11_forkOfNotification(n): WORK is mapped over a literal array of three
// elements inside a pipeline mapped over an array of n elements which a stage
// produces at run time.  For every fork of WORK, the name under which its jobs
// write their notifications into the journal is parsed the way mrp does
// (parseRunFilename) and looked up with Node.getFork.
//
//	C11: every notification is attributed to the fork that wrote it, and the
//	     forks have distinct names.
func H_C11_forkOfNotification(n int) {
	w := vrStatInDynGraph()
	vrOuts = map[*Metadata]LazyArgumentMap{}
	xs := make([]json.RawMessage, n)
	for i := range xs {
		xs[i] = vrDigit("element")
	}
	vrOuts[w.gen.forks[0].metadata] = LazyArgumentMap{"arr": vrArray(xs)}
	w.work.expandForks(true)
	verifCover("forks of a static call inside a run-time mapped pipeline expanded")
	verifAssert(len(w.work.forks) == 3*n, "C03: one fork per combination of outer and inner element")
	top := w.work.top
	for i, f := range w.work.forks {
		name := f.fqname[len(top.fqname)+1:] + ".complete"
		fq, forkIndex, ci, _, st := w.work.parseRunFilename(name)
		verifAssert(fq == "TOP.INNER.WORK" && ci == -1 && st == "complete", "the journal name of a fork parses back")
		verifAssert(w.work.getFork(forkIndex) == f, "C11: a notification written by a job of one fork is attributed to that fork, not to the fork at that position of the list")
		for j, g := range w.work.forks {
			if j != i {
				verifAssert(g.fqname != f.fqname && g.path != f.path, "C11: distinct forks have distinct journal names and directories")
			}
		}
	}
}

const vrTwoTimesSrc = `
stage GEN(
    in  string   k,
    out map<int> m,
    out int      n,
    src comp     "g",
)

stage WORK(
    in  int x,
    out int r,
    src comp "w",
)

pipeline INNER(
    in  string k,
    out int    n,
)
{
    call GEN(
        k = self.k,
    )

    map call WORK(
        x = split GEN.m,
    )

    return (
        n = GEN.n,
    )
}

pipeline TOP(
    out map<int> ns,
)
{
    map call INNER(
        k = split {
            "a": "a",
            "b": "b",
        },
    )

    return (
        ns = INNER.n,
    )
}

call TOP()
`

func vrTwoTimesGraph() *vrReal {
	disableUniquification = false
	return verifCached("vrTwoTimesGraph", func() any {
		rt := &Runtime{Config: &RuntimeOptions{JobMode: "local", VdrMode: VdrDisable}, mrjob: "/m/mrjob", adaptersPath: "/m/adapters"}
		_, _, ps, err := rt.instantiatePipeline([]byte(vrTwoTimesSrc), "/m/p.mro", "ps", "/ps", nil, "none", nil, false, true, context.Background())
		if err != nil {
			panic("fixture does not instantiate: " + err.Error())
		}
		n := func(name string) *Node { return ps.node.top.allNodes["ID.ps.TOP."+name] }
		return &vrReal{ps, n("INNER.GEN"), n("INNER.WORK"), nil}
	}).(*vrReal)
}

func vrOwnFork(node *Node, f *Fork) bool {
	top := node.top
	name := f.fqname[len(top.fqname)+1:] + ".complete"
	_, forkIndex, _, _, _ := node.parseRunFilename(name)
	return node.getFork(forkIndex) == f
}

// H_C11_lateFork(na, nb): WORK is mapped over a typed map which a producer
// inside each fork of an enclosing mapped pipeline writes.  The producer of
// outer fork a finishes first (na keys): WORK's forks for a are created and
// their jobs' notifications are looked up.  Later the producer of outer fork b
// finishes with nb keys (1: the placeholder fork is renamed in place).
//
//	C11: at either time every notification is attributed to the fork whose job
//	     wrote it.
func H_C11_lateFork(na, nb int) {
	w := vrTwoTimesGraph()
	vrOuts = map[*Metadata]LazyArgumentMap{}
	keys := "pqr"
	mapOf := func(n int) json.RawMessage {
		out := []byte{'{'}
		for i := 0; i < n; i++ {
			if i > 0 {
				out = append(out, ',')
			}
			out = append(out, ("\"" + keys[i:i+1] + "\":")...)
			out = append(out, vrDigit("value")...)
		}
		return append(out, '}')
	}
	var genA, genB *Fork
	for _, f := range w.gen.forks {
		if strings.HasSuffix(f.fqname, "fork_a") {
			genA = f
		} else {
			genB = f
		}
	}
	if genA == nil || genB == nil {
		verifAssert(false, "the producer has one fork per key of the enclosing map call")
		return
	}
	vrOuts[genA.metadata] = LazyArgumentMap{"m": mapOf(na)}
	w.work.expandForks(false)
	verifCover("forks of the first outer fork expanded")
	resolved := 0
	for _, f := range w.work.forks {
		if strings.Contains(f.fqname, "fork_a") && f.forkId[len(f.forkId)-1].Id.IndexSource() == nil {
			resolved++
			verifAssert(vrOwnFork(w.work, f), "C11: a notification of an early fork is attributed to it while other forks are still unresolved")
		}
	}
	verifAssert(resolved == na, "C03: the forks of the outer fork whose collection is known exist")
	vrOuts[genB.metadata] = LazyArgumentMap{"m": mapOf(nb)}
	w.work.expandForks(true)
	verifCover("forks of the late outer fork expanded")
	verifAssert(len(w.work.forks) == na+nb, "C03: one fork per key of each outer fork's map")
	for i, f := range w.work.forks {
		verifAssert(vrOwnFork(w.work, f), "C11: a notification is attributed to the fork that wrote it, also for a fork which was resolved late")
		for j, g := range w.work.forks {
			if j != i {
				verifAssert(g.fqname != f.fqname && g.path != f.path, "C11: distinct forks have distinct journal names and directories")
			}
		}
	}
}

// H_C10_validateText: the outputs a job left are validated against the stage's
// three declared outputs; each declared output is arbitrarily present, missing
// or ill-typed, and two undeclared ones may be there.  The same for the
// arguments of the consumer against its three declared inputs.
//
//	C10: the error and alarm texts (what mrp writes to _errors / _alarm) are
//	     the same under four map iteration orders.
func H_C10_validateText() {
	w := vrErrGraph()
	types := w.ps.node.top.types
	outs := LazyArgumentMap{}
	for _, k := range []string{"a", "b", "c"} {
		switch v := verifInt("state of " + k); {
		case v == 0:
			outs[k] = json.RawMessage("1")
		case v == 1:
			outs[k] = json.RawMessage(`"x"`)
		default:
			verifAssume(v == 2)
		}
	}
	if verifBool("undeclared values") {
		outs["zz"] = json.RawMessage("1")
		outs["yy"] = json.RawMessage("2")
	}
	outParams := w.gen.call.Callable().GetOutParams()
	inParams := w.work.call.Callable().GetInParams()
	render := func() string {
		e1, a1 := outs.ValidateOutputs(types, outParams)
		e2, a2 := outs.ValidateInputs(types, inParams)
		s := a1 + "|" + a2 + "|"
		if e1 != nil {
			s += e1.Error()
		}
		s += "|"
		if e2 != nil {
			s += e2.Error()
		}
		return s
	}
	verifReverseMapOrder(false)
	a := render()
	verifReverseMapOrder(true)
	b := render()
	verifReverseMapOrder(false)
	verifKeyMapOrder(1)
	c := render()
	verifKeyMapOrder(-1)
	d := render()
	verifKeyMapOrder(0)
	verifCover("outputs and arguments validated under four map orders")
	verifAssert(a == b && a == c && a == d, "C10: the text of output / argument validation errors does not depend on map iteration order (ghost)")
}

const vrZipSrc = `
stage GEN(
    out int[] xs,
    src comp  "g",
)

stage ZIP(
    in  int x,
    in  int y,
    out int r,
    src comp "z",
)

pipeline TOP(
    out int[] rs,
)
{
    call GEN as GEN_A()
    call GEN as GEN_B()

    map call ZIP(
        x = split GEN_A.xs,
        y = split GEN_B.xs,
    )

    return (
        rs = ZIP.r,
    )
}

call TOP()
`

type vrZip struct {
	ps         *Pipestance
	a, b, zip  *Node
}

func vrZipGraph() *vrZip {
	disableUniquification = false
	return verifCached("vrZipGraph", func() any {
		rt := &Runtime{Config: &RuntimeOptions{JobMode: "local", VdrMode: VdrDisable}, mrjob: "/m/mrjob", adaptersPath: "/m/adapters"}
		_, _, ps, err := rt.instantiatePipeline([]byte(vrZipSrc), "/m/p.mro", "ps", "/ps", nil, "none", nil, false, true, context.Background())
		if err != nil {
			panic("fixture does not instantiate: " + err.Error())
		}
		n := func(name string) *Node { return ps.node.top.allNodes["ID.ps.TOP."+name] }
		return &vrZip{ps, n("GEN_A"), n("GEN_B"), n("ZIP")}
	}).(*vrZip)
}

// H_C01_zipLengths(na, nb): a call mapped over two arrays at once, produced by
// two stages at run time with na and nb elements.
//
//	C01/C03: with equal lengths there is one fork per index and fork i gets
//	     (xs[i], ys[i]).  With different non-zero lengths the mismatch is
//	     reported - no element of either array is silently left out.
func H_C01_zipLengths(na, nb int) {
	w := vrZipGraph()
	vrOuts = map[*Metadata]LazyArgumentMap{}
	mk := func(n int) []json.RawMessage {
		xs := make([]json.RawMessage, n)
		for i := range xs {
			xs[i] = vrDigit("element")
		}
		return xs
	}
	xs, ys := mk(na), mk(nb)
	vrOuts[w.a.forks[0].metadata] = LazyArgumentMap{"xs": vrArray(xs)}
	vrOuts[w.b.forks[0].metadata] = LazyArgumentMap{"xs": vrArray(ys)}
	w.zip.expandForks(true)
	verifCover("zipped call expanded")
	failed := false
	resolved := 0
	for _, f := range w.zip.forks {
		if len(f.forkId) != 1 {
			continue
		}
		idx, ok := f.forkId[0].Id.(arrayIndexFork)
		if !ok {
			continue
		}
		_, args, err := w.zip.resolveInputs(f.forkId, false)
		if err != nil {
			failed = true
			continue
		}
		i := int(idx)
		resolved++
		if i < na && i < nb {
			want := vrCat([]byte(`{"x":`), xs[i], []byte(`,"y":`), ys[i], []byte(`}`))
			verifAssert(verifBytesEq(vrEncode(args), want), "C01: fork i of a call mapped over two arrays receives the i-th element of each")
		}
	}
	if na == nb {
		verifAssert(!failed && (resolved == na || na == 0), "C01/C03: a call mapped over two arrays of equal length has one resolvable fork per index")
	} else if na == 0 || nb == 0 {
		// an empty collection maps to nothing (whether the other array's
		// elements then count as "left out" is not claimed)
		return
	} else {
		verifAssert(failed, "C01/C03: mapping a call over two run-time arrays of different lengths is reported as an error: no element of either array is silently left out")
	}
}

const vrItemSrc = `
struct ITEM(
    bool skip,
    int  value,
)

stage GEN(
    out ITEM[] items,
    src comp   "g",
)

stage WORK(
    in  int v,
    out int r,
    src comp "w",
)

pipeline INNER(
    in  ITEM item,
    out int  r,
)
{
    call WORK(
        v = self.item.value,
    ) using (
        disabled = self.item.skip,
    )

    return (
        r = WORK.r,
    )
}

pipeline TOP(
    out int[] rs,
)
{
    call GEN()

    map call INNER(
        item = split GEN.items,
    )

    return (
        rs = INNER.r,
    )
}

call TOP()
`

func vrItemGraph() *vrReal {
	disableUniquification = false
	return verifCached("vrItemGraph", func() any {
		rt := &Runtime{Config: &RuntimeOptions{JobMode: "local", VdrMode: VdrDisable}, mrjob: "/m/mrjob", adaptersPath: "/m/adapters"}
		_, _, ps, err := rt.instantiatePipeline([]byte(vrItemSrc), "/m/p.mro", "ps", "/ps", nil, "none", nil, false, true, context.Background())
		if err != nil {
			panic("fixture does not instantiate: " + err.Error())
		}
		n := func(name string) *Node { return ps.node.top.allNodes["ID.ps.TOP."+name] }
		return &vrReal{ps, n("GEN"), n("INNER.WORK"), nil}
	}).(*vrReal)
}

// H_C01_disabledByMember: a pipeline is mapped over an array of two structs
// which a stage produces at run time; inside it one call is disabled by a
// member of its element (disabled = self.item.skip) and fed another member.
//
//	C03: WORK runs exactly for the elements whose skip is false.
//	C01: it receives its element's value; the top-level output holds, per
//	     element, the call's result or null where it was disabled.
func H_C01_disabledByMember() {
	w := vrItemGraph()
	vrOuts = map[*Metadata]LazyArgumentMap{}
	var skip [2]bool
	items := []byte{'['}
	for i := range skip {
		skip[i] = verifBool("skip")
		if i > 0 {
			items = append(items, ',')
		}
		s := "false"
		if skip[i] {
			s = "true"
		}
		items = append(items, (`{"skip":` + s + `,"value":` + string(rune('1'+i)) + `}`)...)
	}
	items = append(items, ']')
	vrOuts[w.gen.forks[0].metadata] = LazyArgumentMap{"items": json.RawMessage(items)}
	w.work.expandForks(true)
	verifCover("forks of a call disabled by a member of its element expanded")
	verifAssert(len(w.work.forks) == 2, "C03: one fork per element")
	if len(w.work.forks) != 2 {
		return
	}
	var results [2]json.RawMessage
	for i, f := range w.work.forks {
		dis, err := f.disabled()
		verifAssert(err == nil, "C03: the disabling condition of every fork resolves")
		verifAssert(dis == skip[i], "C03: a fork is disabled exactly when its element's member says so")
		if !dis {
			_, args, err := w.work.resolveInputs(f.forkId, false)
			verifAssert(err == nil, "C01: the inputs of an enabled fork resolve")
			if err == nil {
				verifAssert(verifBytesEq(vrEncode(args), []byte(`{"v":`+string(rune('1'+i))+`}`)), "C01: the fork for element i receives a member of element i")
			}
			results[i] = vrDigit("work result")
			vrOuts[f.metadata] = LazyArgumentMap{"r": results[i]}
		} else {
			results[i] = json.RawMessage("null")
		}
	}
	outs, _, err := w.ps.node.resolvePipelineOutputs(nil)
	verifAssert(err == nil && outs != nil, "C01: the outputs of a pipeline mapped over run-time structs, with a call disabled by a member of its element, resolve")
	if err != nil || outs == nil {
		return
	}
	want := vrCat([]byte(`{"rs":[`), results[0], []byte(","), results[1], []byte(`]}`))
	verifAssert(verifBytesEq(vrEncode(outs), want), "C01: per element, the top-level output holds the result of the call, or null where the call was disabled")
}
