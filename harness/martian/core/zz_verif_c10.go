package core

import (
	"bytes"
)

// C10 — determinism of the runtime's own serializers (argument maps,
// metadata listings, environment blocks): two runs over the same Go map give
// the same bytes whatever order the map is iterated in.

//verif:stub encoding/json.Marshal
func c10Marshal(v any) ([]byte, error) {
	// contract of encoding/json for strings without characters that need escaping
	if s, ok := v.(string); ok {
		return []byte(`"` + s + `"`), nil
	}
	return []byte("{}"), nil
}

func c10CoreKeys(n int) []string {
	keys := make([]string, n)
	for i := range keys {
		keys[i] = verifString("key", 1)
		verifAssume(verifAll(keys[i][0] >= 'a', keys[i][0] <= 'z'))
		for j := 0; j < i; j++ {
			verifAssume(keys[i] != keys[j])
		}
	}
	return keys
}

// H_C10_argumentMaps: LazyArgumentMap and MarshalerMap encoders.
func H_C10_argumentMaps(n int, which int) {
	verifNondetMapOrder(true)
	keys := c10CoreKeys(n)
	lazy := LazyArgumentMap{}
	mm := MarshalerMap{}
	for i, k := range keys {
		lazy[k] = []byte{'0' + byte(i)}
		mm[k] = lazy[k]
	}
	var a1, a2 []byte
	var e1, e2 error
	if which == 0 {
		a1, e1 = lazy.MarshalJSON()
		a2, e2 = lazy.MarshalJSON()
	} else {
		a1, e1 = mm.MarshalJSON()
		a2, e2 = mm.MarshalJSON()
	}
	verifCover("argument maps emitted twice")
	verifAssert(e1 == nil && e2 == nil, "argument map encoders do not fail")
	verifAssert(bytes.Equal(a1, a2), "C10: argument map JSON does not depend on map iteration order")
}

// H_C10_metadataState: the listing of metadata files in a serialized
// pipestance state, and the environment block of a job script.
func H_C10_metadataState(n int, which int) {
	verifNondetMapOrder(true)
	keys := c10CoreKeys(n)
	m := NewMetadata("ID.ps.P.S.fork0", "/ps/P/S/fork0")
	envs := map[string]string{}
	for _, k := range keys {
		m.contents[MetadataFileName(k)] = struct{}{}
		envs["V"+k] = k
	}
	verifCover("metadata state emitted twice")
	if which == 0 {
		s1 := m.serializeState()
		s2 := m.serializeState()
		verifAssert(len(s1.Names) == len(s2.Names), "C10: serialized metadata lists are equally long")
		for i := range s1.Names {
			if i < len(s2.Names) {
				verifAssert(s1.Names[i] == s2.Names[i], "C10: the serialized list of metadata files does not depend on map iteration order")
			}
		}
	} else {
		verifAssert(formatArgs(envs, "cmd", nil) == formatArgs(envs, "cmd", nil), "C10: the environment block of a job script does not depend on map iteration order")
	}
}
