//verif:native

package core

import (
	"net/url"
	"strconv"
	"strings"

	"github.com/martian-lang/martian/martian/syntax"
)

// C11 — fork identities are unique and job notifications reach their owner.

func containsByte(s string, c byte) bool {
	r := false
	for i := 0; i < len(s); i++ {
		r = verifAny(r, s[i] == c)
	}
	return r
}

// H_C11_keySafe: the directory-name encoding of a map key has a left inverse
// (so distinct keys give distinct names) and is a legal single path element.
func H_C11_keySafe(n int) {
	k := verifString("k", n)
	s := makeKeySafe(k)
	back, err := url.PathUnescape(s)
	verifCover("escaped")
	verifAssert(err == nil, "escaped key unescapes without error")
	if err == nil {
		verifAssert(back == k, "PathUnescape(makeKeySafe(k)) == k")
	}
	verifAssert(!containsByte(s, '/'), "escaped key has no path separator")
	verifAssert(!containsByte(s, 0), "escaped key has no NUL")
	fs := mapKeyFork(k).forkString()
	verifAssert(fs == "fork_"+s, "map fork directory is fork_<escaped key>")
	// the journal form additionally has no '.', and the directory form can be
	// recovered from it
	j := encodeJournalName.Replace(fs)
	verifAssert(!containsByte(j, '.'), "journal fork name has no dot")
	verifAssert(!containsByte(j, '/'), "journal fork name has no slash")
}

// H_C11_distinctKeys: two different keys never share a directory or a
// journal name.
func H_C11_distinctKeys(n1, n2 int) {
	k1 := verifString("k1", n1)
	k2 := verifString("k2", n2)
	verifAssume(k1 != k2)
	f1 := mapKeyFork(k1).forkString()
	f2 := mapKeyFork(k2).forkString()
	verifCover("two keys")
	verifAssert(f1 != f2, "distinct keys get distinct fork directories")
	verifAssert(encodeJournalName.Replace(f1) != encodeJournalName.Replace(f2),
		"distinct keys get distinct journal names")
}

// H_C11_arrayIndex: padded array fork ids are injective and invert with Atoi.
func H_C11_arrayIndex() {
	i := verifInt("i")
	j := verifInt("j")
	verifAssume(i >= 0 && i < 1000)
	verifAssume(j >= 0 && j < 1000)
	si := arrayIndexFork(i).forkString()
	sj := arrayIndexFork(j).forkString()
	verifCover("indices")
	if i != j {
		verifAssert(si != sj, "distinct indices get distinct fork names")
	}
	back, err := strconv.Atoi(si[4:])
	verifAssert(err == nil && back == i, "Atoi inverts the array fork name")
}

// H_C11_paddedIndex: with a common dimension, padded indices are injective,
// have equal width, and Atoi inverts them.
func H_C11_paddedIndex() {
	dim := verifInt("dim")
	i := verifInt("i")
	j := verifInt("j")
	verifAssume(dim >= 1 && dim <= 20000)
	verifAssume(i >= 0 && i < dim)
	verifAssume(j >= 0 && j < dim)
	var b1, b2 strings.Builder
	e1 := writePaddedIndex(&b1, dim, i)
	e2 := writePaddedIndex(&b2, dim, j)
	s1, s2 := b1.String(), b2.String()
	verifCover("padded")
	verifAssert(e1 == nil && e2 == nil, "writePaddedIndex does not fail")
	verifAssert(len(s1) == len(s2), "padded indices of one dimension have equal width")
	if i != j {
		verifAssert(s1 != s2, "distinct indices give distinct padded names")
	}
	back, err := strconv.Atoi(s1)
	verifAssert(err == nil && back == i, "Atoi inverts the padded index")
}

var c11States = []string{"complete", "errors", "progress", "stage_defs", "queued_locally", "jobinfo", "log", "heartbeat", "assert"}
var c11Prefixes = []string{"", "split_", "join_"}

// c11Node builds a node "ID.ps.P.S" with the given forks under a top node.
func c11Node(fqid string, top *TopNode) *Node {
	return &Node{
		top:  top,
		call: syntax.VerifStageNode(fqid, &syntax.CallStm{Id: "S", DecId: "S"}, nil, nil),
	}
}

func c11Fork(node *Node, id string, index int) *Fork {
	f := &Fork{node: node, id: id, index: index}
	f.fqname = node.call.GetFqid() + "." + encodeJournalName.Replace(id)
	return f
}

// H_C11_route: the journal file name written for (node, map-key fork, chunk?,
// uniquifier?, file) is parsed back into exactly those five parts, and the
// node and fork found from them are the ones that wrote it — also when
// another fork's key looks like an array index or like this key's encoding.
func H_C11_route(n int, withChunk int, withUniq int, st int, pf int, writer int) {
	k := verifString("k", n)
	k2 := verifString("other", 1)
	verifAssume(k != k2)

	top := &TopNode{fqname: "ID.ps"}
	node := c11Node("ID.ps.P.S", top)
	other := c11Node("ID.ps.P.S2", top)
	// forks: a map-key fork for k, one for k2, and (index 2) an array-like one
	fk := c11Fork(node, mapKeyFork(k).forkString(), 0)
	fk2 := c11Fork(node, mapKeyFork(k2).forkString(), 1)
	node.forks = []*Fork{fk, fk2}
	other.forks = []*Fork{c11Fork(other, mapKeyFork(k).forkString(), 0)}
	root := &Node{top: top, call: syntax.VerifPipelineNode("ID.ps.P", &syntax.CallStm{Id: "P", DecId: "P"}, nil, nil),
		subnodes: map[string]Nodable{"S": node, "S2": other}}

	// the notification may come from either fork (the other one is the look-alike)
	if writer != 0 {
		fk, fk2 = fk2, fk
	}
	// the name mrjob / mrp write: <journalPath base>[.u<uniq>].<prefix><state>
	name := fk.fqname[len(top.fqname)+1:]
	chunkIdx := -1
	if withChunk != 0 {
		// withChunk is the (padded) width of the chunk number
		d := verifBytes("digits", withChunk)
		ci := 0
		for i := range d {
			verifAssume(verifAll(d[i] >= '0', d[i] <= '9'))
			ci = ci*10 + int(d[i]-'0')
		}
		name += ".chnk" + string(d)
		chunkIdx = ci
	}
	uniq := ""
	if withUniq != 0 {
		u := verifBytes("uniq", 10)
		for i := range u {
			verifAssume(verifAny(verifAll(u[i] >= '0', u[i] <= '9'), verifAll(u[i] >= 'a', u[i] <= 'f')))
		}
		uniq = string(u)
		name += ".u" + uniq
	}
	state := c11Prefixes[pf] + c11States[st]
	name += "." + state

	fq, forkIndex, ci, un, stOut := root.parseRunFilename(name)
	verifCover("parsed")
	verifAssert(fq == "P.S", "journal name parses to the node that wrote it")
	verifAssert(ci == chunkIdx, "journal name parses to the chunk that wrote it")
	verifAssert(un == uniq, "journal name parses to the attempt (uniquifier) that wrote it")
	verifAssert(stOut == state, "journal name parses to the metadata file that was written")
	if fq == "P.S" {
		found := root.find(fq)
		verifAssert(found == node, "find returns the node that wrote the notification")
		if found == node {
			verifAssert(found.getFork(forkIndex) == fk, "getFork returns the fork that wrote the notification")
		}
	}
}

// H_C11_routeArray: the same for array-index forks (padded numeric ids),
// where getFork uses the numeric value as a position.
func H_C11_routeArray() {
	nf := verifInt("nforks")
	verifAssume(nf >= 1 && nf <= 12)
	nf = verifConcretize(nf)
	i := verifInt("i")
	verifAssume(i >= 0 && i < nf)
	top := &TopNode{fqname: "ID.ps"}
	node := c11Node("ID.ps.P.S", top)
	call := &syntax.CallStm{Id: "S", DecId: "S"}
	src := &syntax.ArrayExp{Value: make([]syntax.Exp, nf)}
	split := &syntax.SplitExp{Call: call, Source: src, Value: src}
	for x := 0; x < nf; x++ {
		id := ForkId{&ForkSourcePart{Split: split, Id: arrayIndexFork(x)}}
		s, err := id.ForkIdString()
		verifAssert(err == nil, "array fork id string has no error")
		node.forks = append(node.forks, c11Fork(node, s, x))
	}
	i = verifConcretize(i)
	fk := node.forks[i]
	name := fk.fqname[len(top.fqname)+1:] + ".complete"
	fq, forkIndex, ci, un, stOut := node.parseRunFilename(name)
	verifCover("parsed array")
	verifAssert(fq == "P.S" && ci == -1 && un == "" && stOut == "complete", "array fork journal name parses back")
	verifAssert(node.getFork(forkIndex) == fk, "getFork returns the array fork that wrote the notification")
	for x := 0; x < nf; x++ {
		if x != i {
			verifAssert(node.forks[x].fqname != fk.fqname, "array forks have distinct journal names")
		}
	}
}

// H_C11_uniquifier: a notification carrying a different attempt id changes nothing.
func H_C11_uniquifier() {
	mine := verifString("mine", 2)
	theirs := verifString("theirs", 2)
	m := NewMetadata("ID.ps.P.S.fork0", "/p")
	m.uniquifier = mine
	m.cache(CompleteFile, theirs)
	_, present := m.contents[CompleteFile]
	verifCover("cached")
	verifAssert(present == (mine == theirs), "a notification is recorded iff it carries this attempt's uniquifier")
}

// ---- fork ids with two dimensions: names stay unique ----

func c11Part(mode int, idx int, keys []string) *ForkSourcePart {
	call := &syntax.CallStm{Id: "C", DecId: "C"}
	if mode == 0 {
		src := &syntax.ArrayExp{Value: []syntax.Exp{&syntax.IntExp{Value: 1}, &syntax.IntExp{Value: 2}, &syntax.IntExp{Value: 3}}}
		return &ForkSourcePart{Split: &syntax.SplitExp{Call: call, Source: src, Value: src}, Id: arrayIndexFork(idx)}
	}
	m := &syntax.MapExp{Kind: syntax.KindMap, Value: map[string]syntax.Exp{}}
	for _, k := range keys {
		m.Value[k] = &syntax.IntExp{Value: 1}
	}
	return &ForkSourcePart{Split: &syntax.SplitExp{Call: call, Source: m, Value: m}, Id: mapKeyFork(keys[idx])}
}

// H_C11_nestedIds(outerMode, innerMode): a call mapped inside a mapped
// pipeline has fork ids with two parts, each an index into a 3-element array
// (mode 0) or a key of a 3-key map (mode 1; keys are arbitrary distinct
// one-byte strings).  Two forks of the same node with different ids never get
// the same directory / fully qualified name / journal name.
func H_C11_nestedIds(outerMode, innerMode int) {
	keys := []string{verifString("k0", 1), verifString("k1", 1), verifString("k2", 1)}
	verifAssume(keys[0] != keys[1] && keys[0] != keys[2] && keys[1] != keys[2])
	pick := func(name string) int {
		i := verifInt(name)
		verifAssume(verifAll(i >= 0, i < 3))
		return verifConcretize(i)
	}
	a0, a1, b0, b1 := pick("x.outer"), pick("x.inner"), pick("y.outer"), pick("y.inner")
	x := ForkId{c11Part(outerMode, a0, keys), c11Part(innerMode, a1, keys)}
	y := ForkId{c11Part(outerMode, b0, keys), c11Part(innerMode, b1, keys)}
	sx, ex := x.ForkIdString()
	sy, ey := y.ForkIdString()
	verifCover("nested ids named")
	verifAssert(ex == nil && ey == nil, "C11: a fully resolved two-dimensional fork id has a name")
	if ex != nil || ey != nil {
		return
	}
	if a0 != b0 || a1 != b1 {
		verifAssert(sx != sy, "C11: forks of one node with different ids get different directories")
		verifAssert(encodeJournalName.Replace(sx) != encodeJournalName.Replace(sy), "C11: forks of one node with different ids get different journal names")
	} else {
		verifAssert(sx == sy, "C11: the same id always gets the same name")
	}
}

// H_C11_separatorKeys(n): two forks of a call mapped over a typed map inside a
// pipeline mapped over a typed map, whose keys contain the text mrp itself
// puts between the levels of a nested fork name: with arbitrary p, q, x of n
// bytes each, the forks (p, x+"/fork_"+q) and (p+"/fork_"+x, q).
//
//	C11: they are distinct forks, so they get distinct directories and distinct
//	     journal names ("text that looks like an encoded key").
func H_C11_separatorKeys(n int) {
	p, q, x := verifString("p", n), verifString("q", n), verifString("x", n)
	sep := "/fork_"
	keys := []string{p, x + sep + q, p + sep + x, q}
	a := ForkId{c11Part(1, 0, keys), c11Part(1, 1, keys)}
	b := ForkId{c11Part(1, 2, keys), c11Part(1, 3, keys)}
	sa, ea := a.ForkIdString()
	sb, eb := b.ForkIdString()
	verifCover("separator-like keys named")
	if ea != nil || eb != nil {
		// (a key which is not a legal directory name is refused elsewhere)
		return
	}
	verifAssert(sa != sb, "C11: forks whose keys contain the level separator get different directories")
	verifAssert(encodeJournalName.Replace(sa) != encodeJournalName.Replace(sb), "C11: forks whose keys contain the text of the level separator get different journal names")
}
