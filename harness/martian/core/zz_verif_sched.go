package core

// C02 / C03 / C06 — the scheduler's decision code, one step from an arbitrary
// valid state.  The runtime's only view of the world is the set of sentinel
// files cached per job directory; every Metadata.contents below has symbolic
// presence bits, i.e. every instant of every schedule / fault / crash.
//
// OS boundary and AST/JSON-bound helpers are replaced by the stubs in this
// file (listed in the evidence); everything else is the real code.

import (
	"context"
	"encoding/json"
	"errors"
	"os"
	"path"
	"runtime/trace"
	"strings"
	"time"

	"github.com/martian-lang/martian/martian/syntax"
	"github.com/martian-lang/martian/martian/util"
)

// ---- ghost state (reset by the engine's roll-back between paths)

var (
	vsExec             []*Metadata // metadata handed to JobManager.execJob, in order
	vsEnded            []*Metadata
	vsWrites           []string // paths written
	vsChunks           int      // number of chunk defs _stage_defs contains
	vsDefsErr          bool     // _stage_defs unreadable
	vsDisabled         bool
	vsResolveErr       bool
	vsOutsOK           bool
	vsOutsMsg          bool
	vsReadErr          bool
	vsChunkOutOK       bool
	vsChunkBad         [3]bool // per chunk: outputs invalid
	vsChunkNoOut       [3]bool // per chunk: _outs unreadable
	vsChunkMetas       []*Metadata
	vsChunkOutsWritten []LazyArgumentMap
	vsChunkOutsSeen    bool
	vsJournalFiles     []string
)

// ---- stubs

//verif:stub os.WriteFile
func vsWriteFile(name string, data []byte, perm os.FileMode) error {
	vsWrites = append(vsWrites, name)
	if vsDiskMode {
		vsDiskAdd(path.Dir(name), metadataFileNameFromPath(name))
	}
	return nil
}

// ---- an explicit "disk" for the interrupted-run harness (H_C05_crashRun): the
// metadata files present in each metadata directory.  In disk mode glob,
// _stage_defs reads, writes and removals go through it, so that a second mrp
// instantiated on the same directory sees what the first one left.
var (
	vsDiskMode bool
	vsDisk     map[string]map[MetadataFileName]struct{}
)

func vsDiskAdd(dir string, name MetadataFileName) {
	if vsDisk[dir] == nil {
		vsDisk[dir] = map[MetadataFileName]struct{}{}
	}
	vsDisk[dir][name] = struct{}{}
}

func vsDiskHas(dir string, name MetadataFileName) bool {
	_, ok := vsDisk[dir][name]
	return ok
}

//verif:stub os.ReadFile
func vsReadFile(name string) ([]byte, error) {
	if vsReadErr {
		return nil, errors.New("read failed")
	}
	return []byte("{}"), nil
}

//verif:stub os.Stat
func vsStat(name string) (os.FileInfo, error) { return nil, errors.New("no such file") }

//verif:stub os.Readlink
func vsReadlink(name string) (string, error) { return "", errors.New("not a link") }

//verif:stub encoding/json.MarshalIndent
func vsMarshalIndent(v any, prefix, indent string) ([]byte, error) {
	if co, ok := v.([]LazyArgumentMap); ok {
		vsChunkOutsWritten = co
		vsChunkOutsSeen = true
	}
	return []byte("{}"), nil
}

//verif:stub encoding/json.Marshal
func vsMarshal(v any) ([]byte, error) { return []byte("{}"), nil }

//verif:stub (*github.com/martian-lang/martian/martian/core.Metadata).ReadInto
func vsReadInto(self *Metadata, name MetadataFileName, target interface{}) error {
	if vsDefsErr {
		return errors.New("bad _stage_defs")
	}
	if ji, ok := target.(*JobInfo); ok {
		if vsJobInfoErr {
			return errors.New("bad _jobinfo")
		}
		if !vsPidZero {
			ji.Pid = 4711
		}
		return nil
	}
	if sd, ok := target.(**StageDefs); ok {
		if vsDiskMode && !vsDiskHas(self.path, name) && !self.exists(name) {
			return errors.New("open _stage_defs: no such file")
		}
		defs := &StageDefs{}
		for i := 0; i < vsChunks; i++ {
			defs.ChunkDefs = append(defs.ChunkDefs, &ChunkDef{})
		}
		if vsDefsNullChunk {
			// what encoding/json makes of {"chunks": [..., null]}
			defs.ChunkDefs = append(defs.ChunkDefs, nil)
		}
		*sd = defs
	}
	return nil
}

//verif:stub (*github.com/martian-lang/martian/martian/core.Metadata).read
func vsRead(self *Metadata, name MetadataFileName, limit int64) (LazyArgumentMap, error) {
	for i, m := range vsChunkMetas {
		if m == self {
			if vsChunkNoOut[i] {
				return nil, errors.New("chunk outs unreadable")
			}
			return LazyArgumentMap{"chunk": []byte{'0' + byte(i)}}, nil
		}
	}
	if vsReadErr {
		return nil, errors.New("read failed")
	}
	if vsRealOuts != nil && name == OutsFile {
		return vsRealOuts, nil
	}
	return LazyArgumentMap{}, nil
}

// what every stage of the real-graph fixture writes as its outputs (H_SCHED_run)
var vsRealOuts LazyArgumentMap

// (the reference JSON decoder of zz_verif_c01_real.go; reached only when the
// fixture stages have outputs, i.e. in H_SCHED_run)
//
//verif:stub encoding/json.Unmarshal
func vsUnmarshal(data []byte, v any) error { return vjUnmarshal(data, v) }

//verif:stub (*github.com/martian-lang/martian/martian/core.Metadata).poll
func vsPoll(self *Metadata) {}

//verif:stub (*github.com/martian-lang/martian/martian/core.Metadata).mkdirs
func vsMkdirs(self *Metadata) error { return nil }

// uniquify: the directory work is skipped; the attempt identity is kept as in
// the real function: a new uniquifier is drawn only if none is set
var vsUniqCounter int

//verif:stub (*github.com/martian-lang/martian/martian/core.Metadata).uniquify
func vsUniquify(self *Metadata) error {
	if self.uniquifier == "" {
		vsUniqCounter++
		self.uniquifier = "fresh0000" + string(rune('0'+vsUniqCounter%10))
	}
	return nil
}

//verif:stub (*github.com/martian-lang/martian/martian/core.Metadata).discoverUniquify
func vsDiscoverUniquify(self *Metadata) {}

//verif:stub (*github.com/martian-lang/martian/martian/core.Metadata)._removeNoLock
func vsRemoveNoLock(self *Metadata, name MetadataFileName) error {
	self._uncacheNoLock(name)
	return nil
}

//verif:stub (*github.com/martian-lang/martian/martian/core.Metadata).appendRaw
func vsAppendRaw(self *Metadata, name MetadataFileName, text string) error {
	self.cache(name, self.uniquifier)
	vsWrites = append(vsWrites, self.MetadataFilePath(name))
	return nil
}

//verif:stub github.com/martian-lang/martian/martian/util.Timestamp
func vsTimestamp() string { return "t" }

//verif:stub github.com/martian-lang/martian/martian/util.MkdirAll
func vsMkdirAll(p string) error { return nil }

//verif:stub github.com/martian-lang/martian/martian/util.Mkdir
func vsMkdir(p string) error { return nil }

//verif:stub github.com/martian-lang/martian/martian/util.EnterCriticalSection
func vsEnterCS() {}

//verif:stub github.com/martian-lang/martian/martian/util.ExitCriticalSection
func vsExitCS() {}

//verif:stub (*github.com/martian-lang/martian/martian/core.Node).resolveInputs
func vsResolveInputs(node *Node, fork ForkId, keepSplit bool) ([]string, MarshalerMap, error) {
	if vsResolveErr {
		return nil, MarshalerMap{}, errors.New("unresolved")
	}
	return nil, MarshalerMap{}, nil
}

//verif:stub (*github.com/martian-lang/martian/martian/core.Fork).disabled
func vsForkDisabled(self *Fork) (bool, error) { return vsDisabled, nil }

//verif:stub (*github.com/martian-lang/martian/martian/core.Fork).writeInvocation
func vsWriteInvocation(self *Fork) {}

//verif:stub (*github.com/martian-lang/martian/martian/core.Fork).printState
func vsPrintState(self *Fork, state MetadataState) {}

//verif:stub (*github.com/martian-lang/martian/martian/core.Fork).isVolatile
func vsIsVolatile(self *Fork) bool { return false }

//verif:stub (*github.com/martian-lang/martian/martian/core.Fork).partialVdrKill
func vsPartialVdrKill(self *Fork) (*VDRKillReport, bool) { return nil, false }

//verif:stub (*github.com/martian-lang/martian/martian/core.Fork).cacheParamFileMap
func vsCacheParamFileMap(self *Fork, outs LazyArgumentMap) {}

//verif:stub (*github.com/martian-lang/martian/martian/core.Fork).removeEmptyFileArgs
func vsRemoveEmptyFileArgs(self *Fork, outs LazyArgumentMap) {}

//verif:stub (*github.com/martian-lang/martian/martian/core.Fork).verifyOutput
func vsVerifyOutput(self *Fork, outs LazyArgumentMap) (bool, string) {
	if vsOutsOK {
		if vsOutsMsg {
			return true, "alarm"
		}
		return true, ""
	}
	return false, "invalid outs"
}

//verif:stub (*github.com/martian-lang/martian/martian/core.Fork).getAlarms
func vsGetAlarms(self *Fork, alarms *strings.Builder) {}

//verif:stub (*github.com/martian-lang/martian/martian/core.Chunk).verifyDef
func vsVerifyDef(self *Chunk) {}

//verif:stub (*github.com/martian-lang/martian/martian/core.Chunk).verifyOutput
func vsChunkVerifyOutput(self *Chunk, output LazyArgumentMap) bool {
	// contract of the real function: false is returned only after _errors was written
	if self.index < len(vsChunkBad) && vsChunkBad[self.index] {
		self.metadata.WriteErrorString("invalid chunk outs")
		return false
	}
	return true
}

//verif:stub (*github.com/martian-lang/martian/martian/core.Node).getJobReqs
func vsGetJobReqs(self *Node, jobDef *JobResources, stageType string) JobResources {
	return JobResources{Threads: 1, MemGB: 1}
}

//verif:stub (*github.com/martian-lang/martian/martian/core.Node).getProfileMode
func vsGetProfileMode(self *Node, stageType string) ProfileMode { return DisableProfile }

//verif:stub (*github.com/martian-lang/martian/martian/core.Runtime).ProfileConfig
func vsProfileConfig(self *Runtime, mode ProfileMode) *ProfileConfig { return nil }

//verif:stub (*github.com/martian-lang/martian/martian/core.Runtime).FreeMemBytes
func vsFreeMemBytes(self *Runtime) int64 { return 1 << 30 }

//verif:stub (*github.com/martian-lang/martian/martian/core.Node).expandForks
func vsExpandForks(self *Node, must bool) bool { return false }

//verif:stub (*github.com/martian-lang/martian/martian/core.Node).cachePerf
func vsCachePerf(self *Node, ctx context.Context) {}

//verif:stub (*github.com/martian-lang/martian/martian/core.Node).mkdirs
func vsNodeMkdirs(self *Node) error { return nil }

//verif:stub runtime/trace.NewTask
func vsNewTask(pctx context.Context, taskType string) (context.Context, *trace.Task) {
	return pctx, nil
}

//verif:stub (*runtime/trace.Task).End
func vsTaskEnd(t *trace.Task) {}

// ---- stubs used by the restart / lock harnesses (C05, C15)

var (
	vsRemovedAll []string
	vsRemovedOne []string
	vsPidZero    bool
	vsPidDead    bool
	vsJobInfoErr bool
	vsGlob       []string
	vsSigReg     int
)

//verif:stub os.RemoveAll
func vsRemoveAll(p string) error {
	vsRemovedAll = append(vsRemovedAll, p)
	if vsDiskMode {
		for d := range vsDisk {
			if d == p || (len(d) > len(p) && d[:len(p)] == p && d[len(p)] == '/') {
				delete(vsDisk, d)
			}
		}
	}
	return nil
}

//verif:stub os.Remove
func vsRemove(p string) error {
	vsRemovedOne = append(vsRemovedOne, p)
	return nil
}

//verif:stub github.com/martian-lang/martian/martian/util.Readdirnames
func vsReaddirnames(p string) ([]string, error) { return vsJournalFiles, nil }

//verif:stub os.FindProcess
func vsFindProcess(pid int) (*os.Process, error) { return &os.Process{}, nil }

//verif:stub (*os.Process).Signal
func vsProcSignal(p *os.Process, sig os.Signal) error {
	if vsPidDead {
		return errors.New("no such process")
	}
	return nil
}

//verif:stub (*github.com/martian-lang/martian/martian/core.Metadata).glob
func vsMetaGlob(self *Metadata) ([]string, error) {
	if vsDiskMode {
		var paths []string
		for name := range vsDisk[self.path] {
			paths = append(paths, self.path+"/_"+string(name))
		}
		return paths, nil
	}
	if vsGlobFromCache {
		// the cache mirrors the directory in this harness
		var paths []string
		for name := range self.contents {
			paths = append(paths, self.path+"/_"+string(name))
		}
		return paths, nil
	}
	return vsGlob, nil
}

var vsGlobFromCache bool

//verif:stub github.com/martian-lang/martian/martian/util.RegisterSignalHandler
func vsRegisterSignalHandler(h util.HandlerObject) { vsSigReg++ }

// ---- fake job manager

type vsJobManager struct{}

func (vsJobManager) execJob(shellCmd string, args []string, env map[string]string, md *Metadata,
	res *JobResources, fqname, shellName string, preflight bool) {
	vsExec = append(vsExec, md)
}
func (vsJobManager) endJob(md *Metadata)                                             { vsEnded = append(vsEnded, md) }
func (vsJobManager) checkQueue(ids []string, ctx context.Context) ([]string, string) { return ids, "" }
func (vsJobManager) hasQueueCheck() bool                                             { return false }
func (vsJobManager) queueCheckGrace() time.Duration                                  { return 0 }
func (vsJobManager) refreshResources(localMode bool) error                           { return nil }
func (vsJobManager) GetSystemReqs(r *JobResources) JobResources                      { return *r }
func (vsJobManager) GetMaxCores() int                                                { return 1 }
func (vsJobManager) GetMaxMemGB() int                                                { return 1 }
func (vsJobManager) GetSettings() *JobManagerSettings                                { return nil }
func (vsJobManager) resetMaxJobs()                                                   {}
func (vsJobManager) reattach(*Metadata)                                              {}

var _ = json.Marshal
var _ = util.Timestamp
var _ = syntax.KindStage

// ---- fixtures

var vsStateFiles = []MetadataFileName{Errors, Assert, CompleteFile, DisabledFile, LogFile, JobInfoFile}

// vsMeta gives a metadata object an arbitrary set of state-bearing sentinels.
func vsSymbolicContents(m *Metadata, tag string, extra ...MetadataFileName) {
	for _, f := range vsStateFiles {
		verifMapSetIf(m.contents, f, struct{}{}, verifBool(tag+"."+string(f)))
	}
	for _, f := range extra {
		verifMapSetIf(m.contents, f, struct{}{}, verifBool(tag+"."+string(f)))
	}
}

func vsHas(m *Metadata, f MetadataFileName) bool {
	_, ok := m.contents[f]
	return ok
}

// vsEmpty: none of the state-bearing sentinels is present.
func vsEmpty(m *Metadata) bool {
	r := true
	for _, f := range vsStateFiles {
		r = verifAll(r, !vsHas(m, f))
	}
	return r
}

func vsFailed(m *Metadata) bool   { return verifAny(vsHas(m, Errors), vsHas(m, Assert)) }
func vsComplete(m *Metadata) bool { return verifAll(!vsFailed(m), vsHas(m, CompleteFile)) }

type vsWorld struct {
	top   *TopNode
	node  *Node
	fork  *Fork
	split bool
	k     int
}

func vsRuntime() *Runtime {
	return &Runtime{
		Config:     &RuntimeOptions{JobMode: "sge", VdrMode: VdrDisable},
		JobManager: vsJobManager{},
		mrjob:      "/m/mrjob", adaptersPath: "/m/adapters",
	}
}

// vsStageNode builds the stage node ID.ps.P.<name> with one fork.
func vsStageNode(top *TopNode, name string, split bool) (*Node, *Fork) {
	stage := &syntax.Stage{Id: name, Split: split,
		InParams: &syntax.InParams{Table: map[string]*syntax.InParam{}}, OutParams: vsOutParams(),
		Src: &syntax.SrcParam{Lang: "comp", Type: syntax.CompiledStage, Path: "bin"}}
	if split {
		// the grammar gives every splitting stage (possibly empty) chunk parameter sets
		stage.ChunkIns = &syntax.InParams{Table: map[string]*syntax.InParam{}}
		stage.ChunkOuts = &syntax.OutParams{Table: map[string]*syntax.OutParam{}}
	}
	call := &syntax.CallStm{Id: name, DecId: name, Modifiers: &syntax.Modifiers{}}
	node := &Node{
		top:       top,
		call:      syntax.VerifStageNodeFull(top.fqname+".P."+name, call, stage),
		path:      "/ps/P/" + name,
		stagecode: stage.Src,
		prenodes:  map[string]Nodable{}, postnodes: map[string]Nodable{},
		frontierNodes: top.node.frontierNodes,
		resolvedCmd:   "/code/bin",
	}
	node.metadata = NewMetadata(node.call.GetFqid(), node.path)
	f := &Fork{node: node, id: "fork0", index: 0, path: node.path + "/fork0"}
	f.fqname = node.call.GetFqid() + ".fork0"
	f.metadata = NewMetadata(f.fqname, f.path)
	f.split_metadata = NewMetadata(f.fqname+".split", f.path+"/split")
	f.split_metadata.journalPath = "/ps/journal/P." + name + ".fork0"
	f.join_metadata = NewMetadata(f.fqname+".join", f.path+"/join")
	f.join_metadata.journalPath = f.split_metadata.journalPath
	if !split {
		f.stageDefs = &StageDefs{ChunkDefs: []*ChunkDef{{}}}
	} else {
		f.stageDefs = &StageDefs{}
	}
	node.forks = []*Fork{f}
	top.allNodes[node.call.GetFqid()] = node
	return node, f
}

func vsOutParams() *syntax.OutParams {
	op := &syntax.OutParam{StructMember: syntax.StructMember{Id: "o", Tname: syntax.TypeId{Tname: syntax.KindInt}}}
	return &syntax.OutParams{List: []*syntax.OutParam{op}, Table: map[string]*syntax.OutParam{"o": op}}
}

func vsTop() *TopNode {
	top := &TopNode{fqname: "ID.ps", rt: vsRuntime(), journalPath: "/ps/journal", envs: map[string]string{}, allNodes: map[string]*Node{}}
	top.node.frontierNodes = &threadSafeNodeMap{nodes: map[string]Nodable{}}
	top.node.top = top
	return top
}

// vsWorldOne: one stage fork with k existing chunks and arbitrary sentinel
// files everywhere, subject to the phase invariant (what only the runtime and
// the jobs it submitted can have produced, in that order).
func vsWorldOne(split bool, k int) *vsWorld {
	disableUniquification = false
	top := vsTop()
	node, f := vsStageNode(top, "S", split)
	w := &vsWorld{top: top, node: node, fork: f, split: split, k: k}
	vsChunkMetas = nil
	vsSymbolicContents(f.metadata, "M")
	vsSymbolicContents(f.split_metadata, "S", StageDefsFile)
	vsSymbolicContents(f.join_metadata, "J")
	for i := 0; i < k; i++ {
		c := &Chunk{fork: f, index: i, chunkDef: &ChunkDef{}}
		c.fqname = f.fqname + ".chnk" + string(rune('0'+i))
		c.metadata = newMetadataWithJournalPath(c.fqname, "P.S.fork0.chnk"+string(rune('0'+i)), f.path+"/chnk"+string(rune('0'+i)), top.journalPath)
		vsSymbolicContents(c.metadata, "C"+string(rune('0'+i)))
		c.hasBeenRun = verifBool("C" + string(rune('0'+i)) + ".hasBeenRun")
		f.chunks = append(f.chunks, c)
		vsChunkMetas = append(vsChunkMetas, c.metadata)
		vsChunkBad[i] = verifBool("C" + string(rune('0'+i)) + ".outs.invalid")
		vsChunkNoOut[i] = verifBool("C" + string(rune('0'+i)) + ".outs.unreadable")
	}
	f.split_has_run = verifBool("split_has_run")
	f.join_has_run = verifBool("join_has_run")
	// what _stage_defs holds (read when the chunks are created)
	n := verifInt("stage_defs.chunks")
	if split {
		verifAssume(verifAll(n >= 0, n <= 2))
	} else {
		verifAssume(n == 1)
	}
	vsChunks = verifConcretize(n)
	if k > 0 {
		verifAssume(vsChunks == k) // existing chunks came from this _stage_defs
		for i := 0; i < vsChunks; i++ {
			f.stageDefs.ChunkDefs = append(f.stageDefs.ChunkDefs[:i:i], &ChunkDef{})
		}
	}
	vsDefsErr = verifBool("stage_defs.unreadable")
	vsDisabled = verifBool("disabled")
	vsResolveErr = verifBool("resolve.error")
	vsOutsOK = verifBool("outs.valid")
	vsOutsMsg = verifBool("outs.alarm")
	vsReadErr = verifBool("outs.unreadable")
	vsChunkOutOK = verifBool("chunk_outs.valid")
	w.phaseInv()
	return w
}

// phaseInv assumes the representation invariant on the pre-state.
func (w *vsWorld) phaseInv() {
	f := w.fork
	S, J, M := f.split_metadata, f.join_metadata, f.metadata
	// 1. chunks exist / have sentinels only after the split completed with _stage_defs
	for _, c := range f.chunks {
		verifAssume(verifImplies(!vsEmpty(c.metadata), verifAll(vsComplete(S), vsHas(S, StageDefsFile))))
		verifAssume(verifImplies(c.hasBeenRun, !vsEmpty(c.metadata)))
		// job sentinels are prefix closed
		verifAssume(verifImplies(vsHas(c.metadata, LogFile), vsHas(c.metadata, JobInfoFile)))
		verifAssume(!vsHas(c.metadata, DisabledFile))
	}
	if w.k > 0 {
		verifAssume(verifAll(vsComplete(S), vsHas(S, StageDefsFile)))
	}
	// 2. the join has sentinels only after every chunk completed
	allChunks := vsComplete(S)
	for _, c := range f.chunks {
		allChunks = verifAll(allChunks, vsComplete(c.metadata))
	}
	if w.k == 0 && w.split {
		// chunks not created yet in memory: the join can only have run if _stage_defs had none
		verifAssume(verifImplies(!vsEmpty(J), verifAll(allChunks, vsChunks == 0)))
	} else if w.k == 0 {
		verifAssume(vsEmpty(J)) // non-split stages always have their one chunk
	} else {
		verifAssume(verifImplies(!vsEmpty(J), allChunks))
	}
	// 3. the fork is complete only after the join; disabled forks ran nothing
	verifAssume(verifImplies(vsHas(M, CompleteFile), vsComplete(J)))
	verifAssume(verifImplies(vsHas(M, DisabledFile), verifAll(vsEmpty(S), vsEmpty(J), w.k == 0)))
	verifAssume(verifAll(!vsHas(M, LogFile), !vsHas(M, JobInfoFile)))
	verifAssume(verifAll(!vsHas(S, DisabledFile), !vsHas(J, DisabledFile)))
	// 4. prefix closure for split / join jobs
	verifAssume(verifImplies(vsHas(S, LogFile), vsHas(S, JobInfoFile)))
	verifAssume(verifImplies(vsHas(J, LogFile), vsHas(J, JobInfoFile)))
	verifAssume(verifImplies(vsHas(S, StageDefsFile), verifAny(vsHas(S, JobInfoFile), !w.split)))
	// 5. in-memory flags imply their effect
	verifAssume(verifImplies(f.split_has_run, !vsEmpty(S)))
	verifAssume(verifImplies(f.join_has_run, !vsEmpty(J)))
}

func vsExecCount(m *Metadata) int {
	n := 0
	for _, e := range vsExec {
		if e == m {
			n++
		}
	}
	return n
}

// H_SCHED_forkStep: one Fork.step() of a (splitting or not) stage fork with k
// chunks from any state satisfying the phase invariant.
//
//	C02: a chunk job is submitted only after the split completed, the join job
//	     only after every chunk completed;
//	C03: a job is submitted only from the empty (ready) state of its own
//	     metadata, at most once, and then carries _jobinfo; a disabled fork
//	     submits nothing and is marked disabled; exactly the chunks listed by
//	     _stage_defs are created;
//	C06: _errors/_assert mean failed whatever else is present; a failed job
//	     makes the fork failed; invalid or unreadable outputs produce _errors
//	     and never _complete.
func H_SCHED_forkStep(splitI int, k int) {
	w := vsWorldOne(splitI != 0, k)
	f := w.fork
	S, J, M := f.split_metadata, f.join_metadata, f.metadata
	// pre-state snapshot
	preS, preJ := vsComplete(S), vsEmpty(J)
	preSEmpty := vsEmpty(S)
	preM := vsEmpty(M)
	preFinal := verifAny(vsFailed(M), vsHas(M, CompleteFile), vsHas(M, DisabledFile))
	var preCEmpty, preCComplete []bool
	anyFailed := verifAny(vsFailed(S), vsFailed(J))
	for _, c := range f.chunks {
		preCEmpty = append(preCEmpty, vsEmpty(c.metadata))
		preCComplete = append(preCComplete, vsComplete(c.metadata))
		anyFailed = verifAny(anyFailed, vsFailed(c.metadata))
	}
	st0 := f.getState()
	// C06: precedence of failure
	if vsFailed(M) {
		verifAssert(st0 == Failed, "C06: _errors/_assert on the fork mean failed whatever else is present")
	}
	if !preFinal && anyFailed {
		verifCover("a job failed")
		verifAssert(st0 == Failed, "C06: a failed split/chunk/join job makes an unfinished fork failed")
	}
	kBefore := len(f.chunks)

	f.step()

	verifCover("fork stepped")
	// ---- C03: each metadata at most once, only from empty, then has jobinfo
	all := []*Metadata{S, J}
	for _, c := range f.chunks {
		all = append(all, c.metadata)
	}
	for _, m := range all {
		verifAssert(vsExecCount(m) <= 1, "C03: no job is submitted twice in one step")
	}
	verifAssert(vsExecCount(M) == 0, "C03: the fork's own metadata is never a job")
	if vsExecCount(S) == 1 {
		verifCover("split submitted")
		verifAssert(preSEmpty, "C03: the split job is submitted only from the ready state")
		verifAssert(w.split, "C03: only splitting stages run a split job")
		verifAssert(vsHas(S, JobInfoFile), "C03: a submitted split job has _jobinfo (so it is not ready again)")
		verifAssert(preM, "C02/C03: the split job is submitted only for a fork that is not final")
	}
	for i, c := range f.chunks {
		if vsExecCount(c.metadata) == 1 {
			verifCover("chunk submitted")
			if i < kBefore {
				verifAssert(preCEmpty[i], "C03: a chunk job is submitted only from the ready state")
			}
			verifAssert(vsHas(c.metadata, JobInfoFile), "C03: a submitted chunk job has _jobinfo")
			// C02: split finished first (a non-splitting stage writes its own split stub in the same step)
			verifAssert(verifAny(preS, !w.split), "C02: a chunk job starts only after the split job completed")
			verifAssert(!vsFailed(S), "C02: no chunk job starts after a failed split")
		}
	}
	if vsExecCount(J) == 1 {
		verifCover("join submitted")
		verifAssert(preJ, "C03: the join job is submitted only from the ready state")
		verifAssert(vsHas(J, JobInfoFile), "C03: a submitted join job has _jobinfo")
		verifAssert(w.split, "C03: only splitting stages run a join job")
		for i := range f.chunks {
			if i < kBefore {
				verifAssert(preCComplete[i], "C02: the join job starts only after every chunk job completed")
			}
		}
		verifAssert(kBefore == len(f.chunks), "C02: the join job does not start in the step that creates the chunks")
		verifAssert(preS, "C02: the join job starts only after the split job completed")
	}
	// ---- C03: chunk creation
	if kBefore == 0 && len(f.chunks) > 0 {
		verifCover("chunks created")
		verifAssert(len(f.chunks) == vsChunks, "C03: exactly the chunks _stage_defs lists are created")
		verifAssert(verifAny(preS, !w.split), "C02: chunks are created only after the split completed")
	}
	// ---- C03: disabled forks
	if st0 == Ready && vsDisabled {
		verifCover("disabled fork")
		verifAssert(len(vsExec) == 0, "C03: a disabled fork submits no job")
		verifAssert(vsHas(M, DisabledFile), "C03: a disabled fork is marked disabled")
		verifAssert(f.getState() == DisabledState, "C03: a disabled fork reports the disabled state")
	}
	if st0 == DisabledState || st0 == Complete || st0 == Failed {
		verifAssert(len(vsExec) == 0, "C03/C06: a finished, disabled or failed fork submits nothing")
	}
	// ---- C06: outputs
	if st0 == Complete.Prefixed(JoinPrefix) {
		verifCover("completing")
		if vsReadErr || !vsOutsOK {
			verifAssert(!vsHas(M, CompleteFile), "C06: unreadable or invalid outputs never complete the fork")
			verifAssert(verifAny(vsHas(M, Errors), vsHas(J, Errors)), "C06: unreadable or invalid outputs are recorded as an error")
		} else {
			verifAssert(vsHas(M, CompleteFile), "a fork with valid outputs completes")
		}
	}
	if vsHas(M, CompleteFile) {
		verifAssert(vsComplete(J), "C02: the fork completes only after its join")
	}
	// ---- C01: the join receives the chunk outputs complete and in chunk order
	if vsExecCount(J) == 1 && kBefore > 0 {
		verifCover("join received chunk outs")
		verifAssert(vsChunkOutsSeen && len(vsChunkOutsWritten) == kBefore, "C01: the join receives one output record per chunk")
		if len(vsChunkOutsWritten) == kBefore {
			for i := 0; i < kBefore; i++ {
				verifAssert(string(vsChunkOutsWritten[i]["chunk"]) == string([]byte{'0' + byte(i)}), "C01: the join receives the chunk outputs in chunk order")
			}
		}
	}
	// ---- C06: every chunk's outputs are checked before the join starts
	if st0 == Complete.Prefixed(ChunksPrefix) && w.split && kBefore > 0 {
		bad := false
		for i := 0; i < kBefore; i++ {
			bad = bad || vsChunkBad[i] || vsChunkNoOut[i]
		}
		if bad {
			verifCover("a chunk produced bad outputs")
			verifAssert(vsExecCount(J) == 0, "C06: the join does not start when any chunk's outputs are missing or invalid")
			verifAssert(f.getState() == Failed, "C06: missing or invalid chunk outputs fail the fork")
		}
	}
}

//verif:stub runtime/trace.StartRegion
func vsStartRegion(ctx context.Context, regionType string) *trace.Region { return nil }

//verif:stub (*runtime/trace.Region).End
func vsRegionEnd(r *trace.Region) {}

// ---- node level (G4): pipeline P { preflight PRE; stage A; pipeline Q { pipeline R { stage B(A.o) } }; stage C }
// (B sits two pipeline levels below the preflight: "any enclosing pipeline")

type vsGraph struct {
	top          *TopNode
	p, q, r      *Node
	pre, a, b, c *Node
	ps           *Pipestance
}

func vsPipelineNode(top *TopNode, parent *Node, fqid, id string) *Node {
	call := &syntax.CallStm{Id: id, DecId: id, Modifiers: &syntax.Modifiers{}}
	n := &Node{top: top, call: syntax.VerifPipelineNode(fqid, call, &syntax.Pipeline{Id: id}, nil),
		path: "/ps/" + id, subnodes: map[string]Nodable{}, prenodes: map[string]Nodable{}, postnodes: map[string]Nodable{},
		frontierNodes: top.node.frontierNodes}
	n.metadata = NewMetadata(fqid, n.path)
	// a pipeline node has one fork whose state is that of its own metadata
	f := &Fork{node: n, id: "fork0", path: n.path + "/fork0", fqname: fqid + ".fork0"}
	f.metadata = NewMetadata(f.fqname, f.path)
	f.split_metadata = NewMetadata(f.fqname+".split", f.path+"/split")
	f.join_metadata = NewMetadata(f.fqname+".join", f.path+"/join")
	n.forks = []*Fork{f}
	top.allNodes[fqid] = n
	return n
}

// vsForkBits gives a stage fork an arbitrary coarse state: failed, complete,
// disabled, split job queued, or nothing yet.
func vsForkBits(f *Fork, tag string) {
	verifMapSetIf(f.metadata.contents, Errors, struct{}{}, verifBool(tag+".errors"))
	verifMapSetIf(f.metadata.contents, CompleteFile, struct{}{}, verifBool(tag+".complete"))
	verifMapSetIf(f.metadata.contents, DisabledFile, struct{}{}, verifBool(tag+".disabled"))
	verifMapSetIf(f.split_metadata.contents, JobInfoFile, struct{}{}, verifBool(tag+".split.jobinfo"))
	verifMapSetIf(f.split_metadata.contents, Errors, struct{}{}, verifBool(tag+".split.errors"))
}

func vsMakeGraph() *vsGraph {
	disableUniquification = false
	g := &vsGraph{top: vsTop()}
	top := g.top
	g.p = vsPipelineNode(top, nil, "ID.ps.P", "P")
	g.pre, _ = vsStageNode(top, "PRE", false)
	g.pre.call.Call().Modifiers.Preflight = true
	g.a, _ = vsStageNode(top, "A", true)
	g.c, _ = vsStageNode(top, "C", true)
	g.q = vsPipelineNode(top, g.p, "ID.ps.P.Q", "Q")
	g.b, _ = vsStageNode(top, "B", true)
	g.p.subnodes["PRE"], g.p.subnodes["A"], g.p.subnodes["C"], g.p.subnodes["Q"] = g.pre, g.a, g.c, g.q
	g.r = vsPipelineNode(top, g.q, "ID.ps.P.Q.R", "R")
	g.q.subnodes["R"] = g.r
	g.r.subnodes["B"] = g.b
	g.r.parent = g.q
	for _, n := range []*Node{g.pre, g.a, g.c, g.q} {
		n.parent = g.p
	}
	g.b.parent = g.r
	// data dependency B <- A (what makePrenodes derives from the binding B(x = A.o))
	g.b.setPrenode(g.a)
	// the preflight wiring loop of NewPipestance, on the hand-built sub-node map
	for _, sub := range g.p.subnodes {
		if !sub.getNode().call.Call().Modifiers.Preflight {
			sub.getNode().setPrenode(g.pre)
		}
	}
	g.ps = &Pipestance{node: g.p}
	for _, n := range []*Node{g.pre, g.a, g.b, g.c} {
		vsForkBits(n.forks[0], n.call.Call().Id)
	}
	vsDisabled, vsResolveErr, vsDefsErr, vsReadErr = false, false, false, false
	vsOutsOK, vsChunkOutOK = true, true
	vsChunks = 1
	return g
}

func vsDone(n *Node) bool {
	s := n.getState()
	return s == Complete || s == DisabledState
}

func vsExecFor(n *Node) int {
	c := 0
	for _, m := range vsExec {
		for _, mm := range n.collectMetadatas() {
			if m == mm {
				c++
			}
		}
	}
	return c
}

// H_SCHED_nodeStep: Node.step of the consumer B (inside a sub-pipeline), the
// independent stage C and the producer A, from arbitrary states of all forks.
//
//	C02: a node whose data producer or whose (enclosing pipeline's) preflight is
//	     not finished reports waiting and submits nothing; jobs are submitted
//	     only from the running state, which step() only enters when every
//	     prenode is complete or disabled.
//	C06: a failed producer is failed, stays on the frontier and makes the
//	     pipestance failed (never complete); its consumer waits; an independent
//	     stage is unaffected.
func H_SCHED_nodeStep(which int) {
	g := vsMakeGraph()
	target := []*Node{g.b, g.c, g.a}[which]
	// the cached node state is what the previous step computed
	wasRunning := verifBool("target.wasRunning")
	if wasRunning {
		target.state = Running
		// NodeInv: step() only sets running when every prenode was done, and
		// finished prenodes stay finished
		for _, pn := range target.prenodes {
			verifAssume(vsDone(pn.getNode()))
		}
	}
	verifAssert(len(g.b.prenodes) == 2, "C02: the consumer inside the sub-pipeline depends on its producer and on the enclosing pipeline's preflight")
	preDone, aDone := vsDone(g.pre), vsDone(g.a)
	aFailed := g.a.getState() == Failed
	st := target.getState()
	own := target.forks[0].getState()
	ownFinal := own == Complete || own == DisabledState || own == Failed
	if which == 0 && !ownFinal {
		if !(preDone && aDone) {
			verifCover("consumer waits")
			verifAssert(st == Waiting, "C02: a consumer waits until its producer and every enclosing preflight finished")
		} else {
			verifAssert(st == Running, "a consumer whose prenodes are done is running")
		}
	}
	if which == 1 && !ownFinal {
		verifAssert((st == Running) == preDone, "C02/C06: an independent stage depends only on the preflight, not on the failed sibling")
	}
	target.step()
	verifCover("node stepped")
	if vsExecFor(target) > 0 {
		verifCover("node submitted a job")
		verifAssert(wasRunning, "C02: jobs are submitted only by a node that was running")
		for _, pn := range target.prenodes {
			verifAssert(vsDone(pn.getNode()), "C02: no job of a call starts before everything it depends on finished")
		}
	}
	for _, other := range []*Node{g.pre, g.a, g.b, g.c} {
		if other != target {
			verifAssert(vsExecFor(other) == 0, "stepping one node submits no job of another")
		}
	}
	if target.state == Running {
		for _, pn := range target.prenodes {
			verifAssert(vsDone(pn.getNode()), "C02: step() enters the running state only when every prenode is complete or disabled")
		}
	}
	if which == 2 && aFailed {
		verifCover("producer failed")
		verifAssert(g.a.state == Failed, "C06: a node with a failed fork is failed")
		_, onFrontier := g.top.node.frontierNodes.nodes[g.a.GetFQName()]
		verifAssert(onFrontier, "C06: a failed node stays on the frontier")
		verifAssert(g.ps.GetState(context.Background()) == Failed, "C06: the pipestance is failed, never complete, while a node is failed")
		verifAssert(g.b.getState() == Waiting || g.b.forks[0].getState() == Complete || g.b.forks[0].getState() == DisabledState || g.b.forks[0].getState() == Failed,
			"C06: the consumer of a failed node waits")
	}
}

// vsEnvAdvance lets a submitted job make progress between two steps: it may
// have written _log, and then _complete or _errors — in that order (the order
// a job writes its files and the journal delivers them).
func vsEnvAdvance(m *Metadata, tag string) {
	if verifBool(tag + ".started") {
		m.contents[LogFile] = struct{}{}
		if verifBool(tag + ".finished") {
			if verifBool(tag + ".failed") {
				m.contents[Errors] = struct{}{}
			} else {
				m.contents[CompleteFile] = struct{}{}
			}
		}
	}
}

// H_SCHED_twoSteps: two consecutive Fork.step() calls with arbitrary job
// progress in between and, optionally, an mrp restart (all in-memory
// "has run" flags lost, sentinel files kept).
//
//	C03/C05: no job is submitted twice; a job whose metadata shows it queued,
//	running or complete is not resubmitted after a restart.
func H_SCHED_twoSteps(splitI int, k int, restart int) {
	w := vsWorldOne(splitI != 0, k)
	f := w.fork
	f.step()
	first := append([]*Metadata(nil), vsExec...)
	// the split job, if it ran to completion, wrote _stage_defs before _complete
	for i, m := range first {
		vsEnvAdvance(m, "job"+string(rune('0'+i)))
		if m == f.split_metadata && vsHas(m, CompleteFile) {
			m.contents[StageDefsFile] = struct{}{}
		}
	}
	if restart != 0 {
		f.split_has_run, f.join_has_run = false, false
		for _, c := range f.chunks {
			c.hasBeenRun = false
		}
	}
	all := []*Metadata{f.split_metadata, f.join_metadata}
	for _, c := range f.chunks {
		all = append(all, c.metadata)
	}
	var emptyBefore []bool
	for _, m := range all {
		emptyBefore = append(emptyBefore, vsEmpty(m))
	}
	nFirst := len(vsExec)
	f.step()
	verifCover("two steps")
	for i, m := range all {
		verifAssert(vsExecCount(m) <= 1, "C03: no job is submitted twice across steps, with or without a restart in between")
		second := 0
		for _, e := range vsExec[nFirst:] {
			if e == m {
				second++
			}
		}
		if second > 0 {
			verifCover("second step submitted")
			verifAssert(emptyBefore[i], "C05: only a job with no recorded progress is submitted after a restart")
		}
	}
	for _, c := range f.chunks {
		verifAssert(vsExecCount(c.metadata) <= 1, "C03: no chunk job is submitted twice across steps")
	}
}

// H_SCHED_makePrenodes: Node.makePrenodes on a stage call with an optional
// data input bound to A.o, an optional second input bound to a constant, and
// an optional disabling condition bound to D.flag (each presence arbitrary):
// exactly the producers of its inputs and of its disabling condition become
// prenodes, and each learns about its new post-node.
func H_SCHED_makePrenodes() {
	top := vsTop()
	top.types = syntax.NewTypeLookup()
	a, _ := vsStageNode(top, "A", false)
	d, _ := vsStageNode(top, "D", false)
	b, _ := vsStageNode(top, "B", false)
	intT := top.types.Get(syntax.TypeId{Tname: syntax.KindInt})
	boolT := top.types.Get(syntax.TypeId{Tname: syntax.KindBool})
	cg := b.call.(*syntax.CallGraphStage)
	cg.Inputs = syntax.ResolvedBindingMap{}
	hasData, hasConst, hasDisable := verifBool("input.fromA"), verifBool("input.constant"), verifBool("disabled.fromD")
	if hasData {
		cg.Inputs["x"] = &syntax.ResolvedBinding{Exp: &syntax.RefExp{Kind: syntax.KindCall, Id: a.call.GetFqid(), OutputId: "o"}, Type: intT}
	}
	if hasConst {
		cg.Inputs["y"] = &syntax.ResolvedBinding{Exp: &syntax.IntExp{Value: 3}, Type: intT}
	}
	if hasDisable {
		cg.Disable = []syntax.Exp{&syntax.RefExp{Kind: syntax.KindCall, Id: d.call.GetFqid(), OutputId: "flag"}}
	}
	_ = boolT
	b.makePrenodes()
	verifCover("prenodes made")
	_, onA := b.prenodes[a.GetFQName()]
	_, onD := b.prenodes[d.GetFQName()]
	verifAssert(onA == hasData, "C02: the producer of an input is a prenode exactly when the call consumes it")
	verifAssert(onD == hasDisable, "C02: the producer of the disabling condition is a prenode")
	verifAssert(len(b.prenodes) == verifIteInt(hasData, 1, 0)+verifIteInt(hasDisable, 1, 0), "C02: nothing else becomes a prenode")
	if hasDisable {
		_, post := d.postnodes[b.call.GetFqid()]
		verifAssert(post, "C02: the disabling producer will wake this call when it finishes")
	}
}

type vsGoStringer string

func (s vsGoStringer) GoString() string { return string(s) }

// H_SCHED_expandFork: dynamic fork expansion.  A node has nforks forks whose
// ids share one placeholder part for an inner dimension whose size is only
// known at run time (this is how NewNode / cloneFork build them); fork `idx`
// learns that its collection has n elements (array mode) or the given keys
// (map mode) and expands.
//
//	C03/C01: the fork gets exactly one id per element / key (itself for the
//	first, new ids for the others), and resolving its own inner index never
//	changes the id of a sibling fork that still shares the placeholder.
func H_SCHED_expandFork(nforks int, mapMode int) {
	disableUniquification = false
	top := vsTop()
	node, f0 := vsStageNode(top, "W", false)
	var src syntax.MapCallSource
	outerSrc := &syntax.ArrayExp{Value: make([]syntax.Exp, nforks)}
	outerCall := &syntax.CallStm{Id: "OUTER", DecId: "OUTER", Mapping: outerSrc}
	outerSplit := &syntax.SplitExp{Call: outerCall, Source: outerSrc, Value: outerSrc}
	innerCall := &syntax.CallStm{Id: "W", DecId: "W"}
	ref := &syntax.RefExp{Kind: syntax.KindCall, Id: "ID.ps.P.SRC", OutputId: "xs"}
	if mapMode != 0 {
		src = syntax.VerifUnknownSource(syntax.ModeMapCall)
	} else {
		src = syntax.VerifUnknownSource(syntax.ModeArrayCall)
	}
	innerCall.Mapping = src
	innerSplit := &syntax.SplitExp{Call: innerCall, Source: src, Value: ref}
	shared := &ForkSourcePart{Split: innerSplit, Id: undeterminedFork{}}
	node.forks = nil
	for i := 0; i < nforks; i++ {
		f := f0
		if i > 0 {
			c := *f0
			f = &c
		}
		f.index = i
		f.forkId = ForkId{&ForkSourcePart{Split: outerSplit, Id: arrayIndexFork(i)}, shared}
		f.metadata = NewMetadata(f.fqname, f.path)
		node.forks = append(node.forks, f)
	}
	idx := verifInt("fork")
	verifAssume(verifAll(idx >= 0, idx < nforks))
	idx = verifConcretize(idx)
	n := verifInt("elements")
	verifAssume(verifAll(n >= 0, n <= 3))
	n = verifConcretize(n)
	var obj json.Marshaler
	if mapMode != 0 {
		m := MarshalerMap{}
		for j := 0; j < n; j++ {
			m["k"+string(rune('0'+j))] = nil
		}
		obj = m
	} else {
		obj = make(marshallerArray, n)
	}
	f := node.forks[idx]
	newIds, err := f.expandForkFromObj(1, f.forkId[1], innerSplit, obj, vsGoStringer("SRC.xs"), nil)
	verifCover("fork expanded")
	verifAssert(err == nil, "expanding over a well-formed collection does not fail")
	// siblings still wait for their own collection
	for j, g := range node.forks {
		if j != idx {
			verifAssert(g.forkId[1].Id.IndexSource() != nil, "C01/C03: resolving one fork's inner index leaves its siblings' ids undetermined")
			verifAssert(g.forkId[0].Id.ArrayIndex() == j, "C01/C03: siblings keep their outer index")
		}
	}
	verifAssert(f.forkId[0].Id.ArrayIndex() == idx, "C01/C03: the expanded fork keeps its outer index")
	if n == 0 {
		verifAssert(len(newIds) == 0 && f.forkId[1].Id.Mode() == syntax.ModeNullMapCall, "C01/C03: an empty collection yields one disabled fork")
	} else {
		verifAssert(len(newIds) == n-1, "C01/C03: exactly one fork per element or key")
		if mapMode == 0 {
			verifAssert(f.forkId[1].Id.ArrayIndex() == 0, "C01/C03: the fork itself takes element 0")
			for j, id := range newIds {
				verifAssert(id[1].Id.ArrayIndex() == j+1 && id[0].Id.ArrayIndex() == idx, "C01/C03: the new forks take the remaining elements, same outer index")
			}
		} else {
			verifAssert(f.forkId[1].Id.MapKey() == "k0", "C01/C03: the fork itself takes the first key")
			for j, id := range newIds {
				verifAssert(id[1].Id.MapKey() == "k"+string(rune('1'+j)) && id[0].Id.ArrayIndex() == idx, "C01/C03: the new forks take the remaining keys, same outer index")
			}
		}
	}
}

// H_C05_metadataRestart: the three restart decisions on one job's metadata
// with an arbitrary (crash-consistent) set of sentinel files.
//
//	C05: work whose completion is recorded is never reset; a job is reset
//	exactly when it failed (mrp reset), was queued but never started, or was
//	running under a process that no longer exists; after a reset nothing of
//	the old attempt remains in the cache.
func H_C05_metadataRestart(op int) {
	disableUniquification = false
	m := NewMetadata("ID.ps.P.S.fork0.chnk0", "/ps/P/S/fork0/chnk0")
	m.journalPath = "/ps/journal/P.S.fork0.chnk0"
	vsSymbolicContents(m, "X", QueuedLocally)
	// crash consistency: a job writes _jobinfo (via mrp), then _log, then its verdict;
	// _queued_locally is removed when the job is started, before it can write anything
	verifAssume(verifImplies(vsHas(m, LogFile), vsHas(m, JobInfoFile)))
	verifAssume(verifImplies(vsHas(m, QueuedLocally), verifAll(!vsHas(m, LogFile), !vsHas(m, CompleteFile))))
	verifAssume(!vsHas(m, DisabledFile))
	vsPidZero, vsPidDead, vsJobInfoErr = verifBool("pid.unrecorded"), verifBool("pid.dead"), verifBool("jobinfo.unreadable")
	// the attempt being judged may have run under a uniquified directory
	oldUniq := ""
	if verifBool("attempt.uniquified") {
		oldUniq = "0123456789"
	}
	m.uniquifier = oldUniq
	st, known := m.getState()
	queuedLocally := vsHas(m, QueuedLocally)
	var err error
	switch op {
	case 0:
		err = m.checkedReset()
	case 1:
		err = m.restartLocal()
	default:
		err = m.restartQueuedLocal()
	}
	verifCover("restart decision taken")
	verifAssert(err == nil, "a reset that meets no file-system error succeeds")
	reset := false
	for _, p := range vsRemovedAll {
		if p == m.path {
			reset = true
		}
	}
	if reset {
		verifCover("job reset")
		verifAssert(st != Complete && st != DisabledState, "C05: a job whose completion is recorded is never reset")
		verifAssert(len(m.contents) == 0, "C05: after a reset nothing of the old attempt remains cached")
		if oldUniq != "" {
			verifCover("uniquified attempt reset")
			verifAssert(m.uniquifier != oldUniq, "C02/C05/C11: the attempt that replaces a reset one gets a new uniquifier, so late notifications of the abandoned attempt are not taken for its own")
		}
	} else {
		verifAssert(vsHas(m, CompleteFile) == (st == Complete) || st == Failed, "C05: a job that is not reset keeps its recorded state")
	}
	switch op {
	case 0:
		verifAssert(reset == (st == Failed), "C05: mrp reset clears exactly the failed jobs")
	case 1:
		want := known && (st == Queued || (st == Running && !vsJobInfoErr && !vsPidZero && vsPidDead))
		verifAssert(reset == want, "C05: a local restart clears exactly queued jobs and running jobs whose process is gone")
	default:
		verifAssert(reset == queuedLocally, "C05: exactly the jobs still marked queued-locally are requeued")
	}
}

// H_C05_lock: Pipestance.Lock refuses a locked pipestance and changes nothing;
// otherwise it writes the lock and registers for signals; a handled
// termination signal removes the lock.  (Also the last clause of C15.)
func H_C05_lock() {
	disableUniquification = false
	top := vsTop()
	p := vsPipelineNode(top, nil, "ID.ps.P", "P")
	p.parent = top
	ps := &Pipestance{node: p, metadata: NewMetadata("ID.ps", "/ps")}
	locked := verifBool("lock.exists")
	other := verifBool("other.file")
	vsGlob = nil
	if locked {
		vsGlob = append(vsGlob, "/ps/_lock")
	}
	if other {
		vsGlob = append(vsGlob, "/ps/_timestamp")
	}
	err := ps.Lock()
	verifCover("lock attempted")
	if locked {
		verifCover("lock refused")
		verifAssert(err != nil, "C05/C15: a second mrp cannot lock a pipestance that is locked")
		verifAssert(len(vsWrites) == 0 && vsSigReg == 0, "C05/C15: a refused lock writes nothing and registers nothing")
	} else {
		verifAssert(err == nil, "an unlocked pipestance can be locked")
		wrote := false
		for _, w := range vsWrites {
			if w == "/ps/_lock" {
				wrote = true
			}
		}
		verifAssert(wrote && vsSigReg == 1, "C05: taking the lock writes _lock and registers the signal handler")
		verifAssert(ps.metadata.exists(Lock), "the lock is cached")
		ps.HandleSignal(nil)
		removed := false
		for _, r := range vsRemovedOne {
			if r == "/ps/_lock" {
				removed = true
			}
		}
		verifAssert(removed && !ps.metadata.exists(Lock), "C05: a handled termination signal leaves the pipestance unlocked")
	}
}

// H_C11_refreshState: the whole journal scan.  One notification file, written
// by the split job, the join job, chunk 0 or chunk 1 of fork "fork_<k>" of stage
// S (k one arbitrary byte) or by the look-alike fork "fork_<other>", for an
// arbitrary state-bearing file: after Node.refreshState exactly the metadata
// object of the writer has that file cached, and nothing else changed.
func H_C11_refreshState(writerKind int, lookalike int) {
	disableUniquification = false
	top := vsTop()
	top.rt.Config.VdrMode = VdrDisable
	root := vsPipelineNode(top, nil, "ID.ps.P", "P")
	node, f0 := vsStageNode(top, "S", true)
	root.subnodes["S"] = node
	k := verifString("k", 1)
	k2 := verifString("other", 1)
	verifAssume(k != k2)
	mkFork := func(key string, index int) *Fork {
		f := f0
		if index > 0 {
			c := *f0
			f = &c
		}
		f.index = index
		f.id = mapKeyFork(key).forkString()
		f.fqname = node.call.GetFqid() + "." + encodeJournalName.Replace(f.id)
		f.metadata = NewMetadata(f.fqname, f.path)
		f.split_metadata = NewMetadata(f.fqname+".split", f.path+"/split")
		f.join_metadata = NewMetadata(f.fqname+".join", f.path+"/join")
		f.chunks = nil
		for i := 0; i < 2; i++ {
			c := &Chunk{fork: f, index: i, chunkDef: &ChunkDef{}}
			c.fqname = f.fqname + ".chnk" + string(rune('0'+i))
			c.metadata = NewMetadata(c.fqname, f.path+"/chnk"+string(rune('0'+i)))
			f.chunks = append(f.chunks, c)
		}
		return f
	}
	fa, fb := mkFork(k, 0), mkFork(k2, 1)
	node.forks = []*Fork{fa, fb}
	writer := fa
	if lookalike != 0 {
		writer = fb
	}
	files := []MetadataFileName{CompleteFile, Errors, LogFile, Assert}
	fi := verifInt("file")
	verifAssume(verifAll(fi >= 0, fi < len(files)))
	fi = verifConcretize(fi)
	name := writer.fqname[len(top.fqname)+1:]
	var target *Metadata
	switch writerKind {
	case 0:
		name += ".split_" + string(files[fi])
		target = writer.split_metadata
	case 1:
		name += ".join_" + string(files[fi])
		target = writer.join_metadata
	case 2:
		name += ".chnk0." + string(files[fi])
		target = writer.chunks[0].metadata
	default:
		name += ".chnk1." + string(files[fi])
		target = writer.chunks[1].metadata
	}
	vsJournalFiles = []string{name}
	root.refreshState(true)
	verifCover("journal scanned")
	var all []*Metadata
	for _, f := range node.forks {
		all = append(all, f.collectMetadatas()...)
	}
	for _, m := range all {
		if m == target {
			verifAssert(m.exists(files[fi]) && len(m.contents) == 1, "C11: the notification reaches the metadata object of the job that wrote it")
		} else {
			verifAssert(len(m.contents) == 0, "C11: a notification changes no other job's state")
		}
	}
}

// H_C05_resetRestart: what cmd/mrp does when it re-attaches to a pipestance
// that was killed: Pipestance.Reset() then Pipestance.RestartLocalJobs(local).
// The stage has a completed split and two chunks with arbitrary
// crash-consistent sentinel files; the cached node states are those the dead
// mrp had computed.
//
//	C05: afterwards no chunk is left queued, or running under a process that no
//	longer exists (it would never be executed); completed chunks are untouched;
//	failed chunks are cleared for re-execution.
func H_C05_resetRestart() {
	disableUniquification = false
	vsGlobFromCache = true
	top := vsTop()
	top.rt.Config.JobMode = localMode
	top.rt.Config.FullStageReset = false
	p := vsPipelineNode(top, nil, "ID.ps.P", "P")
	p.parent = top
	node, f := vsStageNode(top, "S", true)
	node.parent = p
	p.subnodes["S"] = node
	f.split_metadata.contents[CompleteFile] = struct{}{}
	f.split_metadata.contents[JobInfoFile] = struct{}{}
	f.split_metadata.contents[StageDefsFile] = struct{}{}
	for i := 0; i < 2; i++ {
		c := &Chunk{fork: f, index: i, chunkDef: &ChunkDef{}}
		c.fqname = f.fqname + ".chnk" + string(rune('0'+i))
		c.metadata = newMetadataWithJournalPath(c.fqname, "P.S.fork0.chnk"+string(rune('0'+i)), f.path+"/chnk"+string(rune('0'+i)), top.journalPath)
		vsSymbolicContents(c.metadata, "C"+string(rune('0'+i)), QueuedLocally)
		m := c.metadata
		verifAssume(verifImplies(vsHas(m, LogFile), vsHas(m, JobInfoFile)))
		verifAssume(verifImplies(vsHas(m, QueuedLocally), verifAll(!vsHas(m, LogFile), !vsHas(m, CompleteFile))))
		verifAssume(!vsHas(m, DisabledFile))
		f.chunks = append(f.chunks, c)
	}
	vsPidZero, vsPidDead, vsJobInfoErr = false, verifBool("pid.dead"), false
	ps := &Pipestance{node: p, metadata: NewMetadata("ID.ps", "/ps")}
	ps.metadata.contents[Lock] = struct{}{}
	// the states the dead mrp had cached (LoadMetadata on re-attach)
	node.state = node.getState()
	p.state = Running
	top.node.frontierNodes.nodes[node.GetFQName()] = node
	var before [2]MetadataState
	for i, c := range f.chunks {
		before[i] = c.getState()
	}
	err1 := ps.Reset()
	err2 := ps.RestartLocalJobs(localMode)
	verifCover("reset and restart ran")
	verifAssert(err1 == nil && err2 == nil, "reset and restart succeed when the file system does")
	for i, c := range f.chunks {
		after := c.getState()
		switch before[i] {
		case Complete:
			verifAssert(after == Complete, "C05: a chunk whose completion was recorded is not touched by a restart")
		case Failed:
			verifCover("a failed chunk was reset")
			verifAssert(after == Ready, "C05: a failed chunk is cleared for re-execution")
		case Queued:
			verifCover("an orphaned queued chunk")
			verifAssert(after == Ready, "C05: a chunk that was queued when mrp died is re-queued, not waited for")
		case Running:
			if vsPidDead {
				verifCover("an orphaned running chunk")
				verifAssert(after == Ready, "C05: a chunk whose process no longer exists is re-executed, not waited for")
			} else {
				verifAssert(after == Running, "C05: a chunk whose process is still alive is left running")
			}
		}
	}
}

// ---- real graph: the node graph is built by the real compiler and runtime ----
//
// The MRO text below is parsed, compiled, turned into a call graph and
// instantiated by the real code (syntax.ParseSourceBytes, MakePipelineCallGraph,
// NewTopNode, NewPipestance, NewStagestance, NewNode, buildForks, makePrenodes,
// makeReturnBindings, the preflight loop of NewPipestance, setPrenode), inside
// the engine.  The oracle is the dependency relation read off the MRO text.

const vsRealSrc = `
stage PRE(
    in  int x,
    src comp "bin",
)

stage A(
    in  int  x,
    out int  o,
    out bool flag,
    src comp "bin",
)

stage B(
    in  int x,
    out int o,
    src comp "bin",
)

stage C(
    in  int x,
    out int o,
    src comp "bin",
)

stage D(
    in  int x,
    out int o,
    src comp "bin",
)

stage E(
    in  int x,
    out int o,
    src comp "bin",
)

stage F(
    in  int[] xs,
    out int   o,
    src comp  "bin",
)

stage CHK(
    in  int  x,
    out bool skip,
    src comp "bin",
)

stage WS(
    in  int x,
    out int o,
    src comp "bin",
)

pipeline W(
    in  int x,
    out int o,
)
{
    call WS(
        x = self.x,
    )

    return (
        o = WS.o,
    )
}

pipeline R(
    in  int x,
    out int o,
)
{
    call B(
        x = self.x,
    )

    return (
        o = B.o,
    )
}

pipeline Q(
    in  int x,
    out int o,
)
{
    call R(
        x = self.x,
    )

    return (
        o = R.o,
    )
}

pipeline P(
    in  int x,
    out int o,
    out int d,
    out int f,
    out int w,
)
{
    call PRE(
        x = self.x,
    ) using (
        preflight = true,
    )

    call A(
        x = self.x,
    )

    call C(
        x = self.x,
    )

    call Q(
        x = A.o,
    )

    call D(
        x = C.o,
    ) using (
        disabled = A.flag,
    )

    map call E(
        x = split [
            1,
            2,
        ],
    )

    call F(
        xs = E.o,
    )

    call CHK(
        x = self.x,
    )

    call W(
        x = self.x,
    ) using (
        disabled = CHK.skip,
    )

    return (
        o = Q.o,
        d = D.o,
        f = F.o,
        w = W.o,
    )
}

call P(
    x = 1,
)
`

// what each stage call must wait for, read off the text above: the producers
// of its inputs, the producer of its disabling condition, and the preflight of
// every enclosing pipeline
var vsRealStages = []string{"ID.ps.P.PRE", "ID.ps.P.A", "ID.ps.P.C", "ID.ps.P.Q.R.B", "ID.ps.P.D", "ID.ps.P.E", "ID.ps.P.F", "ID.ps.P.CHK", "ID.ps.P.W.WS"}
var vsRealDeps = [][]int{
	{},        // PRE
	{0},       // A
	{0},       // C
	{0, 1},    // B (two pipeline levels down) <- A.o
	{0, 2, 1}, // D <- C.o, disabled = A.flag
	{0},       // E (2 forks)
	{0, 5},    // F <- E.o
	{0},       // CHK
	{0, 7},    // WS, inside the pipeline W called with disabled = CHK.skip
}

type vsReal struct {
	ps    *Pipestance
	nodes []*Node
}

// vsRealGraph instantiates the pipeline once per engine worker (the build is
// concrete); whatever a path does to it is undone when the path ends.
// vsRealText: the program above; the bounded-run harness (every completion
// order) uses it without the call CHK and the conditionally disabled
// sub-pipeline W, whose two additional jobs multiply its completion orders by
// 25.
func vsRealText(extended bool) string {
	if extended {
		return vsRealSrc
	}
	t := vsRealSrc
	for _, cut := range []string{
		"    call CHK(\n        x = self.x,\n    )\n\n    call W(\n        x = self.x,\n    ) using (\n        disabled = CHK.skip,\n    )\n\n",
		"        w = W.o,\n",
		"    out int w,\n",
	} {
		i := strings.Index(t, cut)
		if i < 0 {
			panic("fixture text lacks " + cut)
		}
		t = t[:i] + t[i+len(cut):]
	}
	return t
}

func vsRealGraph() (*Pipestance, []*Node) { return vsRealGraphOf(true) }

func vsRealGraphOf(extended bool) (*Pipestance, []*Node) {
	disableUniquification = false
	vsDisabled, vsResolveErr, vsDefsErr, vsReadErr = false, false, false, false
	vsOutsOK, vsChunkOutOK = true, true
	vsChunks = 1
	key, stages := "vsRealGraph", vsRealStages
	if !extended {
		key, stages = "vsRealGraphBase", vsRealStages[:7]
	}
	r := verifCached(key, func() any {
		rt := vsRuntime()
		_, _, ps, err := rt.instantiatePipeline([]byte(vsRealText(extended)), "/m/p.mro", "ps", "/ps", nil, "none", nil, false, true, context.Background())
		if err != nil {
			panic("fixture does not instantiate: " + err.Error())
		}
		var nodes []*Node
		for _, fq := range stages {
			n := ps.node.top.allNodes[fq]
			if n == nil {
				panic("fixture has no node " + fq)
			}
			nodes = append(nodes, n)
		}
		return &vsReal{ps, nodes}
	}).(*vsReal)
	return r.ps, r.nodes
}

// H_SCHED_realGraph(which): Node.step of stage call `which` in the instantiated
// pipeline, from arbitrary coarse states of every fork of every stage.
//
//	C02: a job of the call is submitted, and the node is running, only when
//	     every call it depends on according to the MRO text (data, disabling
//	     condition, preflights of all enclosing pipelines) is complete or
//	     disabled.
//	C03: the map call has exactly one fork per element; a disabled fork submits
//	     nothing.
func H_SCHED_realGraph(which int) {
	ps, nodes := vsRealGraph()
	_ = ps
	verifAssert(len(nodes[5].forks) == 2, "C03: a map call over a two-element array has exactly two forks")
	for i, n := range nodes {
		if i != 5 {
			verifAssert(len(n.forks) == 1, "C03: a call that is not mapped has exactly one fork")
		}
		for j, f := range n.forks {
			vsForkBits(f, vsRealStages[i][8:]+string(rune('0'+j)))
		}
	}
	target := nodes[which]
	wasRunning := verifBool("target.wasRunning")
	if wasRunning {
		target.state = Running
		// NodeInv: step() only sets running when every prenode was done, and
		// finished prenodes stay finished
		for _, pn := range target.prenodes {
			verifAssume(vsDone(pn.getNode()))
		}
	}
	vsDisabled = verifBool("disabled")
	depsDone := true
	for _, d := range vsRealDeps[which] {
		depsDone = depsDone && vsDone(nodes[d])
	}
	target.step()
	verifCover("real node stepped")
	if vsExecFor(target) > 0 {
		verifCover("real node submitted a job")
		verifAssert(depsDone, "C02: no job of a call starts before every call it depends on (per the MRO text) has finished")
		verifAssert(!vsDisabled, "C03: a disabled call submits nothing")
	}
	if target.state == Running {
		verifAssert(depsDone, "C02: a call is running only when everything it depends on has finished")
	}
	if !depsDone {
		verifCover("real node waits")
	}
	for i, other := range nodes {
		if i != which {
			verifAssert(vsExecFor(other) == 0, "stepping one node submits no job of another")
		}
	}
	// C06 on the same graph
	failed, allFinal := false, true
	for _, f := range target.forks {
		st := f.getState()
		if st == Failed {
			failed = true
		} else if st != Complete && st != DisabledState {
			allFinal = false
		}
	}
	if failed {
		verifCover("real node failed")
		verifAssert(target.state != Complete && target.state != DisabledState, "C06: a call with a failed fork is never complete")
		verifAssert(ps.GetState(context.Background()) != Complete, "C06: the pipestance never reports success while a call has a failed fork")
		if allFinal {
			// (Node.getState stops at the first fork still in progress, so a later
			// failed fork is only seen once the earlier ones have finished)
			verifAssert(target.state == Failed, "C06: a call with a failed fork and no fork in progress is failed")
			_, onFrontier := ps.node.top.node.frontierNodes.nodes[target.GetFQName()]
			verifAssert(onFrontier, "C06: a failed call stays on the frontier")
			verifAssert(ps.GetState(context.Background()) == Failed, "C06: the pipestance is failed while a call is failed")
		}
		// calls depending on the failed call are never started: any one of them
		pick := verifInt("dependent")
		verifAssume(verifAll(pick >= 0, pick < len(nodes)))
		pick = verifConcretize(pick)
		for _, d := range vsRealDeps[pick] {
			if d == which {
				st := nodes[pick].getState()
				verifAssert(st == Waiting || st == Complete || st == DisabledState || st == Failed,
					"C06: a call depending on the failed call is never started")
			}
		}
	}
}

// ---- bounded runs of the whole pipestance: every completion order ----

//verif:stub (*github.com/martian-lang/martian/martian/core.LocalJobManager).refreshResources
func vsLocalRefresh(self *LocalJobManager, localMode bool) error { return nil }

// H_SCHED_run(rounds): the instantiated pipeline of H_SCHED_realGraph is run
// from scratch by the real Pipestance.StepNodes; between two rounds either
// all running jobs or any single one of them completes successfully (every
// completion order within the bound).
//
//	C02: a job is submitted only when every call its stage depends on (per the
//	     MRO text) has completed.
//	C03: no job is submitted twice; when every submitted job has completed and
//	     nothing more is submitted, every stage fork has run and the pipestance
//	     is complete (nothing is left behind, no stall).
func H_SCHED_run(rounds int) {
	ps, nodes := vsRealGraphOf(false)
	disableDiskSpaceCheck = true
	ps.node.top.rt.LocalJobManager = &LocalJobManager{}
	ps.metadata.contents[Lock] = struct{}{}
	// a fresh pipestance directory: LoadMetadata finds nothing and puts every
	// node on the frontier
	vsGlob = nil
	ps.LoadMetadata(context.Background())
	vsExec = nil
	vsRealOuts = LazyArgumentMap{"o": json.RawMessage("1"), "flag": json.RawMessage("false"), "skip": json.RawMessage("false")}
	finished := map[*Metadata]bool{}
	owner := func(m *Metadata) int {
		for i, n := range nodes {
			for _, mm := range n.collectMetadatas() {
				if mm == m {
					return i
				}
			}
		}
		return -1
	}
	quiet := false
	for r := 0; r < rounds; r++ {
		before := len(vsExec)
		progress := ps.StepNodes(context.Background())
		// what was submitted this round
		for k := before; k < len(vsExec); k++ {
			m := vsExec[k]
			for j := 0; j < k; j++ {
				verifAssert(vsExec[j] != m, "C03: no job is submitted twice")
			}
			o := owner(m)
			verifAssert(o >= 0, "every job belongs to a stage of the pipeline")
			if o >= 0 {
				for _, d := range vsRealDeps[o] {
					verifAssert(vsDone(nodes[d]), "C02: a job is submitted only after every call its stage depends on has completed")
				}
			}
		}
		// some of the running jobs finish
		// of the running jobs either all finish now, or exactly one of them does
		var runningJobs []*Metadata
		for _, m := range vsExec {
			if !finished[m] {
				runningJobs = append(runningJobs, m)
			}
		}
		running, finishedNow := len(runningJobs), 0
		if running > 0 {
			which := verifInt("which job finishes (or all)")
			verifAssume(verifAll(which >= 0, which <= running))
			which = verifConcretize(which)
			for i, m := range runningJobs {
				if which == running || which == i {
					m.contents[LogFile] = struct{}{}
					m.contents[CompleteFile] = struct{}{}
					finished[m] = true
					finishedNow++
				}
			}
			running -= finishedNow
		}
		if running == 0 && finishedNow == 0 && len(vsExec) == before && !progress {
			quiet = true
			break
		}
	}
	verifCover("bounded run")
	if quiet {
		verifCover("run quiescent")
		// nothing is running and a whole round submitted nothing: the run is over
		for i, n := range nodes {
			for _, f := range n.forks {
				st := f.getState()
				verifAssert(st == Complete || st == DisabledState, "C03: when the run goes quiet every fork of every stage has run to completion (no call is forgotten)")
			}
			_ = i
		}
		verifAssert(ps.GetState(context.Background()) == Complete, "C03/C06: a run in which every job succeeded ends complete")
	}
}

// H_C06_restartAfterFault(split): a stage whose jobs have all run; the failure
// is either a failed chunk (its _errors) or the fork's own _errors, written by
// mrp when the final outputs did not validate (doComplete).  The fault is
// removed and mrp restarted: Pipestance.Reset, the default partial reset.
//
//	C06: once the fault is removed, a restart clears the failure, so that the
//	     failed work can be re-executed; work that succeeded is kept.
func H_C06_restartAfterFault(splitI int) {
	disableUniquification = false
	vsGlobFromCache = true
	top := vsTop()
	top.rt.Config.JobMode = localMode
	top.rt.Config.FullStageReset = false
	p := vsPipelineNode(top, nil, "ID.ps.P", "P")
	p.parent = top
	node, f := vsStageNode(top, "S", splitI != 0)
	node.parent = p
	p.subnodes["S"] = node
	for _, m := range []*Metadata{f.split_metadata, f.join_metadata} {
		m.contents[CompleteFile] = struct{}{}
		m.contents[JobInfoFile] = struct{}{}
		m.contents[LogFile] = struct{}{}
	}
	f.split_metadata.contents[StageDefsFile] = struct{}{}
	c := &Chunk{fork: f, index: 0, chunkDef: &ChunkDef{}}
	c.fqname = f.fqname + ".chnk0"
	c.metadata = newMetadataWithJournalPath(c.fqname, "P.S.fork0.chnk0", f.path+"/chnk0", top.journalPath)
	c.metadata.contents[JobInfoFile] = struct{}{}
	c.metadata.contents[LogFile] = struct{}{}
	f.chunks = append(f.chunks, c)
	forkLevel := verifBool("the fork itself failed (invalid outputs)")
	if forkLevel {
		if verifKnown("C06-stale-fork-error") {
			verifAssume(false)
		}
		c.metadata.contents[CompleteFile] = struct{}{}
		f.metadata.contents[Errors] = struct{}{}
	} else {
		c.metadata.contents[Errors] = struct{}{}
		f.join_metadata.contents = map[MetadataFileName]struct{}{}
	}
	vsPidZero, vsPidDead, vsJobInfoErr = false, true, false
	ps := &Pipestance{node: p, metadata: NewMetadata("ID.ps", "/ps")}
	ps.metadata.contents[Lock] = struct{}{}
	node.state = node.getState()
	verifAssert(node.state == Failed, "C06: the stage is failed before the restart")
	p.state = Running
	top.node.frontierNodes.nodes[node.GetFQName()] = node
	err := ps.Reset()
	verifCover("restarted after a fault")
	verifAssert(err == nil, "the reset succeeds when the file system does")
	verifAssert(node.getState() != Failed, "C06: once the fault is removed a restart clears the failure, so that the failed work can run again")
	if forkLevel {
		verifCover("fork-level failure")
	}
	verifAssert(vsHas(f.split_metadata, CompleteFile), "C06: work that succeeded is not redone by a restart")
}

// H_C05_chunkIdentity(n): a splitting stage whose split defined n chunks.  The
// running mrp creates the chunk objects in doChunks; an mrp re-attached to the
// same directory creates them in NewFork / updateId from the _stage_defs on
// disk.
//
//	C05: both derive the same directory, name and journal name for every chunk,
//	     so that the completion a chunk recorded before the interruption is
//	     found again (and the chunk is not executed a second time).
func H_C05_chunkIdentity(n int) {
	disableUniquification = false
	top := vsTop()
	node, f := vsStageNode(top, "S", true)
	vsDisabled, vsResolveErr, vsDefsErr, vsReadErr = false, false, false, false
	vsOutsOK, vsChunkOutOK = true, true
	vsChunks = n
	// the split job has completed and left its _stage_defs
	for _, name := range []MetadataFileName{JobInfoFile, LogFile, CompleteFile, StageDefsFile} {
		f.split_metadata.contents[name] = struct{}{}
	}
	f.split_has_run = true
	node.state = Running
	f.step()
	verifCover("chunks created by the running mrp")
	verifAssert(len(f.chunks) == n, "C03: exactly the chunks the split defined are created")
	// the re-attached mrp builds a new fork object for the same call
	g := NewFork(node, 0, nil)
	verifCover("chunks created on re-attach")
	verifAssert(len(g.chunks) == n, "C05/C06: a re-attached mrp finds exactly the chunks the split defined")
	if len(g.chunks) != len(f.chunks) {
		return
	}
	for i := range f.chunks {
		a, b := f.chunks[i].metadata, g.chunks[i].metadata
		verifAssert(a.finalPath == b.finalPath, "C03/C05/C06: a re-attached mrp looks for each chunk in the directory the interrupted mrp created for it (so that a restart re-executes only the work that failed)")
		verifAssert(f.chunks[i].fqname == g.chunks[i].fqname && a.journalPath == b.journalPath, "C05/C11: a chunk keeps its name and journal name across a restart")
	}
}

// ---- an interrupted run, resumed by a second mrp on the same directory ----

const vsCrashSrc = `
stage PRE(
    in  int x,
    src comp "bin",
)

stage A(
    in  int  x,
    out int  o,
    out bool flag,
    src comp "bin",
)

stage B(
    in  int x,
    out int o,
    src comp "bin",
) split (
    in  int c,
    out int d,
)

stage C(
    in  int x,
    out int o,
    src comp "bin",
)

stage D(
    in  int x,
    out int o,
    src comp "bin",
)

pipeline P(
    in  int x,
    out int o,
    out int d,
)
{
    call PRE(
        x = self.x,
    ) using (
        preflight = true,
    )

    call A(
        x = self.x,
    )

    call B(
        x = A.o,
    )

    call C(
        x = B.o,
    )

    call D(
        x = self.x,
    )

    return (
        o = C.o,
        d = D.o,
    )
}

call P(
    x = 1,
)
`

func vsCrashGraph(key string) *Pipestance {
	disableUniquification = false
	vsDisabled, vsResolveErr, vsDefsErr, vsReadErr = false, false, false, false
	vsOutsOK, vsChunkOutOK = true, true
	return verifCached("vsCrashGraph"+key, func() any {
		rt := vsRuntime()
		saveMode, saveDisk := vsDiskMode, vsDisk
		vsDiskMode, vsDisk = true, map[string]map[MetadataFileName]struct{}{} // an empty directory
		_, _, ps, err := rt.instantiatePipeline([]byte(vsCrashSrc), "/m/p.mro", "ps", "/ps", nil, "none", nil, false, true, context.Background())
		vsDiskMode, vsDisk = saveMode, saveDisk
		if err != nil {
			panic("fixture does not instantiate: " + err.Error())
		}
		return ps
	}).(*Pipestance)
}

// all job-bearing metadata of a pipestance (split / chunk / join of every
// stage fork), by fully qualified name
func vsJobMetas(ps *Pipestance) map[string]*Metadata {
	out := map[string]*Metadata{}
	for _, n := range ps.allNodes() {
		if n.call.Kind() != syntax.KindStage {
			continue
		}
		for _, f := range n.forks {
			out[f.split_metadata.fqname] = f.split_metadata
			out[f.join_metadata.fqname] = f.join_metadata
			for _, c := range f.chunks {
				out[c.metadata.fqname] = c.metadata
			}
		}
	}
	return out
}

// a submitted job advances: 0 queued locally, 1 started, 2 running, 3 complete
func vsJobProgress(m *Metadata, to int) {
	if to >= 1 {
		delete(m.contents, QueuedLocally)
	}
	if to >= 2 {
		m.contents[LogFile] = struct{}{}
	}
	if to >= 3 {
		m.contents[CompleteFile] = struct{}{}
		if len(m.fqname) > 6 && m.fqname[len(m.fqname)-6:] == ".split" {
			m.contents[StageDefsFile] = struct{}{}
		}
	}
}

// H_C05_crashRun(crash, mode): mrp runs the pipeline above from scratch (a
// preflight, a chain A -> B (splitting into two chunks) -> C, an independent
// D); every running job completes between two rounds of the run loop.  After
// `crash` rounds mrp is killed outright: each job in flight has made arbitrary
// progress (still queued locally, started, running, or complete).  mode 0 =
// local jobs (they die with mrp), mode 1 = cluster jobs (they live on and those
// not yet complete arbitrarily finish before the restart or after it).  A
// second mrp is then started on the same directory with the same invocation:
// instantiation (chunks rebuilt from _stage_defs), RestoreForks,
// RestartRunningNodes, Reset, RestartLocalJobs, LoadMetadata, the run loop.
//
//	C05: no job whose completion was recorded before the interruption is
//	     executed again; a job the interruption killed, or that had not started,
//	     is executed (again) exactly once; a cluster job that survived is not
//	     submitted a second time; the resumed pipestance runs to completion.
func H_C05_crashRun(crash, mode int) {
	ctx := context.Background()
	disableDiskSpaceCheck = true
	vsChunks = 2
	vsRealOuts = LazyArgumentMap{"o": json.RawMessage("1"), "flag": json.RawMessage("false"), "d": json.RawMessage("1")}
	jobMode := localMode
	if mode != 0 {
		jobMode = "sge"
	}
	// ---- the first mrp
	vsDiskMode, vsDisk = false, nil
	psA, psB := vsCrashGraph("A"), vsCrashGraph("B")
	psA.node.top.rt.Config.JobMode = jobMode
	psA.node.top.rt.LocalJobManager = &LocalJobManager{}
	psA.metadata.contents[Lock] = struct{}{}
	vsGlob, vsExec = nil, nil
	psA.LoadMetadata(ctx)
	progress := map[*Metadata]int{}
	for r := 0; r < crash; r++ {
		psA.StepNodes(ctx)
		last := r == crash-1
		for _, m := range vsExec {
			if progress[m] >= 3 {
				continue
			}
			to := 3
			if last {
				// the moment of the kill: arbitrary progress
				v := verifInt("progress at the kill")
				verifAssume(verifAll(v >= 0, v <= 3))
				to = verifConcretize(v)
			}
			progress[m] = to
			vsJobProgress(m, to)
		}
	}
	verifCover("first mrp killed")
	// what is on disk
	disk := map[string]map[MetadataFileName]struct{}{}
	snapshot := func(m *Metadata) {
		files := map[MetadataFileName]struct{}{}
		for name := range m.contents {
			files[name] = struct{}{}
		}
		disk[m.path] = files
	}
	snapshot(psA.metadata)
	for _, n := range psA.allNodes() {
		for _, m := range n.collectMetadatas() {
			snapshot(m)
		}
	}
	completeAtKill := map[string]bool{}
	inFlight := map[string]bool{}
	for fq, m := range vsJobMetas(psA) {
		if _, ok := m.contents[CompleteFile]; ok {
			completeAtKill[fq] = true
		} else if _, ok := m.contents[JobInfoFile]; ok {
			inFlight[fq] = true
		}
	}
	// non-splitting stages "complete" their split without a job: those are
	// not jobs
	submittedA := map[string]bool{}
	for _, m := range vsExec {
		submittedA[m.fqname] = true
	}
	// cluster jobs live on: some finish before the second mrp looks
	survivors := map[string]bool{}
	if mode != 0 {
		for fq := range inFlight {
			if _, queued := disk[vsJobMetas(psA)[fq].path][QueuedLocally]; queued {
				continue // never reached the cluster
			}
			survivors[fq] = true
			if verifBool("finished while no mrp was running") {
				m := vsJobMetas(psA)[fq]
				disk[m.path][LogFile] = struct{}{}
				disk[m.path][CompleteFile] = struct{}{}
				if len(fq) > 6 && fq[len(fq)-6:] == ".split" {
					disk[m.path][StageDefsFile] = struct{}{}
				}
				completeAtKill[fq] = true
			}
		}
	}
	// ---- the second mrp, on the same directory
	vsDiskMode, vsDisk = true, disk
	vsPidZero, vsPidDead, vsJobInfoErr = false, mode == 0, false
	psB.node.top.rt.Config.JobMode = jobMode
	psB.node.top.rt.LocalJobManager = &LocalJobManager{}
	psB.metadata.contents[Lock] = struct{}{}
	for _, n := range psB.allNodes() {
		for _, f := range n.forks {
			// what NewFork does on a directory that already has files
			f.path = ""
			f.metadatasCache = nil
			f.updateId(f.forkId)
		}
	}
	vsExec = nil
	psB.RestoreForks(ctx)
	err := psB.RestartRunningNodes(jobMode, ctx)
	verifAssert(err == nil, "C05: re-attaching to an interrupted pipestance succeeds")
	err = psB.Reset()
	if err == nil {
		err = psB.RestartLocalJobs(jobMode)
	}
	verifAssert(err == nil, "C05: resetting the interrupted jobs succeeds")
	psB.LoadMetadata(ctx)
	verifCover("second mrp attached")
	quiet := false
	done := map[*Metadata]bool{}
	for r := 0; r < 16 && !quiet; r++ {
		before := len(vsExec)
		changed := psB.StepNodes(ctx)
		finished := 0
		for _, m := range vsExec {
			if !done[m] {
				vsJobProgress(m, 3)
				done[m] = true
				finished++
			}
		}
		// surviving cluster jobs finish at some point: here, after the first round
		if r == 0 {
			for fq := range survivors {
				if !completeAtKill[fq] {
					if m := vsJobMetas(psB)[fq]; m != nil {
						if _, resubmitted := done[m]; !resubmitted {
							vsJobProgress(m, 3)
							finished++
						}
					}
				}
			}
		}
		if finished == 0 && len(vsExec) == before && !changed {
			quiet = true
		}
	}
	verifAssert(quiet, "C05: the resumed run comes to an end")
	count := map[string]int{}
	for _, m := range vsExec {
		count[m.fqname]++
	}
	for fq, n := range count {
		verifAssert(n == 1, "C03/C05: the resumed mrp submits no job twice")
		verifAssert(!completeAtKill[fq], "C05: a job whose completion was recorded before the interruption is not executed again")
		if mode != 0 {
			verifAssert(!survivors[fq], "C05: a cluster job that survived the interruption is not submitted a second time")
		}
	}
	for fq := range vsJobMetas(psB) {
		isJob := submittedA[fq] || count[fq] > 0
		if !isJob {
			continue
		}
		if !completeAtKill[fq] && !(mode != 0 && survivors[fq]) {
			verifAssert(count[fq] == 1, "C05: a job that had not completed (killed with mrp, or never started) is executed by the resumed mrp")
		}
	}
	for _, n := range psB.allNodes() {
		for _, f := range n.forks {
			st := f.getState()
			verifAssert(st == Complete || st == DisabledState, "C05: after the resumed run every fork of every call is complete")
		}
	}
	verifAssert(psB.GetState(ctx) == Complete, "C05: an interrupted pipestance, restarted, runs to completion")
	vsDiskMode, vsDisk = false, nil
}

// H_C11_resetJournal(mode): resetting a failed job removes its pending
// notifications from the journal directory.  The directory also holds
// notifications of jobs whose names merely start with the same text: a fork
// whose map key extends this fork's key (fork_a / fork_ab), a stage whose name
// extends this stage's name (ALIGN / ALIGN_STATS).  mode 0: the partial reset
// of a failed split job of fork_a (Metadata.uncheckedReset); mode 1: the full
// stage reset of ALIGN (Node.reset with full stage reset).
//
//	C11: only notifications written by the jobs being reset are removed; a
//	     notification of another fork or stage is never lost.
func H_C11_resetJournal(mode int) {
	disableUniquification = false
	top := vsTop()
	node, f := vsStageNode(top, "ALIGN", true)
	f.id = "fork_a"
	f.split_metadata.journalPath = "/ps/journal/P.ALIGN.fork_a"
	f.join_metadata.journalPath = f.split_metadata.journalPath
	own := []string{"P.ALIGN.fork_a.split_errors", "P.ALIGN.fork_a.split_log"}
	if mode == 1 {
		own = append(own, "P.ALIGN.fork_a.chnk0.u0123456789.complete", "P.ALIGN.fork_b.join_complete")
	}
	foreign := []string{"P.ALIGN_STATS.fork_a.chnk0.complete", "P.ALIGN_STATS.fork0.split_complete"}
	if mode == 0 {
		// other forks of the same stage are not being reset
		foreign = append(foreign, "P.ALIGN.fork_b.join_complete", "P.ALIGN.fork_ab.chnk0.complete")
	} else {
		own = append(own, "P.ALIGN.fork_ab.chnk0.complete")
	}
	vsJournalFiles = append(append([]string{}, foreign...), own...)
	vsRemovedOne = nil
	if mode == 0 {
		f.split_metadata.contents[Errors] = struct{}{}
		err := f.split_metadata.checkedReset()
		verifAssert(err == nil, "a reset that meets no file-system error succeeds")
	} else {
		top.rt.Config.FullStageReset = true
		err := node.reset()
		verifAssert(err == nil, "a reset that meets no file-system error succeeds")
	}
	verifCover("journal cleaned on reset")
	removed := func(name string) bool {
		for _, r := range vsRemovedOne {
			if r == "/ps/journal/"+name {
				return true
			}
		}
		return false
	}
	for _, name := range own {
		verifAssert(removed(name), "C11: the pending notifications of a job that is reset are discarded with it")
	}
	for _, name := range foreign {
		verifAssert(!removed(name), "C11: resetting a job never removes a notification written by another fork or stage whose name starts with the same text")
	}
}

// H_C06_restartMapped(full): a stage mapped over three elements, restarted
// after a failure.  Each of the three forks is - arbitrarily - complete,
// failed in its one chunk, or not yet started when mrp is restarted on the
// directory (metadata loaded from the disk model, states computed as the run
// loop does); at least one fork failed.  Pipestance.Reset then runs with the
// default chunk-granular reset (full = 0) or with MRO_FULLSTAGERESET (full =
// 1: the whole stage directory is deleted).
//
//	C06: after the reset the stage is no longer failed; no fork reports itself
//	     complete unless its _complete file is (still) on disk - a fork whose
//	     outputs the reset deleted is executed again, its consumer does not
//	     get null for them; with the default reset the forks which completed
//	     are kept.
func H_C06_restartMapped(full int) {
	disableUniquification = false
	top := vsTop()
	top.rt.Config.JobMode = localMode
	top.rt.Config.FullStageReset = full != 0
	p := vsPipelineNode(top, nil, "ID.ps.P", "P")
	p.parent = top
	node, f0 := vsStageNode(top, "S", true)
	node.parent = p
	p.subnodes["S"] = node
	forks := []*Fork{f0}
	for i := 1; i < 3; i++ {
		id := "fork" + string(rune('0'+i))
		f := &Fork{node: node, id: id, index: i, path: node.path + "/" + id}
		f.fqname = node.call.GetFqid() + "." + id
		f.metadata = NewMetadata(f.fqname, f.path)
		f.split_metadata = NewMetadata(f.fqname+".split", f.path+"/split")
		f.split_metadata.journalPath = "/ps/journal/P.S." + id
		f.join_metadata = NewMetadata(f.fqname+".join", f.path+"/join")
		f.join_metadata.journalPath = f.split_metadata.journalPath
		f.stageDefs = &StageDefs{}
		forks = append(forks, f)
	}
	node.forks = forks
	vsDiskMode, vsDisk = true, map[string]map[MetadataFileName]struct{}{}
	vsChunks = 1
	var kind [3]int // 0 complete, 1 failed chunk, 2 not started
	anyFailed := false
	for i, f := range forks {
		c := &Chunk{fork: f, index: 0, chunkDef: &ChunkDef{}}
		c.fqname = f.fqname + ".chnk0"
		c.metadata = newMetadataWithJournalPath(c.fqname, "P.S."+f.id+".chnk0", f.path+"/chnk0", top.journalPath)
		f.chunks = []*Chunk{c}
		kind[i] = verifInt("fork state")
		verifAssume(kind[i] >= 0 && kind[i] <= 2)
		switch kind[i] {
		case 0:
			for _, m := range []*Metadata{f.split_metadata, c.metadata, f.join_metadata, f.metadata} {
				vsDiskAdd(m.path, CompleteFile)
			}
			vsDiskAdd(f.split_metadata.path, StageDefsFile)
		case 1:
			vsDiskAdd(f.split_metadata.path, CompleteFile)
			vsDiskAdd(f.split_metadata.path, StageDefsFile)
			vsDiskAdd(c.metadata.path, Errors)
			vsDiskAdd(c.metadata.path, JobInfoFile)
			anyFailed = true
		}
	}
	verifAssume(anyFailed)
	vsPidZero, vsPidDead, vsJobInfoErr = false, true, false
	ps := &Pipestance{node: p, metadata: NewMetadata("ID.ps", "/ps")}
	ps.metadata.contents[Lock] = struct{}{}
	// what mrp does when it re-attaches: load the metadata and compute states
	node.loadMetadata()
	p.state = Running
	if node.state != Failed {
		// a failed fork behind an unfinished one is not noticed yet
		verifCover("failure hidden behind an unfinished fork")
		vsDiskMode, vsDisk = false, nil
		return
	}
	for _, f := range forks {
		f.getState()
	}
	err := ps.Reset()
	verifCover("mapped stage restarted after a fault")
	verifAssert(err == nil, "the reset succeeds when the file system does")
	verifAssert(node.getState() != Failed, "C06: once the fault is removed a restart clears the failure of a mapped stage")
	for i, f := range forks {
		st := f.getState()
		onDisk := vsDiskHas(f.path, CompleteFile)
		verifAssert(st != Complete || onDisk, "C06: after a reset no fork reports itself complete unless its _complete file is still there (a fork whose outputs were deleted runs again)")
		if full == 0 && kind[i] == 0 {
			verifAssert(st == Complete, "C06: with the default reset the forks which completed are not redone")
		}
		if full != 0 {
			verifAssert(st != Complete && st != Failed, "C06: after a full stage reset every fork of the stage starts over")
		}
	}
	vsDiskMode, vsDisk = false, nil
}

// H_C06_splitRetry(n1, n2): the split job of a stage wrote a _stage_defs with
// n1 chunks and then failed (killed before _complete, or failed by the monitor
// afterwards).  mrp is restarted: the fork object is built from the directory
// (NewFork / updateId read the _stage_defs which is there), the metadata is
// loaded, Pipestance.Reset discards the failed attempt.  The split runs again
// and - the fault being removed - defines n2 chunks; the fork is stepped.
//
//	C06/C03: the chunks created and submitted are exactly the n2 chunks which
//	     the split that completed defined: none left over from the failed
//	     attempt, none missing.
func H_C06_splitRetry(n1, n2 int) {
	disableUniquification = false
	vsGlobFromCache = true
	top := vsTop()
	top.rt.Config.JobMode = localMode
	top.rt.Config.FullStageReset = false
	p := vsPipelineNode(top, nil, "ID.ps.P", "P")
	p.parent = top
	node, f0 := vsStageNode(top, "S", true)
	node.parent = p
	p.subnodes["S"] = node
	// the re-attached mrp builds the fork from what is on disk
	vsDiskMode, vsDisk = true, map[string]map[MetadataFileName]struct{}{}
	for _, name := range []MetadataFileName{StageDefsFile, Errors, JobInfoFile, LogFile} {
		vsDiskAdd(f0.split_metadata.path, name)
	}
	vsChunks = n1
	vsDefsErr = false
	f := NewFork(node, 0, nil)
	node.forks = []*Fork{f}
	vsPidZero, vsPidDead, vsJobInfoErr = false, true, false
	ps := &Pipestance{node: p, metadata: NewMetadata("ID.ps", "/ps")}
	ps.metadata.contents[Lock] = struct{}{}
	node.loadMetadata()
	verifAssert(node.state == Failed, "C06: the stage is failed before the restart")
	p.state = Running
	err := ps.Reset()
	verifAssert(err == nil, "the reset succeeds when the file system does")
	verifAssert(node.getState() != Failed, "C06: once the fault is removed a restart clears the failed split")
	// the new split attempt completes with n2 chunks
	vsDisk[f.split_metadata.path] = map[MetadataFileName]struct{}{}
	for _, name := range []MetadataFileName{StageDefsFile, CompleteFile, JobInfoFile, LogFile} {
		vsDiskAdd(f.split_metadata.path, name)
		f.split_metadata.contents[name] = struct{}{}
	}
	vsChunks = n2
	vsExec = nil
	vsDisabled, vsResolveErr = false, false
	f.step()
	verifCover("split retried with another chunk count")
	verifAssert(len(f.chunks) == n2, "C06/C03: after a failed split was re-run, the fork has exactly the chunks which the completed split defined")
	for i, c := range f.chunks {
		verifAssert(c.index == i, "chunks are numbered in order")
		verifAssert(vsExecCount(c.metadata) == 1, "C03: every chunk the completed split defined is submitted once")
	}
	n := 0
	for _, e := range vsExec {
		if e != f.split_metadata && e != f.join_metadata {
			n++
		}
	}
	if n2 > 0 {
		verifAssert(n == n2, "C03: no chunk which the completed split did not define is submitted")
	}
	vsDiskMode, vsDisk = false, nil
}

// H_C06_clusterRetry(full): cluster mode.  One chunk of a stage failed while a
// sibling chunk was still waiting for a --maxjobs slot (_queued_locally: mrp
// itself holds it, nothing is in the cluster's queue) and a third had
// completed.  mrp retries in-process: re-attach (RestartRunningNodes), Reset,
// LoadMetadata - the waiter goroutines of the old pipestance object are gone.
//
//	C06: after the retry no job is left in a state which nobody will ever
//	     advance: the chunk which was only queued inside the old mrp is ready to
//	     be submitted again; the failed chunk is reset; the completed one kept.
func H_C06_clusterRetry(full int) {
	disableUniquification = false
	vsGlobFromCache = true
	top := vsTop()
	top.rt.Config.JobMode = "sge"
	top.rt.Config.FullStageReset = full != 0
	p := vsPipelineNode(top, nil, "ID.ps.P", "P")
	p.parent = top
	node, f := vsStageNode(top, "S", true)
	node.parent = p
	p.subnodes["S"] = node
	f.split_metadata.contents[CompleteFile] = struct{}{}
	f.split_metadata.contents[StageDefsFile] = struct{}{}
	f.split_metadata.contents[JobInfoFile] = struct{}{}
	var chunks [3]*Chunk
	for i := range chunks {
		c := &Chunk{fork: f, index: i, chunkDef: &ChunkDef{}}
		c.fqname = f.fqname + ".chnk" + string(rune('0'+i))
		c.metadata = newMetadataWithJournalPath(c.fqname, "P.S.fork0.chnk"+string(rune('0'+i)), f.path+"/chnk"+string(rune('0'+i)), top.journalPath)
		f.chunks = append(f.chunks, c)
		chunks[i] = c
	}
	// chunk 0 failed, chunk 1 waits for a job slot inside mrp, chunk 2 is done
	chunks[0].metadata.contents[JobInfoFile] = struct{}{}
	chunks[0].metadata.contents[LogFile] = struct{}{}
	chunks[0].metadata.contents[Errors] = struct{}{}
	chunks[1].metadata.contents[JobInfoFile] = struct{}{}
	chunks[1].metadata.contents[QueuedLocally] = struct{}{}
	chunks[2].metadata.contents[JobInfoFile] = struct{}{}
	chunks[2].metadata.contents[LogFile] = struct{}{}
	chunks[2].metadata.contents[CompleteFile] = struct{}{}
	vsPidZero, vsPidDead, vsJobInfoErr = false, true, false
	ps := &Pipestance{node: p, metadata: NewMetadata("ID.ps", "/ps")}
	ps.metadata.contents[Lock] = struct{}{}
	top.node.frontierNodes.nodes[node.GetFQName()] = node
	p.state = Running
	// pipestanceHolder.restart: ReattachToPipestance (which ends with
	// RestartRunningNodes), Reset, LoadMetadata
	err := ps.RestartRunningNodes("sge", context.Background())
	verifAssert(err == nil, "re-attaching succeeds when the file system does")
	err = ps.Reset()
	verifAssert(err == nil, "the reset succeeds when the file system does")
	ps.LoadMetadata(context.Background())
	verifCover("cluster-mode stage retried in-process")
	verifAssert(node.getState() != Failed, "C06: once the fault is removed a retry clears the failure")
	verifAssert(!vsHas(chunks[1].metadata, QueuedLocally), "C06: a job which was only queued inside the old mrp (waiting for a job slot) is not left queued for ever by a retry: it is reset, so that it is submitted again")
	verifAssert(!vsHas(chunks[0].metadata, Errors), "C06: the failed chunk is reset")
	if full == 0 {
		verifAssert(vsHas(chunks[2].metadata, CompleteFile), "C06: work that succeeded is not redone by a retry")
	}
}

var vsDefsNullChunk bool

// H_C06_nullChunkDef(k): the split job of a stage completed and its
// _stage_defs lists k + 1 chunks one of which is the JSON value null
// ({"chunks": [null]} decodes to a nil chunk definition).
//
//	C06: a bad _stage_defs fails the stage with an error naming it; mrp does
//	     not crash, and no chunk job is started.
func H_C06_nullChunkDef(k int) {
	disableUniquification = false
	top := vsTop()
	top.rt.Config.JobMode = localMode
	_, f := vsStageNode(top, "S", true)
	for _, name := range []MetadataFileName{CompleteFile, StageDefsFile, JobInfoFile, LogFile} {
		f.split_metadata.contents[name] = struct{}{}
	}
	vsChunks = k
	vsDefsErr, vsDefsNullChunk = false, true
	vsExec = nil
	vsDisabled, vsResolveErr = false, false
	f.step()
	vsDefsNullChunk = false
	verifCover("stage stepped with a null chunk definition")
	verifAssert(f.getState() == Failed, "C06: a _stage_defs with a null chunk fails the stage")
	verifAssert(vsHas(f.split_metadata, Errors) || vsHas(f.metadata, Errors), "C06: the failure is recorded as an error of the stage")
	verifAssert(len(vsExec) == 0, "C06: no chunk job is started from a bad _stage_defs")
}
