package core

// C04 (decision) / C14 (phases) — Fork.partialVdrKill: when does volatile
// data removal run a full kill, and which temp-cleaning phases run, from an
// arbitrary state of the producer fork and of the calls bound to its outputs.
// The kill and clean routines themselves are stubbed here (recorded); they
// are exercised from real code in zz_verif_vdr_kill.go.

import (
	"errors"
	"os"

	"github.com/martian-lang/martian/martian/syntax"
)

var (
	vdFullKill    int  // vdrKill calls
	vdSomeDone    int  // vdrKillSome(done=true)
	vdSomePartial int  // vdrKillSome(done=false)
	vdKillNil     bool // vdrKill(nil)
	vdPhases      []string
	vdAlready     bool // a _vdrkill report already exists
	vdPartialNil  bool
	vdPartial     PartialVdrKillReport
	vdForceSet    bool
	vdForceVal    bool
)

//verif:stub (*github.com/martian-lang/martian/martian/core.Fork).vdrKill
func vdVdrKill(self *Fork, partial *PartialVdrKillReport) *VDRKillReport {
	vdFullKill++
	vdKillNil = partial == nil
	return &VDRKillReport{}
}

//verif:stub (*github.com/martian-lang/martian/martian/core.Fork).vdrKillSome
func vdVdrKillSome(self *Fork, partial *PartialVdrKillReport, done bool) (*VDRKillReport, bool) {
	if done {
		vdSomeDone++
	} else {
		vdSomePartial++
	}
	return &VDRKillReport{}, done
}

func vdPhase(p *PartialVdrKillReport, name string) *PartialVdrKillReport {
	if p == nil {
		p = new(PartialVdrKillReport)
	}
	vdPhases = append(vdPhases, name)
	switch name {
	case "split":
		p.Split = true
	case "chunks":
		p.Chunks = true
	default:
		p.Join = true
	}
	return p
}

//verif:stub (*github.com/martian-lang/martian/martian/core.Fork).cleanSplitTemp
func vdCleanSplit(self *Fork, p *PartialVdrKillReport) *PartialVdrKillReport { return vdPhase(p, "split") }

//verif:stub (*github.com/martian-lang/martian/martian/core.Fork).cleanChunkTemp
func vdCleanChunk(self *Fork, p *PartialVdrKillReport) *PartialVdrKillReport { return vdPhase(p, "chunks") }

//verif:stub (*github.com/martian-lang/martian/martian/core.Fork).cleanJoinTemp
func vdCleanJoin(self *Fork, p *PartialVdrKillReport) *PartialVdrKillReport { return vdPhase(p, "join") }

//verif:stub (*github.com/martian-lang/martian/martian/core.Fork).getVdrKillReport
func vdGetReport(self *Fork) (*VDRKillReport, bool) { return &VDRKillReport{}, vdAlready }

//verif:stub (*github.com/martian-lang/martian/martian/core.Fork).getPartialKillReport
func vdGetPartial(self *Fork) *PartialVdrKillReport {
	if vdPartialNil {
		return nil
	}
	p := vdPartial
	return &p
}

//verif:stub (*github.com/martian-lang/martian/martian/core.PipestanceOverrides).GetForceVolatile
func vdForce(self *PipestanceOverrides, node string, def bool) bool {
	if vdForceSet {
		return vdForceVal
	}
	return def
}

//verif:stub (*github.com/martian-lang/martian/martian/core.Metadata)._removeNoLock
func vdRemoveNoLock(self *Metadata, name MetadataFileName) error {
	self._uncacheNoLock(name)
	return nil
}

//verif:stub os.Remove
func vdRemove(name string) error { return errors.New("stub") }

var _ = os.Remove

type vdWorld struct {
	top      *TopNode
	prod     *Node
	fork     *Fork
	x, y     *Node
	inX, inY [2]bool // consumer holds argument a1 / a2
	inNil    [2]bool // top-level / retain holds a1 / a2
}

var vdArgs = []string{"a1", "a2"}

// vdMakeWorld: producer stage fork with arbitrary sentinel files, two
// consumer nodes X, Y with arbitrary coarse state, and arbitrary membership
// of the keep-alive relation (consistent by construction:
// node in fileArgs[a] <=> a in filePostNodes[node]).
func vdMakeWorld(split bool, withOverrides bool) *vdWorld {
	disableUniquification = false
	w := &vdWorld{top: vsTop()}
	w.top.rt.Config.VdrMode = VdrRolling
	if verifBool("vdr.strict") {
		w.top.rt.Config.VdrMode = VdrStrict
	}
	w.top.rt.overrides = &PipestanceOverrides{}
	w.prod, w.fork = vsStageNode(w.top, "PROD", split)
	if withOverrides {
		w.prod.call.Call().Modifiers.Volatile = verifBool("prod.volatile")
	}
	w.x, _ = vsStageNode(w.top, "X", false)
	w.y, _ = vsStageNode(w.top, "Y", false)
	vdCoarse(w.x.forks[0], "X")
	vdCoarse(w.y.forks[0], "Y")
	f := w.fork
	// producer: coarse phase bits (failed / complete / disabled on the fork,
	// split and join complete, one chunk complete)
	vdCoarse(f, "P")
	verifMapSetIf(f.split_metadata.contents, CompleteFile, struct{}{}, verifBool("P.split.complete"))
	verifMapSetIf(f.join_metadata.contents, CompleteFile, struct{}{}, verifBool("P.join.complete"))
	verifMapSetIf(f.join_metadata.contents, Errors, struct{}{}, verifBool("P.join.errors"))
	f.fileArgs = map[string]map[Nodable]struct{}{}
	f.filePostNodes = map[Nodable]map[string]syntax.Type{}
	add := func(node Nodable, arg string) {
		if f.fileArgs[arg] == nil {
			f.fileArgs[arg] = map[Nodable]struct{}{}
		}
		f.fileArgs[arg][node] = struct{}{}
		if f.filePostNodes[node] == nil {
			f.filePostNodes[node] = map[string]syntax.Type{}
		}
		f.filePostNodes[node][arg] = nil
	}
	for i, a := range vdArgs {
		// quick shape: X may hold a1; Y may hold a1 and a2; the top level may hold a2
		if (withOverrides || i == 0) && verifBool("X.holds."+a) {
			w.inX[i] = true
			add(w.x, a)
		}
		if verifBool("Y.holds." + a) {
			w.inY[i] = true
			add(w.y, a)
		}
		if (withOverrides || i == 1) && verifBool("top.holds."+a) {
			w.inNil[i] = true
			add(nil, a)
		}
	}
	vdAlready = verifBool("vdrkill.exists")
	vdPartialNil = verifBool("partial.nil")
	vdPartial = PartialVdrKillReport{Split: verifBool("partial.split"), Chunks: verifBool("partial.chunks"), Join: verifBool("partial.join")}
	if withOverrides {
		vdForceSet = verifBool("override.set")
		vdForceVal = verifBool("override.value")
	} else {
		vdForceSet, vdForceVal = false, false
	}
	return w
}

func vdCoarse(f *Fork, tag string) {
	verifMapSetIf(f.metadata.contents, Errors, struct{}{}, verifBool(tag+".errors"))
	verifMapSetIf(f.metadata.contents, CompleteFile, struct{}{}, verifBool(tag+".complete"))
	verifMapSetIf(f.metadata.contents, DisabledFile, struct{}{}, verifBool(tag+".disabled"))
}

func vdNodeDone(n *Node) bool {
	s := n.getState()
	return s == Complete || s == DisabledState
}

// H_C04_partialKill: Fork.partialVdrKill from any state.
//
//	C04: a full kill of a completed fork happens only if it has not failed and
//	     every call that was bound to one of its file outputs is complete or
//	     disabled, and never while the top-level outputs / a retain hold one;
//	     a consumer that is done releases exactly its own holds; nothing is
//	     killed for a failed fork.
//	C14: split, chunk and join temp directories are cleaned in the phases the
//	     property names, each at most once (a phase recorded in the partial
//	     report is not repeated after a restart).
func H_C04_partialKill(splitI int, overrides int) {
	w := vdMakeWorld(splitI != 0, overrides != 0)
	f := w.fork
	st := f.getState()
	xDone, yDone := vdNodeDone(w.x), vdNodeDone(w.y)
	anyTop := w.inNil[0] || w.inNil[1]
	xHolds, yHolds := w.inX[0] || w.inX[1], w.inY[0] || w.inY[1]
	_, _ = f.partialVdrKill()
	verifCover("partial vdr ran")
	full := vdFullKill > 0 || vdSomeDone > 0
	if st.IsFailed() {
		verifCover("failed producer")
		verifAssert(!full && vdSomePartial == 0 && len(vdPhases) == 0, "C04: nothing is removed for a failed fork")
	}
	if full && st != DisabledState {
		verifCover("full kill")
		verifAssert(st == Complete, "C04: only a completed fork is fully killed")
		verifAssert(!anyTop, "C04: no full kill while a top-level output or retain holds a file argument")
		verifAssert(!xHolds || xDone, "C04: no full kill while a consumer bound to a file output is unfinished (X)")
		verifAssert(!yHolds || yDone, "C04: no full kill while a consumer bound to a file output is unfinished (Y)")
	}
	if st == DisabledState {
		verifAssert(vdFullKill == 1 && vdKillNil, "a disabled fork (all outputs null) is swept")
	}
	// bookkeeping after the call: finished consumers released, others kept
	if st == Complete && !vdAlready {
		_, xStill := f.filePostNodes[w.x]
		_, yStill := f.filePostNodes[w.y]
		verifAssert(xStill == (xHolds && !xDone), "C04: exactly the finished consumers are released (X)")
		verifAssert(yStill == (yHolds && !yDone), "C04: exactly the finished consumers are released (Y)")
		_, topStill := f.filePostNodes[nil]
		verifAssert(topStill == anyTop, "C04: a top-level / retain hold is never released")
		for i, a := range vdArgs {
			holders, ok := f.fileArgs[a]
			wantX, wantY, wantTop := w.inX[i] && !xDone, w.inY[i] && !yDone, w.inNil[i]
			verifAssert(ok == (wantX || wantY || wantTop), "C04: an argument stays held exactly while some unfinished consumer or the top level holds it")
			if ok {
				_, hx := holders[w.x]
				_, hy := holders[w.y]
				_, ht := holders[nil]
				verifAssert(hx == wantX && hy == wantY && ht == wantTop, "C04: fileArgs and filePostNodes stay consistent")
			}
		}
	}
	// ---- C14 phases
	had := func(name string) bool {
		if vdPartialNil {
			return false
		}
		switch name {
		case "split":
			return vdPartial.Split
		case "chunks":
			return vdPartial.Chunks
		}
		return vdPartial.Join
	}
	count := map[string]int{}
	for _, p := range vdPhases {
		count[p]++
	}
	for _, p := range []string{"split", "chunks", "join"} {
		verifAssert(count[p] <= 1, "C14: each temp-cleaning phase runs at most once per call")
		if had(p) {
			verifAssert(count[p] == 0, "C14: a phase already recorded in the partial report is not cleaned (counted) again")
		}
	}
	if st == Complete && !vdAlready {
		verifCover("complete producer")
		verifAssert(had("chunks") || count["chunks"] == 1, "C14: chunk temp directories are cleaned by the time the fork is complete")
		verifAssert(had("join") || count["join"] == 1, "C14: the join temp directory is cleaned by the time the fork is complete")
		if w.fork.Split() {
			verifAssert(had("split") || count["split"] == 1, "C14: the split temp directory is cleaned by the time the fork is complete")
		}
	}
	if count["split"] == 1 {
		verifAssert(w.fork.Split(), "C14: only splitting stages have a split temp directory to clean")
	}
}
