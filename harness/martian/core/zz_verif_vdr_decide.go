package core

// C04 (decision) / C14 (phases) — Fork.partialVdrKill: when does volatile
// data removal run a full kill, and which temp-cleaning phases run, from an
// arbitrary state of the producer fork and of the calls bound to its outputs.
// The kill and clean routines themselves are stubbed here (recorded); they
// are exercised from real code in zz_verif_vdr_kill.go.

import (
	"context"
	"encoding/json"
	"errors"
	"os"
	"runtime/trace"

	"github.com/martian-lang/martian/martian/syntax"
)

var (
	vdFullKill    int  // vdrKill calls
	vdSomeDone    int  // vdrKillSome(done=true)
	vdSomePartial int  // vdrKillSome(done=false)
	vdKillNil     bool // vdrKill(nil)
	vdPhases      []string
	vdAlready     bool // a _vdrkill report already exists
	vdPartialNil  bool
	vdPartial     PartialVdrKillReport
	vdForceSet    bool
	vdForceVal    bool
	vdKilledForks []*Fork // forks whose final kill ran (vdrKill / vdrKillSome(done))
)

//verif:stub (*github.com/martian-lang/martian/martian/core.Fork).vdrKill
func vdVdrKill(self *Fork, partial *PartialVdrKillReport) *VDRKillReport {
	vdFullKill++
	vdKilledForks = append(vdKilledForks, self)
	vdKillNil = partial == nil
	return &VDRKillReport{}
}

//verif:stub (*github.com/martian-lang/martian/martian/core.Fork).vdrKillSome
func vdVdrKillSome(self *Fork, partial *PartialVdrKillReport, done bool) (*VDRKillReport, bool) {
	if done {
		vdSomeDone++
		vdKilledForks = append(vdKilledForks, self)
	} else {
		vdSomePartial++
	}
	return &VDRKillReport{}, done
}

func vdPhase(p *PartialVdrKillReport, name string) *PartialVdrKillReport {
	if p == nil {
		p = new(PartialVdrKillReport)
	}
	vdPhases = append(vdPhases, name)
	switch name {
	case "split":
		p.Split = true
	case "chunks":
		p.Chunks = true
	default:
		p.Join = true
	}
	return p
}

//verif:stub (*github.com/martian-lang/martian/martian/core.Fork).cleanSplitTemp
func vdCleanSplit(self *Fork, p *PartialVdrKillReport) *PartialVdrKillReport {
	return vdPhase(p, "split")
}

//verif:stub (*github.com/martian-lang/martian/martian/core.Fork).cleanChunkTemp
func vdCleanChunk(self *Fork, p *PartialVdrKillReport) *PartialVdrKillReport {
	return vdPhase(p, "chunks")
}

//verif:stub (*github.com/martian-lang/martian/martian/core.Fork).cleanJoinTemp
func vdCleanJoin(self *Fork, p *PartialVdrKillReport) *PartialVdrKillReport {
	return vdPhase(p, "join")
}

//verif:stub (*github.com/martian-lang/martian/martian/core.Fork).getVdrKillReport
func vdGetReport(self *Fork) (*VDRKillReport, bool) { return &VDRKillReport{}, vdAlready }

//verif:stub (*github.com/martian-lang/martian/martian/core.Fork).getPartialKillReport
func vdGetPartial(self *Fork) *PartialVdrKillReport {
	if vdPartialNil {
		return nil
	}
	p := vdPartial
	return &p
}

//verif:stub (*github.com/martian-lang/martian/martian/core.PipestanceOverrides).GetForceVolatile
func vdForce(self *PipestanceOverrides, node string, def bool) bool {
	if vdForceSet {
		return vdForceVal
	}
	return def
}

//verif:stub (*github.com/martian-lang/martian/martian/core.Metadata)._removeNoLock
func vdRemoveNoLock(self *Metadata, name MetadataFileName) error {
	self._uncacheNoLock(name)
	return nil
}

//verif:stub os.Remove
func vdRemove(name string) error { return errors.New("stub") }

type vdWorld struct {
	top      *TopNode
	prod     *Node
	fork     *Fork
	x, y     *Node
	inX, inY [2]bool // consumer holds argument a1 / a2
	inNil    [2]bool // top-level / retain holds a1 / a2
}

var vdArgs = []string{"a1", "a2"}

// vdMakeWorld: producer stage fork with arbitrary sentinel files, two
// consumer nodes X, Y with arbitrary coarse state, and arbitrary membership
// of the keep-alive relation (consistent by construction, the way
// attachToFileParents / setupRetains build it: for a call,
// node in fileArgs[a] <=> a in filePostNodes[node]; the top level / a retain
// appears in fileArgs only).
func vdMakeWorld(split bool, withOverrides bool) *vdWorld {
	disableUniquification = false
	w := &vdWorld{top: vsTop()}
	w.top.rt.Config.VdrMode = VdrRolling
	if verifBool("vdr.strict") {
		w.top.rt.Config.VdrMode = VdrStrict
	}
	w.top.rt.overrides = &PipestanceOverrides{}
	w.prod, w.fork = vsStageNode(w.top, "PROD", split)
	if withOverrides {
		w.prod.call.Call().Modifiers.Volatile = verifBool("prod.volatile")
	}
	w.x, _ = vsStageNode(w.top, "X", false)
	w.y, _ = vsStageNode(w.top, "Y", false)
	vdCoarse(w.x.forks[0], "X")
	vdCoarse(w.y.forks[0], "Y")
	f := w.fork
	// producer: coarse phase bits (failed / complete / disabled on the fork,
	// split and join complete, one chunk complete)
	vdCoarse(f, "P")
	verifMapSetIf(f.split_metadata.contents, CompleteFile, struct{}{}, verifBool("P.split.complete"))
	verifMapSetIf(f.join_metadata.contents, CompleteFile, struct{}{}, verifBool("P.join.complete"))
	verifMapSetIf(f.join_metadata.contents, Errors, struct{}{}, verifBool("P.join.errors"))
	f.fileArgs = map[string]map[Nodable]struct{}{}
	f.filePostNodes = map[Nodable]map[string]syntax.Type{}
	add := func(node Nodable, arg string) {
		if f.fileArgs[arg] == nil {
			f.fileArgs[arg] = map[Nodable]struct{}{}
		}
		f.fileArgs[arg][node] = struct{}{}
		if node == nil {
			// the top level / a retain is recorded in fileArgs only
			// (attachToFileParents, setupRetains): it never counts as "done"
			return
		}
		if f.filePostNodes[node] == nil {
			f.filePostNodes[node] = map[string]syntax.Type{}
		}
		f.filePostNodes[node][arg] = nil
	}
	for i, a := range vdArgs {
		// quick shape: X may hold a1; Y may hold a1 and a2; the top level may hold a2
		if (withOverrides || i == 0) && verifBool("X.holds."+a) {
			w.inX[i] = true
			add(w.x, a)
		}
		if verifBool("Y.holds." + a) {
			w.inY[i] = true
			add(w.y, a)
		}
		if (withOverrides || i == 1) && verifBool("top.holds."+a) {
			w.inNil[i] = true
			add(nil, a)
		}
	}
	vdAlready = verifBool("vdrkill.exists")
	vdPartialNil = verifBool("partial.nil")
	vdPartial = PartialVdrKillReport{Split: verifBool("partial.split"), Chunks: verifBool("partial.chunks"), Join: verifBool("partial.join")}
	if withOverrides {
		vdForceSet = verifBool("override.set")
		vdForceVal = verifBool("override.value")
	} else {
		vdForceSet, vdForceVal = false, false
	}
	return w
}

func vdCoarse(f *Fork, tag string) {
	verifMapSetIf(f.metadata.contents, Errors, struct{}{}, verifBool(tag+".errors"))
	verifMapSetIf(f.metadata.contents, CompleteFile, struct{}{}, verifBool(tag+".complete"))
	verifMapSetIf(f.metadata.contents, DisabledFile, struct{}{}, verifBool(tag+".disabled"))
}

func vdNodeDone(n *Node) bool {
	s := n.getState()
	return s == Complete || s == DisabledState
}

// H_C04_partialKill: Fork.partialVdrKill from any state.
//
//	C04: a full kill of a completed fork happens only if it has not failed and
//	     every call that was bound to one of its file outputs is complete or
//	     disabled, and never while the top-level outputs / a retain hold one;
//	     a consumer that is done releases exactly its own holds; nothing is
//	     killed for a failed fork.
//	C14: split, chunk and join temp directories are cleaned in the phases the
//	     property names, each at most once (a phase recorded in the partial
//	     report is not repeated after a restart).
func H_C04_partialKill(splitI int, overrides int) {
	w := vdMakeWorld(splitI != 0, overrides != 0)
	f := w.fork
	st := f.getState()
	xDone, yDone := vdNodeDone(w.x), vdNodeDone(w.y)
	xHolds, yHolds := w.inX[0] || w.inX[1], w.inY[0] || w.inY[1]
	_, _ = f.partialVdrKill()
	verifCover("partial vdr ran")
	full := vdFullKill > 0 || vdSomeDone > 0
	if st.IsFailed() {
		verifCover("failed producer")
		verifAssert(!full && vdSomePartial == 0 && len(vdPhases) == 0, "C04: nothing is removed for a failed fork")
	}
	if full && st != DisabledState {
		verifCover("full kill")
		verifAssert(st == Complete, "C04: only a completed fork is fully killed")
		verifAssert(!xHolds || xDone, "C04: no full kill while a consumer bound to a file output is unfinished (X)")
		verifAssert(!yHolds || yDone, "C04: no full kill while a consumer bound to a file output is unfinished (Y)")
	}
	if st == DisabledState {
		verifAssert(vdFullKill == 1 && vdKillNil, "a disabled fork (all outputs null) is swept")
	}
	// bookkeeping after the call: finished consumers released, others kept
	if st == Complete && !vdAlready {
		_, xStill := f.filePostNodes[w.x]
		_, yStill := f.filePostNodes[w.y]
		verifAssert(xStill == (xHolds && !xDone), "C04: exactly the finished consumers are released (X)")
		verifAssert(yStill == (yHolds && !yDone), "C04: exactly the finished consumers are released (Y)")
		_, topInPost := f.filePostNodes[nil]
		verifAssert(!topInPost, "C04: the top level never becomes a post-node (it is never done)")
		for i, a := range vdArgs {
			holders, ok := f.fileArgs[a]
			wantX, wantY, wantTop := w.inX[i] && !xDone, w.inY[i] && !yDone, w.inNil[i]
			verifAssert(ok == (wantX || wantY || wantTop), "C04: an argument stays held exactly while some unfinished consumer or the top level holds it")
			if ok {
				_, hx := holders[w.x]
				_, hy := holders[w.y]
				_, ht := holders[nil]
				verifAssert(hx == wantX && hy == wantY && ht == wantTop, "C04: fileArgs and filePostNodes stay consistent")
			}
		}
	}
	// ---- C14 phases
	had := func(name string) bool {
		if vdPartialNil {
			return false
		}
		switch name {
		case "split":
			return vdPartial.Split
		case "chunks":
			return vdPartial.Chunks
		}
		return vdPartial.Join
	}
	count := map[string]int{}
	for _, p := range vdPhases {
		count[p]++
	}
	for _, p := range []string{"split", "chunks", "join"} {
		verifAssert(count[p] <= 1, "C14: each temp-cleaning phase runs at most once per call")
		if had(p) {
			verifAssert(count[p] == 0, "C14: a phase already recorded in the partial report is not cleaned (counted) again")
		}
	}
	if st == Complete && !vdAlready {
		verifCover("complete producer")
		verifAssert(had("chunks") || count["chunks"] == 1, "C14: chunk temp directories are cleaned by the time the fork is complete")
		verifAssert(had("join") || count["join"] == 1, "C14: the join temp directory is cleaned by the time the fork is complete")
		if w.fork.Split() {
			verifAssert(had("split") || count["split"] == 1, "C14: the split temp directory is cleaned by the time the fork is complete")
		}
	}
	if count["split"] == 1 {
		verifAssert(w.fork.Split(), "C14: only splitting stages have a split temp directory to clean")
	}
}

// ---- the keep-alive relation built by the real compiler and runtime ----

//verif:stub os.Stat
func vdStat(name string) (os.FileInfo, error) { return nil, errors.New("no such file") }

//verif:stub os.ReadFile
func vdReadFile(name string) ([]byte, error) { return nil, os.ErrNotExist }

//verif:stub runtime/trace.StartRegion
func vdStartRegion(ctx context.Context, regionType string) *trace.Region { return nil }

//verif:stub (*runtime/trace.Region).End
func vdRegionEnd(r *trace.Region) {}

const vdRealSrc = `
filetype txt;

stage G(
    in  int x,
    out txt f,
    out txt g,
    out int n,
    src comp "bin",
)

stage H(
    in  txt f,
    out int o,
    src comp "bin",
)

stage I(
    in  txt g,
    out int o,
    src comp "bin",
)

stage J(
    in  int n,
    out int o,
    src comp "bin",
)

stage K(
    in  int x,
    out txt t,
    out txt u,
    src comp "bin",
)

stage L(
    in  txt t,
    in  txt u,
    out int o,
    src comp "bin",
)

stage M(
    in  txt u,
    out int o,
    src comp "bin",
)

pipeline INNER(
    in  txt u,
    out int o,
)
{
    call M(
        u = self.u,
    )

    return (
        o = M.o,
    )
}

pipeline P(
    in  int x,
    out txt keep,
    out int o,
)
{
    call G(
        x = self.x,
    )

    call H(
        f = G.f,
    )

    call I(
        g = G.g,
    )

    call J(
        n = G.n,
    )

    call K(
        x = J.o,
    )

    call L(
        t = K.t,
        u = K.u,
    )

    call INNER(
        u = K.u,
    )

    return (
        keep = G.f,
        o    = INNER.o,
    )
}

call P(
    x = 1,
)
`

type vdReal struct {
	ps                  *Pipestance
	g, h, i, j, k, l, m *Node
}

func vdRealGraph() *vdReal {
	disableUniquification = false
	return verifCached("vdRealGraph", func() any {
		rt := vsRuntime()
		rt.Config.VdrMode = VdrRolling
		rt.overrides = &PipestanceOverrides{}
		_, _, ps, err := rt.instantiatePipeline([]byte(vdRealSrc), "/m/p.mro", "ps", "/ps", nil, "none", nil, false, true, context.Background())
		if err != nil {
			panic("fixture does not instantiate: " + err.Error())
		}
		n := func(name string) *Node {
			x := ps.node.top.allNodes["ID.ps.P."+name]
			if x == nil {
				panic("fixture has no node " + name)
			}
			return x
		}
		return &vdReal{ps, n("G"), n("H"), n("I"), n("J"), n("K"), n("L"), n("INNER.M")}
	}).(*vdReal)
}

func vdHolders(f *Fork, arg string) (set map[Nodable]struct{}) { return f.fileArgs[arg] }

// H_C04_realKeepAlive(which): the keep-alive relation (fileArgs /
// filePostNodes) as the real compiler, NewPipestance, attachToFileParents and
// setupRetains build it from MRO text, and Fork.partialVdrKill on it for
// producer G (which = 0: a file output is also a pipeline output) or K
// (which = 1: outputs consumed by L and, through a sub-pipeline, by M) from
// arbitrary coarse states of producers and consumers.
//
//	C04: every call the text binds to a file output holds it until it is done
//	     (also a call inside a sub-pipeline the file is passed down to); a
//	     pipeline output is held by the top level for ever; a full kill happens
//	     only when the producer completed and every such call is complete or
//	     disabled.
//	C14: nothing but top-level outputs / retains is held for ever; finished
//	     calls are released; when all holders are done the full kill runs.
func H_C04_realKeepAlive(which int) {
	w := vdRealGraph()
	vdFullKill, vdSomeDone, vdSomePartial, vdKillNil, vdPhases = 0, 0, 0, false, nil
	vdAlready, vdPartialNil, vdForceSet, vdForceVal = false, true, false, false
	gf, kf := w.g.forks[0], w.k.forks[0]
	// the relation as built.  attachToFileParents records the top-level
	// pipeline's hold under a typed nil (*Node)(nil) key; retains use the nil
	// interface: both are "a holder that is never done"
	var topHold Nodable = (*Node)(nil)
	has := func(f *Fork, arg string, n Nodable) bool {
		_, ok := f.fileArgs[arg][n]
		return ok
	}
	top := func(f *Fork, arg string) bool { return has(f, arg, topHold) || has(f, arg, nil) }
	verifAssert(has(gf, "f", w.h) && has(gf, "g", w.i) && has(kf, "t", w.l) && has(kf, "u", w.l), "C04: every call bound to a file output holds it")
	verifAssert(has(kf, "u", w.m), "C04: a call inside a sub-pipeline holds the file passed down to it")
	verifAssert(top(gf, "f"), "C04: a file named by a top-level pipeline output is held by the top level")
	verifAssert(!top(gf, "g") && !top(kf, "t") && !top(kf, "u"), "C14: only top-level outputs and retained files are held for ever")
	for _, f := range []*Fork{gf, kf} {
		for n, args := range f.filePostNodes {
			verifAssert(n != nil && n.getNode() != nil, "C14: every post-node is a call that finishes")
			for a := range args {
				verifAssert(has(f, a, n), "C04: filePostNodes and fileArgs agree")
			}
		}
	}
	for _, n := range []*Node{w.g, w.h, w.i, w.j, w.k, w.l, w.m} {
		vdCoarse(n.forks[0], n.call.Call().Id)
	}
	prod := []*Node{w.g, w.k}[which]
	f := prod.forks[0]
	st := f.getState()
	_, _ = f.partialVdrKill()
	verifCover("real partial vdr ran")
	full := vdFullKill > 0 || vdSomeDone > 0
	if st.IsFailed() {
		verifAssert(!full && vdSomePartial == 0, "C04: nothing is removed for a failed fork")
	}
	if st != DisabledState {
		if which == 0 {
			hDone, iDone := vdNodeDone(w.h), vdNodeDone(w.i)
			if full {
				verifCover("real full kill with top-level hold")
				verifAssert(st == Complete, "C04: only a completed fork is fully killed")
				verifAssert(hDone && iDone, "C04: no full kill while a call bound to a file output is unfinished")
			}
			if st == Complete {
				verifCover("real producer complete")
				// the per-file kill keeps what fileArgs still lists (H_C04_killSome)
				verifAssert(top(f, "f"), "C04: the top-level hold on a pipeline output is never released")
				verifAssert(hDone || has(f, "f", w.h), "C04: H holds G.f until it is done")
				verifAssert(iDone || has(f, "g", w.i), "C04: I holds G.g until it is done")
				_, gHeld := f.fileArgs["g"]
				verifAssert(!iDone || !gHeld, "C14: G.g is released once I is done")
			}
		} else {
			lDone, mDone := vdNodeDone(w.l), vdNodeDone(w.m)
			if full {
				verifCover("real full kill")
				verifAssert(st == Complete, "C04: only a completed fork is fully killed")
				verifAssert(lDone && mDone, "C04: no full kill while a call bound to a file output is unfinished")
			}
			if st == Complete && lDone && mDone {
				verifAssert(full, "C14: once every holder is done the fork is fully reclaimed")
			}
			if st == Complete && !(lDone && mDone) {
				verifCover("real producer held")
				verifAssert(mDone || has(f, "u", w.m), "C04: M (in the sub-pipeline) holds K.u until it is done")
				verifAssert(lDone || (has(f, "t", w.l) && has(f, "u", w.l)), "C04: L holds K.t and K.u until it is done")
				verifAssert(!lDone || !has(f, "t", w.l), "C14: a finished call is released")
			}
		}
	}
}

// ---- the per-node sweep: every fork of a mapped call is swept ----

type vdFileInfo struct{ os.FileInfo }

func (vdFileInfo) Mode() os.FileMode { return os.ModeDir | 0o755 }

//verif:stub os.Lstat
func vdLstat(name string) (os.FileInfo, error) { return vdFileInfo{}, nil }

const vdSweepSrc = `
filetype txt;

stage N(
    in  int x,
    out txt t,
    src comp "bin",
)

stage USE(
    in  txt[] ts,
    out int   o,
    src comp  "bin",
)

pipeline P(
    out int o,
)
{
    map call N(
        x = split [
            1,
            2,
            3,
        ],
    )

    call USE(
        ts = N.t,
    )

    return (
        o = USE.o,
    )
}

call P()
`

type vdSweep struct {
	ps     *Pipestance
	n, use *Node
}

func vdSweepGraph() *vdSweep {
	disableUniquification = false
	return verifCached("vdSweepGraph", func() any {
		rt := vsRuntime()
		rt.Config.VdrMode = VdrRolling
		rt.overrides = &PipestanceOverrides{}
		_, _, ps, err := rt.instantiatePipeline([]byte(vdSweepSrc), "/m/p.mro", "ps", "/ps", nil, "none", nil, false, true, context.Background())
		if err != nil {
			panic("fixture does not instantiate: " + err.Error())
		}
		return &vdSweep{ps, ps.node.top.allNodes["ID.ps.P.N"], ps.node.top.allNodes["ID.ps.P.USE"]}
	}).(*vdSweep)
}

// H_C14_nodeSweep: Node.vdrKill (the per-node body of the rolling sweep and of
// the final Pipestance.VDRKill) on a call mapped over three elements, the
// forks and the consumer in arbitrary coarse states.
//
//	C14: every fork that may be reclaimed (complete, its consumer done) is
//	     swept by this one call, whatever state its sibling forks are in; the
//	     node reports done only if every fork is.
//	C04: a fork is not finally killed while the consumer of its file is
//	     unfinished.
func H_C14_nodeSweep() {
	w := vdSweepGraph()
	vdFullKill, vdSomeDone, vdSomePartial, vdKillNil, vdPhases, vdKilledForks = 0, 0, 0, false, nil, nil
	vdAlready, vdPartialNil, vdForceSet, vdForceVal = false, true, false, false
	verifAssert(len(w.n.forks) == 3, "C03: three forks")
	for i, f := range w.n.forks {
		vdCoarse(f, "N"+string(rune('0'+i)))
	}
	vdCoarse(w.use.forks[0], "USE")
	useDone := vdNodeDone(w.use)
	var st [3]MetadataState
	for i, f := range w.n.forks {
		st[i] = f.getState()
	}
	_, allDone := w.n.vdrKill()
	verifCover("node swept")
	killed := func(f *Fork) bool {
		for _, k := range vdKilledForks {
			if k == f {
				return true
			}
		}
		return false
	}
	every := true
	for i, f := range w.n.forks {
		if st[i] == Complete && useDone {
			verifCover("reclaimable fork")
			verifAssert(killed(f), "C14: every reclaimable fork of a mapped call is swept, whatever its siblings are doing")
		}
		if st[i] == Complete && !useDone {
			verifAssert(!killed(f), "C04: a fork is not finally killed while the consumer of its file output is unfinished")
		}
		if !(killed(f) || st[i] == DisabledState) {
			every = false
		}
	}
	if allDone {
		verifAssert(every, "C14: the node reports its sweep done only when every fork was swept")
	}
}

// H_C14_nullSibling: a call mapped over three elements produces a file output
// consumed by USE.  Some forks produced no file (their output is null, so the
// runtime drops the argument from their keep-alive relation:
// removeEmptyFileArgs); the consumer then finishes.
//
//	C14: once the consumer is done, every fork that did produce the file
//	     releases it and is fully reclaimed — also when a sibling fork produced
//	     none.
//	C04: until the consumer is done every fork that produced the file keeps it
//	     held, whatever its siblings produced.
func H_C14_nullSibling() {
	w := vdSweepGraph()
	vdFullKill, vdSomeDone, vdSomePartial, vdKillNil, vdPhases, vdKilledForks = 0, 0, 0, false, nil, nil
	vdAlready, vdPartialNil, vdForceSet, vdForceVal = false, true, false, false
	var isNull [3]bool
	for i, f := range w.n.forks {
		f.metadata.contents[CompleteFile] = struct{}{}
		isNull[i] = verifBool("fork produced no file")
		if isNull[i] {
			f.removeEmptyFileArgs(LazyArgumentMap{"t": json.RawMessage("null")})
		} else {
			f.removeEmptyFileArgs(LazyArgumentMap{"t": json.RawMessage(`"/ps/P/N/fork` + string(rune('0'+i)) + `/files/t.txt"`)})
		}
	}
	has := func(f *Fork, n Nodable) bool {
		_, ok := f.fileArgs["t"][n]
		return ok
	}
	for i, f := range w.n.forks {
		if !isNull[i] {
			verifAssert(has(f, w.use), "C04: a fork that produced the file keeps it held for its unfinished consumer, whatever its siblings produced")
		}
	}
	// the consumer finishes; the sweep runs
	w.use.forks[0].metadata.contents[CompleteFile] = struct{}{}
	w.n.vdrKill()
	verifCover("swept after null sibling")
	for i, f := range w.n.forks {
		if !isNull[i] {
			verifCover("fork with a file")
			_, held := f.fileArgs["t"]
			verifAssert(!held, "C14: once its consumer is done a file output is released in every fork, also when a sibling fork produced no file")
			killed := false
			for _, k := range vdKilledForks {
				killed = killed || k == f
			}
			verifAssert(killed, "C14: the fork is then fully reclaimed")
		}
	}
}

// reference decoder for the one shape used above: a plain JSON string
//
//verif:stub encoding/json.Unmarshal
func vdUnmarshal(data []byte, v any) error {
	if p, ok := v.(*string); ok && len(data) >= 2 && data[0] == '"' && data[len(data)-1] == '"' {
		for _, c := range data[1 : len(data)-1] {
			if c == '\\' || c == '"' || c < 0x20 {
				panic("json model: only plain strings")
			}
		}
		*p = string(data[1 : len(data)-1])
		return nil
	}
	panic("json model: unsupported Unmarshal target")
}
