//verif:native

package syntax

import (
	"bytes"
	"strings"
	"unicode/utf8"
)

// C09 / C16 kernels — literals survive formatting and JSON encoding.

// toValidUTF8 replaces every byte that is not part of a valid UTF-8
// sequence by U+FFFD (Go's own decoding loop).
func toValidUTF8(s string) string {
	var out []byte
	for len(s) > 0 {
		r, w := utf8.DecodeRuneInString(s)
		if r == utf8.RuneError && w == 1 {
			out = append(out, 0xEF, 0xBF, 0xBD)
		} else {
			out = append(out, s[:w]...)
		}
		s = s[w:]
	}
	return string(out)
}

func quoted(s string) []byte {
	var sb strings.Builder
	quoteString(&sb, s)
	return []byte(sb.String())
}

// H_C09_quoteRoundTrip: for every string s of n bytes the literal the
// formatter writes is one string token and denotes s again (for bytes that
// are not valid UTF-8: the replacement character — see C09-nonutf8-literal).
func H_C09_quoteRoundTrip(n int) {
	s := verifString("s", n)
	q := quoted(s)
	tok, val := nextToken(q)
	verifCover("quoted literal")
	verifAssert(tok == LITSTRING && len(val) == len(q), "formatted literal is exactly one string token")
	if tok == LITSTRING && len(val) == len(q) {
		back := unquote(val)
		verifAssert(back == toValidUTF8(s), "unquote(quote(s)) == s (U+FFFD for invalid bytes)")
		// fixed point: formatting the re-read value gives the same text.
		// (Known finding C09-nonutf8-literal: an invalid byte becomes the text
		// \ufffd on the first pass and the raw character on the second.)
		if !verifKnown("C09-nonutf8-literal") || utf8.ValidString(s) {
			verifAssert(string(quoted(back)) == string(q), "quote(unquote(quote(s))) == quote(s)")
		}
	}
}

// atom appends one element of a string literal body: a raw byte, a simple
// escape, an octal escape or a hex escape — chosen by kind.
func c09Atom(buf []byte, name string, kind int) []byte {
	switch kind {
	case 0:
		c := verifByte(name)
		verifAssume(verifAll(c != '"', c != '\\'))
		return append(buf, c)
	case 1:
		c := verifByte(name)
		verifAssume(verifAny(c == 'a', c == 'b', c == 'f', c == 'n', c == 'r', c == 't', c == 'v', c == '\\', c == '"'))
		return append(buf, '\\', c)
	case 2:
		d := verifBytes(name, 3)
		for i := range d {
			verifAssume(verifAll(d[i] >= '0', d[i] <= '7'))
		}
		return append(append(buf, '\\'), d...)
	default:
		d := verifBytes(name, 2)
		for i := range d {
			verifAssume(verifAny(verifAll(d[i] >= '0', d[i] <= '9'), verifAll(d[i] >= 'a', d[i] <= 'f'), verifAll(d[i] >= 'A', d[i] <= 'F')))
		}
		return append(append(buf, '\\', 'x'), d...)
	}
}

// H_C09_literalValue: the value a source literal denotes survives
// formatting.  The literal has two atoms of the given kinds.
func H_C09_literalValue(k1, k2 int) {
	lit := []byte{'"'}
	lit = c09Atom(lit, "a1", k1)
	lit = c09Atom(lit, "a2", k2)
	lit = append(lit, '"')
	tok, val := nextToken(lit)
	verifAssume(tok == LITSTRING && len(val) == len(lit))
	v := unquote(val)
	verifCover("literal value")
	want := v
	if verifKnown("C09-nonutf8-literal") {
		want = toValidUTF8(v)
	}
	q := quoted(v)
	tok2, val2 := nextToken(q)
	verifAssert(tok2 == LITSTRING && len(val2) == len(q), "re-formatted literal is one string token")
	if tok2 == LITSTRING && len(val2) == len(q) {
		verifAssert(unquote(val2) == want, "the value a literal denotes survives formatting")
	}
}

// H_C09_srcFormat: a stage whose src string literal consists of two atoms is
// formatted to text that parses again to the same command path and arguments.
func H_C09_srcFormat(k1, k2 int) {
	lit := []byte{'"', 'x'}
	lit = c09Atom(lit, "a1", k1)
	lit = c09Atom(lit, "a2", k2)
	lit = append(lit, '"')
	tok, val := nextToken(lit)
	verifAssume(tok == LITSTRING && len(val) == len(lit))
	src := append(append([]byte("stage A(in int a, src comp "), lit...), []byte(",)")...)
	ast, err := yaccParse(src, &SourceFile{FileName: "x.mro", FullPath: "x.mro"}, makeStringIntern())
	verifAssume(err == nil)
	st := ast.Callables.List[0].(*Stage)
	verifAssume(utf8.ValidString(st.Src.Path))
	for _, a := range st.Src.Args {
		verifAssume(utf8.ValidString(a))
	}
	text := ast.format(false)
	verifCover("src formatted")
	ast2, err2 := yaccParse([]byte(text), &SourceFile{FileName: "x.mro", FullPath: "x.mro"}, makeStringIntern())
	verifAssert(err2 == nil, "formatted stage parses again")
	if err2 == nil {
		st2 := ast2.Callables.List[0].(*Stage)
		verifAssert(st2.Src.Path == st.Src.Path, "src path survives formatting")
		verifAssert(len(st2.Src.Args) == len(st.Src.Args), "src argument count survives formatting")
		if len(st2.Src.Args) == len(st.Src.Args) {
			for i := range st.Src.Args {
				verifAssert(st2.Src.Args[i] == st.Src.Args[i], "src arguments survive formatting")
			}
		}
	}
}

// H_C09_includeFormat: an include path of two atoms survives formatting.
func H_C09_includeFormat(k1, k2 int) {
	lit := []byte{'"', 'x'}
	lit = c09Atom(lit, "a1", k1)
	lit = c09Atom(lit, "a2", k2)
	lit = append(lit, '"')
	tok, val := nextToken(lit)
	verifAssume(tok == LITSTRING && len(val) == len(lit))
	src := append(append([]byte("@include "), lit...), []byte("\nfiletype f;\n")...)
	ast, err := yaccParse(src, &SourceFile{FileName: "x.mro", FullPath: "x.mro"}, makeStringIntern())
	verifAssume(err == nil && len(ast.Includes) == 1)
	verifAssume(utf8.ValidString(ast.Includes[0].Value))
	text := ast.format(true)
	verifCover("include formatted")
	ast2, err2 := yaccParse([]byte(text), &SourceFile{FileName: "x.mro", FullPath: "x.mro"}, makeStringIntern())
	verifAssert(err2 == nil, "formatted include parses again")
	if err2 == nil {
		verifAssert(len(ast2.Includes) == 1, "one include after formatting")
		if len(ast2.Includes) == 1 {
			verifAssert(ast2.Includes[0].Value == ast.Includes[0].Value, "include path survives formatting")
		}
	}
}

// ---------------------------------------------------------------- C16

// jsonStringDecode decodes one RFC 8259 string (section 7); ok=false if b is
// not exactly one well-formed JSON string.
func jsonStringDecode(b []byte) (out []byte, ok bool) {
	n := len(b)
	if n < 2 || b[0] != '"' {
		return nil, false
	}
	i := 1
	for i < n {
		c := b[i]
		switch {
		case c == '"':
			return out, i == n-1
		case c < 0x20:
			return nil, false
		case c == '\\':
			if i+1 >= n {
				return nil, false
			}
			d := b[i+1]
			switch d {
			case '"', '\\', '/':
				out = append(out, d)
			case 'b':
				out = append(out, '\b')
			case 'f':
				out = append(out, '\f')
			case 'n':
				out = append(out, '\n')
			case 'r':
				out = append(out, '\r')
			case 't':
				out = append(out, '\t')
			case 'u':
				if i+5 >= n {
					return nil, false
				}
				var r rune
				for k := 2; k < 6; k++ {
					h := b[i+k]
					var v byte
					switch {
					case h >= '0' && h <= '9':
						v = h - '0'
					case h >= 'a' && h <= 'f':
						v = h - 'a' + 10
					case h >= 'A' && h <= 'F':
						v = h - 'A' + 10
					default:
						return nil, false
					}
					r = r<<4 | rune(v)
				}
				if r >= 0xD800 && r <= 0xDFFF {
					return nil, false // surrogates: not produced by the encoder under test
				}
				var enc [4]byte
				w := utf8.EncodeRune(enc[:], r)
				out = append(out, enc[:w]...)
				i += 6
				continue
			default:
				return nil, false
			}
			i += 2
			continue
		default:
			out = append(out, c)
		}
		i++
	}
	return nil, false
}

// H_C16_stringJSON: a string expression of n arbitrary bytes encodes to one
// valid JSON string that decodes to the same text, and both encoders agree.
func H_C16_stringJSON(n int) {
	s := verifString("s", n)
	e := &StringExp{Value: s}
	var buf bytes.Buffer
	err := e.EncodeJSON(&buf)
	m, err2 := e.MarshalJSON()
	verifCover("string encoded")
	verifAssert(err == nil && err2 == nil, "string encoders do not fail")
	verifAssert(bytes.Equal(buf.Bytes(), m), "EncodeJSON and MarshalJSON agree on strings")
	out, ok := jsonStringDecode(buf.Bytes())
	verifAssert(ok, "encoded string is one well-formed JSON string")
	if ok {
		verifAssert(string(out) == toValidUTF8(s), "JSON string decodes to the original text")
		verifAssert(utf8.Valid(buf.Bytes()), "encoded JSON is valid UTF-8")
	}
}

// H_C16_mapJSON: a typed map with two arbitrary distinct keys encodes to an
// object whose keys decode to the originals, in sorted order, whatever the
// iteration order of the Go map.
func H_C16_mapJSON(n int) {
	k1 := verifString("k1", n)
	k2 := verifString("k2", n)
	verifAssume(k1 < k2)
	verifAssume(utf8.ValidString(k1))
	verifAssume(utf8.ValidString(k2))
	verifNondetMapOrder(true)
	e := &MapExp{Kind: KindMap, Value: map[string]Exp{k2: &NullExp{}, k1: &BoolExp{Value: true}}}
	var buf bytes.Buffer
	err := e.EncodeJSON(&buf)
	m, err2 := e.MarshalJSON()
	verifCover("map encoded")
	verifAssert(err == nil && err2 == nil, "map encoders do not fail")
	verifAssert(bytes.Equal(buf.Bytes(), m), "EncodeJSON and MarshalJSON agree on maps")
	want := append([]byte{'{'}, quoted(k1)...)
	want = append(want, []byte(":true,")...)
	want = append(want, quoted(k2)...)
	want = append(want, []byte(":null}")...)
	verifAssert(bytes.Equal(buf.Bytes(), want), "object is {k1:true,k2:null} with keys sorted and quoted")
}

// H_C16_scalarsJSON: booleans, null, arrays keep their shape.
func H_C16_scalarsJSON() {
	b := verifBool("b")
	arr := &ArrayExp{Value: []Exp{&BoolExp{Value: b}, &NullExp{}, &ArrayExp{Value: []Exp{}}, &MapExp{Kind: KindMap, Value: map[string]Exp{}}}}
	var buf bytes.Buffer
	err := arr.EncodeJSON(&buf)
	m, err2 := arr.MarshalJSON()
	verifCover("array encoded")
	verifAssert(err == nil && err2 == nil, "array encoders do not fail")
	verifAssert(bytes.Equal(buf.Bytes(), m), "EncodeJSON and MarshalJSON agree on arrays")
	if b {
		verifAssert(buf.String() == "[true,null,[],{}]", "array of scalars keeps its shape (true)")
	} else {
		verifAssert(buf.String() == "[false,null,[],{}]", "array of scalars keeps its shape (false)")
	}
}

// H_C09_intRoundTrip: an integer literal survives formatting: FormatInt,
// then the lexer, then parseInt is the identity on int64 (bound: |v| < 10^digits).
func H_C09_intRoundTrip(digits int) {
	v := verifInt64("v")
	lim := int64(1)
	for i := 0; i < digits && i < 18; i++ {
		lim *= 10
	}
	if digits < 19 {
		verifAssume(v > -lim && v < lim)
	}
	e := &IntExp{Value: v}
	var sb strings.Builder
	e.format(&sb, "")
	txt := []byte(sb.String())
	tok, val := nextToken(txt)
	verifCover("int formatted")
	verifAssert(tok == NUM_INT && len(val) == len(txt), "formatted integer is one NUM_INT token")
	if tok == NUM_INT && len(val) == len(txt) {
		verifAssert(parseInt(val) == v, "parseInt(FormatInt(v)) == v")
	}
	var buf bytes.Buffer
	err := e.EncodeJSON(&buf)
	verifAssert(err == nil && buf.String() == sb.String(), "JSON integer text equals the formatted literal")
}

// ---- C09/C10: stable topological sort of a pipeline's calls (formatter) ----

var c09CallIds = [6]string{"C0", "C1", "C2", "C3", "C4", "C5"}
var c09DepNames = [6][6]string{
	{"", "C0 uses C1", "C0 uses C2", "C0 uses C3", "C0 uses C4", "C0 uses C5"},
	{"C1 uses C0", "", "C1 uses C2", "C1 uses C3", "C1 uses C4", "C1 uses C5"},
	{"C2 uses C0", "C2 uses C1", "", "C2 uses C3", "C2 uses C4", "C2 uses C5"},
	{"C3 uses C0", "C3 uses C1", "C3 uses C2", "", "C3 uses C4", "C3 uses C5"},
	{"C4 uses C0", "C4 uses C1", "C4 uses C2", "C4 uses C3", "", "C4 uses C5"},
	{"C5 uses C0", "C5 uses C1", "C5 uses C2", "C5 uses C3", "C5 uses C4", ""},
}

// c09Wrap places the reference where the grammar can place one: directly, in
// an array, in a map, under a split, or in the disabled modifier.
func c09Wrap(call *CallStm, slot int, ref *RefExp) {
	id := "x" + c09CallIds[slot][1:]
	switch slot % 5 {
	case 0:
		call.Bindings.List = append(call.Bindings.List, &BindStm{Id: id, Exp: ref})
	case 1:
		call.Bindings.List = append(call.Bindings.List, &BindStm{Id: id,
			Exp: &ArrayExp{Value: []Exp{&IntExp{Value: 1}, ref}}})
	case 2:
		call.Bindings.List = append(call.Bindings.List, &BindStm{Id: id,
			Exp: &MapExp{Kind: KindMap, Value: map[string]Exp{"k": ref}}})
	case 3:
		call.Bindings.List = append(call.Bindings.List, &BindStm{Id: id,
			Exp: &SplitExp{Value: ref, Call: call}})
	case 4:
		call.Modifiers.Bindings = &BindStms{List: []*BindStm{{Id: "disabled", Exp: ref}}}
	}
}

// H_C09_topoSort: Pipeline.topoSort (what the formatter and the compiler use
// to order calls) on n calls with an arbitrary "uses an output of" relation,
// under every Go map iteration order (fixedOrder = 0) or one order.
//
//	C09: a cycle is an error and leaves a formatter warning; otherwise the
//	     result is a permutation with every call after the calls it uses, an
//	     order that is already topological is left alone, and sorting the
//	     result again changes nothing (formatting is idempotent).
//	C10: the result does not depend on map iteration order (asserted by
//	     running the sort twice on equal inputs).
func H_C09_topoSort(n int, fixedOrder int) {
	// fixedOrder != 0: maps iterate in insertion order only (larger n)
	verifNondetMapOrder(fixedOrder == 0)
	var uses [6][6]bool
	build := func() *Pipeline {
		p := &Pipeline{Id: "P"}
		for i := 0; i < n; i++ {
			p.Calls = append(p.Calls, &CallStm{Id: c09CallIds[i], DecId: "S" + c09CallIds[i][1:],
				Modifiers: &Modifiers{}, Bindings: &BindStms{}})
		}
		for i := 0; i < n; i++ {
			for j := 0; j < n; j++ {
				if uses[i][j] {
					c09Wrap(p.Calls[i], j, &RefExp{Kind: KindCall, Id: c09CallIds[j], OutputId: "o"})
				}
			}
		}
		return p
	}
	for i := 0; i < n; i++ {
		for j := 0; j < n; j++ {
			if i != j && verifBool(c09DepNames[i][j]) {
				uses[i][j] = true
			}
		}
	}
	// transitive closure: is there a cycle?
	reach := uses
	for k := 0; k < n; k++ {
		for i := 0; i < n; i++ {
			for j := 0; j < n; j++ {
				if reach[i][k] && reach[k][j] {
					reach[i][j] = true
				}
			}
		}
	}
	cyclic := false
	for i := 0; i < n; i++ {
		cyclic = cyclic || reach[i][i]
	}
	p := build()
	// C08: sorting 1..5 calls needs a few thousand steps; beyond the bound the
	// compiler does not terminate promptly
	verifStepLimit(300000)
	err := p.topoSort()
	verifStepLimit(0)
	verifCover("sorted")
	if cyclic {
		verifCover("cyclic dependency")
		verifAssert(err != nil, "C09: a dependency cycle is reported")
		return
	}
	verifAssert(err == nil, "C09: an acyclic pipeline sorts")
	if err != nil {
		return
	}
	pos := [6]int{-1, -1, -1, -1, -1, -1}
	verifAssert(len(p.Calls) == n, "C09: no call is lost or added")
	for k, c := range p.Calls {
		idx := int(c.Id[1] - '0')
		verifAssert(pos[idx] == -1, "C09: the sorted calls are a permutation")
		pos[idx] = k
	}
	alreadySorted := true
	for i := 0; i < n; i++ {
		for j := 0; j < n; j++ {
			if uses[i][j] {
				verifAssert(pos[j] < pos[i], "C09: every call comes after the calls whose outputs it uses")
				if j > i {
					alreadySorted = false
				}
			}
		}
	}
	if alreadySorted {
		verifCover("already sorted")
		for k, c := range p.Calls {
			verifAssert(c.Id == c09CallIds[k], "C09: calls already in dependency order are not reordered (stable)")
		}
	}
	// idempotent
	var first [6]string
	for k, c := range p.Calls {
		first[k] = c.Id
	}
	verifAssert(p.topoSort() == nil, "C09: sorting again succeeds")
	for k, c := range p.Calls {
		verifAssert(c.Id == first[k], "C09: sorting the sorted calls changes nothing (idempotent formatting)")
	}
	// deterministic
	q := build()
	verifAssert(q.topoSort() == nil, "C09/C10: second run sorts")
	for k, c := range q.Calls {
		verifAssert(c.Id == first[k], "C09/C10: the order does not depend on map iteration order")
	}
}

// ---- C09: comments on calls, with modifiers in both syntaxes ----

func c09CountSub(s, sub string) int {
	n := 0
	for i := 0; i+len(sub) <= len(s); i++ {
		if s[i:i+len(sub)] == sub {
			n++
		}
	}
	return n
}

// c09CountMod counts "<name> = true," allowing the formatter's alignment padding.
func c09CountMod(s, name string) int {
	n := 0
	for i := 0; i+len(name) <= len(s); i++ {
		if s[i:i+len(name)] != name {
			continue
		}
		j := i + len(name)
		for j < len(s) && s[j] == ' ' {
			j++
		}
		if j+7 <= len(s) && s[j:j+7] == "= true," {
			n++
		}
	}
	return n
}

// H_C09_callComment(mods, legacy, n): a pipeline whose single call carries a
// comment line of n arbitrary bytes and the modifier subset `mods` (bit 0
// local, 1 preflight, 2 volatile), written as legacy prefix keywords
// (legacy = 1) or in a using block (legacy = 0).
//
//	C09: formatting keeps the comment exactly once, keeps every modifier, and is
//	     idempotent (formatting the formatted text changes nothing).
func H_C09_callComment(mods, legacy, n int) {
	c := verifBytes("comment", n)
	for i := range c {
		// a comment runs to the end of the line; keep it printable so that it
		// cannot be mistaken for leading space by the test's own counting
		verifAssume(verifAll(c[i] != '\n', c[i] != '\r', c[i] >= 0x21, c[i] < 0x7f))
	}
	marker := "#Q" + string(c) + "Q"
	names := []string{"local", "preflight", "volatile"}
	call := "    " + marker + "\n    call "
	using := ""
	for b, name := range names {
		if mods&(1<<uint(b)) != 0 {
			if legacy != 0 {
				call += name + " "
			} else {
				using += "        " + name + " = true,\n"
			}
		}
	}
	call += "FOO(\n        x = self.x,\n    )"
	if using != "" {
		call += " using (\n" + using + "    )"
	}
	src := "stage FOO(\n    in  int x,\n    out int y,\n    src comp \"bin\",\n)\n\npipeline P(\n    in  int x,\n    out int y,\n)\n{\n" +
		call + "\n\n    return (\n        y = FOO.y,\n    )\n}\n"
	var parser Parser
	ast, err := parser.UncheckedParse([]byte(src), "/m/c.mro")
	if err != nil {
		// (preflight calls may not have outputs bound ... only the compiler
		// checks that; the grammar accepts every subset)
		verifAssert(false, "C09: the fixture text parses")
		return
	}
	f1 := ast.format(false)
	verifCover("call with comment formatted")
	verifAssert(c09CountSub(f1, marker) == 1, "C09: a comment on a call is kept exactly once by the formatter")
	for b, name := range names {
		if mods&(1<<uint(b)) != 0 {
			verifAssert(c09CountMod(f1, name) == 1, "C09: every call modifier survives formatting, in either syntax")
		}
	}
	ast2, err := parser.UncheckedParse([]byte(f1), "/m/c.mro")
	verifAssert(err == nil, "C09: the formatted text parses")
	if err == nil {
		verifAssert(ast2.format(false) == f1, "C09: formatting is idempotent on a commented call with modifiers")
	}
}

// ---- C09 / C16: floating-point literals (concrete table) ----
//
// Floating point is not symbolic in this engine.  The resource and float
// literal paths are therefore run on a fixed table of literals chosen for
// their rounding behaviour (negative fractions, values between two
// megabytes, exact binary fractions, many digits, exponents); the engine
// computes on them exactly as Go does (checked by the native replay).

var c09Floats = []string{
	"0.5", "-1.3", "-2.7", "-0.3", "-0.001", "-10.2", "-2000.1", "-0.05", "-63.9", "-1.5", "-4", "1.3", "2.7",
	"0.0009765625", "7.9999", "1.0001", "3", "0.1", "100.25", "-0.0001", "64", "0.33333", "12.125", "-7.5",
	"1e16", "-1e16", "3e38", "9007199254740992",
}

func c09ResourceSrc(mem, vmem, threads string) string {
	return "stage NEEDS(\n    in  int x,\n    out int y,\n    src comp \"bin\",\n) using (\n    mem_gb  = " + mem +
		",\n    threads = " + threads + ",\n    vmem_gb = " + vmem + ",\n)\n"
}

// H_C09_resourceFloats(i, j): mem_gb = literal i, vmem_gb = literal j, threads
// = |literal j|: what the formatter prints denotes the same reservation, and
// is a fixed point.
func H_C09_resourceFloats(i, j int) {
	threads := c09Floats[j]
	if threads[0] == '-' {
		threads = threads[1:]
	}
	src := c09ResourceSrc(c09Floats[i], c09Floats[j], threads)
	var parser Parser
	ast, err := parser.UncheckedParse([]byte(src), "/m/r.mro")
	if err != nil || len(ast.Stages) != 1 || ast.Stages[0].Resources == nil {
		verifAssert(false, "C09: the resource fixture parses")
		return
	}
	r1 := *ast.Stages[0].Resources
	f1 := ast.format(false)
	verifCover("resources formatted")
	ast2, err := parser.UncheckedParse([]byte(f1), "/m/r.mro")
	verifAssert(err == nil && len(ast2.Stages) == 1 && ast2.Stages[0].Resources != nil, "C09: formatted resources parse")
	if err != nil || len(ast2.Stages) != 1 || ast2.Stages[0].Resources == nil {
		return
	}
	r2 := *ast2.Stages[0].Resources
	verifAssert(r1.MemGB == r2.MemGB, "C09: the formatted mem_gb denotes the same reservation as the source")
	verifAssert(r1.VMemGB == r2.VMemGB, "C09: the formatted vmem_gb denotes the same reservation as the source")
	verifAssert(r1.Threads == r2.Threads, "C09: the formatted thread count is the source's")
	verifAssert(ast2.format(false) == f1, "C09: formatting resources is idempotent")
}

// H_C16_floatJSON(i): a float expression encodes to JSON that reads back as
// exactly the same float64, by both encoders.
func H_C16_floatJSON(i int) {
	var parser Parser
	lit := c09Floats[i]
	dot := false
	for k := 0; k < len(lit); k++ {
		dot = dot || lit[k] == '.'
	}
	if dot {
		lit += "01"
	} else {
		lit += ".01"
	}
	v, err := parser.ParseValExp([]byte(lit))
	fe, ok := v.(*FloatExp)
	if err != nil || !ok {
		verifAssert(false, "C16: the float fixture parses")
		return
	}
	var buf bytes.Buffer
	verifAssert(fe.EncodeJSON(&buf) == nil, "C16: a float encodes")
	m, err := fe.MarshalJSON()
	verifAssert(err == nil && bytes.Equal(m, buf.Bytes()), "C16: EncodeJSON and MarshalJSON agree on floats")
	verifCover("float encoded")
	back, err := parser.ParseValExp(buf.Bytes())
	verifAssert(err == nil, "C16: the JSON of a float reads back")
	if err != nil {
		return
	}
	switch b := back.(type) {
	case *FloatExp:
		verifAssert(b.Value == fe.Value, "C16: a float survives text -> JSON -> text with every digit (float64)")
	case *IntExp:
		verifAssert(float64(b.Value) == fe.Value, "C16: an integral float may read back as the same integer")
	default:
		verifAssert(false, "C16: the JSON of a float reads back as a number")
	}
}

// ---- C09: a comment at every place of a program ----

// The template below has numbered slots "@N@"; slot N is replaced by a comment
// line (with the indentation of the following line), every other slot by
// nothing.  listed = the comment precedes a declaration, parameter, binding,
// call, return or collection element within the same bracketed scope (the
// property promises "exactly once" and a fixed point for those); elsewhere only
// "no comment text is lost" is promised.
const c09PlacesTemplate = `@0@filetype txt;

@1@struct PAIR(
@2@    int a,
    int b,
)

@3@stage FOO(
@4@    in  int   x,
@5@    out txt   z,
    out txt   y,
@6@    src comp  "bin",
) using (
@7@    mem_gb = 1,
@8@) retain (
@9@    z,
)

@10@pipeline P(
@11@    in  int x,
@12@    out txt z,
)
{
@13@    call FOO(
@14@        x = self.x,
    )

@15@    return (
@16@        z = FOO.z,
    )

    retain (
@17@        FOO.y,
    )
}

@18@call P(
@19@    x = 1,
)
`

const c09ValuesTemplate = `stage BAR(
    in  int[]    xs,
    in  map<int> m,
    in  PAIR     p,
    out int      o,
    src comp     "bin",
)

struct PAIR(
    int a,
    int b,
)

call BAR(
    xs = [
@0@        1,
@1@        2,
    ],
    m  = {
@2@        "k": 3,
@3@        "l":
            4,
    },
    p  = {
@4@        a: 5,
@5@        b: 6,
    },
)
`

// places of c09ValuesTemplate where the comment is followed by an empty line
// (variant 1) are still "before a collection element within the same scope"

func c09Fill(template string, slot int, comment string, blankAfter bool) string {
	out := ""
	for i := 0; i < len(template); {
		if template[i] == '@' {
			j := i + 1
			n := 0
			for template[j] != '@' {
				n = n*10 + int(template[j]-'0')
				j++
			}
			i = j + 1
			if n == slot {
				// indentation of the line the slot starts
				k := i
				for k < len(template) && template[k] == ' ' {
					k++
				}
				indent := template[i:k]
				out += indent + comment + "\n"
				if blankAfter {
					out += "\n"
				}
			}
			continue
		}
		out += template[i : i+1]
		i++
	}
	return out
}

var c09PlacesListed = []bool{
	true, true, true, true, true, true, true, // 0..6: declarations and parameters (7: resource is a binding)
	true,         // 7 a resource binding
	false, false, // 8 before ") retain (", 9 inside a stage's retain list
	true, true, true, // 10..12
	true, true, true, true, // 13 call, 14 binding, 15 return, 16 return binding
	false,      // 17 inside a pipeline's retain list
	true, true, // 18 top-level call, 19 its binding
}

func c09CommentText(n int) string {
	c := verifBytes("comment", n)
	for i := range c {
		verifAssume(verifAll(c[i] != '\n', c[i] != '\r', c[i] >= 0x21, c[i] < 0x7f))
	}
	return "#Q" + string(c) + "Q"
}

func c09CheckComment(src, marker string, listed bool) {
	var parser Parser
	ast, err := parser.UncheckedParse([]byte(src), "/m/c.mro")
	if err != nil {
		verifAssert(false, "C09: the fixture text parses")
		return
	}
	f1 := ast.format(false)
	verifCover("commented program formatted")
	n := c09CountSub(f1, marker)
	verifAssert(n >= 1, "C09: no comment text is lost by the formatter")
	ast2, err := parser.UncheckedParse([]byte(f1), "/m/c.mro")
	verifAssert(err == nil, "C09: the formatted text parses")
	if !listed {
		return
	}
	verifAssert(n == 1, "C09: a comment preceding a declaration, parameter, binding, call, return or collection element is kept exactly once")
	if err == nil {
		verifAssert(ast2.format(false) == f1, "C09: with every comment in such a place the output is a fixed point of the formatter")
	}
}

// H_C09_commentPlaces(slot, n): one comment of n arbitrary printable bytes at
// place `slot` of a program with a file type, a struct, a stage with resources
// and retains, a pipeline with a call, a return and retains, and a call.
func H_C09_commentPlaces(slot, n int) {
	marker := c09CommentText(n)
	c09CheckComment(c09Fill(c09PlacesTemplate, slot, marker, false), marker, c09PlacesListed[slot])
}

// H_C09_commentInValues(slot, blank, n): one comment before an element of an
// array, a typed-map or a struct literal (the value of "l" is on the line after
// its key), directly (blank = 0) or followed by an empty line (blank = 1).
func H_C09_commentInValues(slot, blank, n int) {
	marker := c09CommentText(n)
	c09CheckComment(c09Fill(c09ValuesTemplate, slot, marker, blank != 0), marker, true)
}

// floats around the ends of the ranges in which numbers are written without an
// exponent (2^63: the largest integer the tokenizer reads; 1e21, 1e-6)
var c16RangeFloats = []string{
	"1234567.0", "4e18", "9223372036854775807.0", "9223372036854775808.0", "1.2345678901234567e+19", "1e19", "1e20",
	"123456789012345680000.0", "1e21", "1e22", "-1e19", "-9223372036854775808.0", "-1.5e19", "0.000001", "1e-7", "2.5e-10",
}

// H_C16_floatRange(i): a float literal of large or small magnitude goes to
// invocation JSON and back to MRO text.
//
//	C16: the JSON reads back as a number with exactly the same value (large
//	     integers and floats survive).
func H_C16_floatRange(i int) {
	var parser Parser
	v, err := parser.ParseValExp([]byte(c16RangeFloats[i]))
	fe, ok := v.(*FloatExp)
	if err != nil || !ok {
		verifAssert(false, "C16: the float fixture parses as a float")
		return
	}
	var buf bytes.Buffer
	verifAssert(fe.EncodeJSON(&buf) == nil, "C16: a float encodes")
	verifCover("float of extreme magnitude encoded")
	back, err := parser.ParseValExp(buf.Bytes())
	verifAssert(err == nil, "C16: the JSON written for a float of any magnitude reads back as MRO text")
	if err != nil {
		return
	}
	switch b := back.(type) {
	case *FloatExp:
		verifAssert(b.Value == fe.Value, "C16: a float survives text -> JSON -> text with every digit (float64)")
	case *IntExp:
		verifAssert(float64(b.Value) == fe.Value, "C16: an integral float may read back as the same integer")
	default:
		verifAssert(false, "C16: the JSON of a float reads back as a number")
	}
}

// places around a mapped call's split operand and a call's modifiers
const c09SplitTemplate = `stage BAZ(
    in  int x,
    in  int y,
    out int o,
    src comp "bin",
)

pipeline Q(
    out int[] o,
)
{
    map call BAZ(
        x = split
@0@            [
@1@                1,
                2,
            ],
        y = 3,
    ) using (
@2@        volatile = true,
    )

    return (
        o = BAZ.o,
    )
}
`

var c09SplitListed = []bool{false, true, true}

// H_C09_commentAtSplit(slot, n): one comment between `split` and its operand
// (only "not lost" is claimed there), before the first element of the operand,
// or before a modifier of the call.
func H_C09_commentAtSplit(slot, n int) {
	marker := c09CommentText(n)
	c09CheckComment(c09Fill(c09SplitTemplate, slot, marker, false), marker, c09SplitListed[slot])
}

// H_C09_commentThenBlank(slot, n): as H_C09_commentPlaces, but the comment is
// followed by an empty line (a comment about the scope rather than about the
// next element; it still precedes that element).
func H_C09_commentThenBlank(slot, n int) {
	marker := c09CommentText(n)
	c09CheckComment(c09Fill(c09PlacesTemplate, slot, marker, true), marker, c09PlacesListed[slot])
}
