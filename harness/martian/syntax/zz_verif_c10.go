//verif:native

package syntax

import (
	"bytes"
	"strings"
)

// C10 — determinism: emitters that walk Go maps give byte-identical output
// whatever order the map is iterated in.  Every range over a map in the code
// under test picks an arbitrary permutation (engine mode nondetMapOrder); the
// emitter is run twice on the same map and the outputs are compared.

func c10Keys(n int) []string {
	keys := make([]string, n)
	for i := range keys {
		keys[i] = verifString("key", 1)
		for j := 0; j < i; j++ {
			verifAssume(keys[i] != keys[j])
		}
	}
	return keys
}

// H_C10_mapExp: one emitter of a map expression (which: 0 format, 1
// EncodeJSON, 2 MarshalJSON, 3 GoString), typed map or struct, run twice.
func H_C10_mapExp(n int, structKind int, which int) {
	verifNondetMapOrder(true)
	keys := c10Keys(n)
	m := &MapExp{Kind: KindMap, Value: map[string]Exp{}}
	if structKind != 0 {
		m.Kind = KindStruct
	}
	for i, k := range keys {
		m.Value[k] = &IntExp{Value: int64(i)}
	}
	run := func() string {
		switch which {
		case 0:
			var sb strings.Builder
			m.format(&sb, "")
			return sb.String()
		case 1:
			var buf bytes.Buffer
			m.EncodeJSON(&buf)
			return buf.String()
		case 2:
			mj, _ := m.MarshalJSON()
			return string(mj)
		default:
			return m.GoString()
		}
	}
	o1 := run()
	o2 := run()
	verifCover("map expression emitted twice")
	verifAssert(o1 == o2, "C10: the emitted text of a map expression does not depend on map iteration order")
}

// H_C10_resolvedBindings: the serialized call graph's binding maps.
func H_C10_resolvedBindings(n int) {
	verifNondetMapOrder(true)
	keys := c10Keys(n)
	lookup := NewTypeLookup()
	intT := lookup.Get(TypeId{Tname: KindInt})
	m := ResolvedBindingMap{}
	for i, k := range keys {
		m[k] = &ResolvedBinding{Exp: &IntExp{Value: int64(i)}, Type: intT}
	}
	var buf1, buf2 bytes.Buffer
	err1 := m.EncodeJSON(&buf1)
	err2 := m.EncodeJSON(&buf2)
	verifCover("binding map emitted twice")
	verifAssert(err1 == nil && err2 == nil, "binding map encoders do not fail")
	verifAssert(bytes.Equal(buf1.Bytes(), buf2.Bytes()), "C10: serialized bindings do not depend on map iteration order")
}
