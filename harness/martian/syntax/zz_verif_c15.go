//verif:native

package syntax

import "strings"

// C15 — re-attach is refused iff the invocation's meaning changed.  One
// harness per clause of the structural comparison: two instances of the
// construct with the same shape and independent symbolic leaves, and an
// oracle written from the doc comments of equivalence.go.

func c15Id(name string) string {
	// identifiers are 1 byte over {a, b}
	c := verifByte(name)
	verifAssume(verifAny(c == 'a', c == 'b'))
	return string([]byte{c})
}

type c15Mods struct {
	m           *Modifiers
	local, pre  bool
	hasDisabled bool
	refId, out  string
}

// c15MakeMods builds an arbitrary Modifiers value as the compiler produces
// them: nil, or Local/Preflight flags plus an optional disabled binding to a
// call output reference.
func c15MakeMods(tag string) c15Mods {
	var r c15Mods
	if verifBool(tag + ".nil") {
		return r
	}
	r.local = verifBool(tag + ".local")
	r.pre = verifBool(tag + ".preflight")
	r.m = &Modifiers{Local: r.local, Preflight: r.pre}
	if verifBool(tag + ".hasBindings") {
		r.m.Bindings = &BindStms{Table: map[string]*BindStm{}}
		// a volatile = true modifier binding may be present as well (ignored)
		if verifBool(tag + ".volatileBinding") {
			b := &BindStm{Id: volatile, Exp: &BoolExp{Value: true}}
			r.m.Bindings.List = append(r.m.Bindings.List, b)
			r.m.Bindings.Table[volatile] = b
		}
		if verifBool(tag + ".disabled") {
			r.hasDisabled = true
			r.refId = c15Id(tag + ".ref")
			r.out = c15Id(tag + ".out")
			b := &BindStm{Id: disabled, Exp: &RefExp{Kind: KindCall, Id: r.refId, OutputId: r.out}}
			r.m.Bindings.List = append(r.m.Bindings.List, b)
			r.m.Bindings.Table[disabled] = b
		}
	}
	return r
}

func c15ModsSame(x, y c15Mods) bool {
	if x.local != y.local || x.pre != y.pre || x.hasDisabled != y.hasDisabled {
		return false
	}
	if x.hasDisabled {
		return x.refId == y.refId && x.out == y.out
	}
	return true
}

// H_C15_modifiers: call modifiers are equivalent exactly when local,
// preflight and the disabling condition are the same (volatile ignored).
func H_C15_modifiers() {
	x := c15MakeMods("x")
	y := c15MakeMods("y")
	got := x.m.EquivalentTo(y.m)
	verifCover("modifiers compared")
	verifAssert(got == c15ModsSame(x, y), "modifiers equivalent iff local, preflight and the disabled binding agree")
	verifAssert(y.m.EquivalentTo(x.m) == got, "modifier equivalence is symmetric")
}

type c15Val struct {
	exp  Exp
	kind int
	i    int64
	s    string
	b    bool
	n    int
	elem []int64
}

// c15MakeExp builds an expression of an arbitrary kind with arbitrary leaves:
// int, string (1 byte), bool, null, array of 0..2 ints, reference.
func c15MakeExp(tag string) c15Val {
	var v c15Val
	k := verifInt(tag + ".kind")
	verifAssume(verifAll(k >= 0, k <= 5))
	v.kind = verifConcretize(k)
	switch v.kind {
	case 0:
		v.i = verifInt64(tag + ".int")
		v.exp = &IntExp{Value: v.i}
	case 1:
		v.s = verifString(tag+".str", 1)
		v.exp = &StringExp{Value: v.s}
	case 2:
		v.b = verifBool(tag + ".bool")
		v.exp = &BoolExp{Value: v.b}
	case 3:
		v.exp = &NullExp{}
	case 4:
		n := verifInt(tag + ".len")
		verifAssume(verifAll(n >= 0, n <= 2))
		v.n = verifConcretize(n)
		arr := &ArrayExp{Value: []Exp{}}
		for i := 0; i < v.n; i++ {
			e := verifInt64(tag + ".elem")
			v.elem = append(v.elem, e)
			arr.Value = append(arr.Value, &IntExp{Value: e})
		}
		v.exp = arr
	default:
		v.s = c15Id(tag + ".refid")
		v.exp = &RefExp{Kind: KindSelf, Id: v.s}
	}
	return v
}

func c15ValSame(x, y c15Val) bool {
	if x.kind != y.kind {
		return false
	}
	switch x.kind {
	case 0:
		return x.i == y.i
	case 1, 5:
		return x.s == y.s
	case 2:
		return x.b == y.b
	case 3:
		return true
	default:
		if x.n != y.n {
			return false
		}
		for i := range x.elem {
			if x.elem[i] != y.elem[i] {
				return false
			}
		}
		return true
	}
}

// H_C15_binding: two argument bindings are equal exactly when their names
// and values are.
func H_C15_binding() {
	xv := c15MakeExp("x")
	yv := c15MakeExp("y")
	xid, yid := c15Id("x.id"), c15Id("y.id")
	x := &BindStm{Id: xid, Exp: xv.exp}
	y := &BindStm{Id: yid, Exp: yv.exp}
	got := x.Equals(y)
	verifCover("bindings compared")
	verifAssert(got == (xid == yid && c15ValSame(xv, yv)), "bindings equal iff same name and same value")
	verifAssert(y.Equals(x) == got, "binding equality is symmetric")
}

func c15MakeBindings(tag string, n int) (*BindStms, []string, []c15Val) {
	bs := &BindStms{Table: map[string]*BindStm{}}
	var ids []string
	var vals []c15Val
	for i := 0; i < n; i++ {
		id := c15Id(tag + ".bid")
		for _, prev := range ids {
			verifAssume(id != prev) // the compiler rejects duplicate bindings
		}
		v := c15Val{kind: 0, i: verifInt64(tag + ".bval")}
		v.exp = &IntExp{Value: v.i}
		b := &BindStm{Id: id, Exp: v.exp}
		bs.List = append(bs.List, b)
		bs.Table[id] = b
		ids = append(ids, id)
		vals = append(vals, v)
	}
	return bs, ids, vals
}

// H_C15_call: two calls of stages are equivalent exactly when the call name,
// the argument bindings (as a set), the modifiers and the callee are.
func H_C15_call(nx int, ny int) {
	xb, xids, xvals := c15MakeBindings("x", nx)
	yb, yids, yvals := c15MakeBindings("y", ny)
	xm := c15MakeMods("xm")
	ym := c15MakeMods("ym")
	xid, yid := c15Id("x.call"), c15Id("y.call")
	// each program declares the stages S and T (split or not, independently);
	// each call names S, T or a stage that is not declared (possibly under an
	// alias: the call name is independent of the callee)
	names := []string{"S", "T", "U"}
	var xsplit, ysplit [2]bool
	xc := &Callables{Table: map[string]Callable{}}
	yc := &Callables{Table: map[string]Callable{}}
	for i := 0; i < 2; i++ {
		xsplit[i], ysplit[i] = verifBool("x.split."+names[i]), verifBool("y.split."+names[i])
		xc.Table[names[i]] = &Stage{Id: names[i], Split: xsplit[i]}
		yc.Table[names[i]] = &Stage{Id: names[i], Split: ysplit[i]}
	}
	xd, yd := verifInt("x.callee"), verifInt("y.callee")
	verifAssume(verifAll(xd >= 0, xd <= 2, yd >= 0, yd <= 2))
	xd, yd = verifConcretize(xd), verifConcretize(yd)
	x := &CallStm{Id: xid, DecId: names[xd], Bindings: xb, Modifiers: xm.m}
	y := &CallStm{Id: yid, DecId: names[yd], Bindings: yb, Modifiers: ym.m}
	got := x.EquivalentTo(y, xc, yc)
	sameBindings := nx == ny
	if sameBindings {
		for i := range xids {
			found := false
			for j := range yids {
				if xids[i] == yids[j] && xvals[i].i == yvals[j].i {
					found = true
				}
			}
			sameBindings = sameBindings && found
		}
	}
	// the callees the two calls actually name
	sameCallee := false
	switch {
	case xd == 2:
		sameCallee = yd == 2
	case yd == 2:
		sameCallee = false
	default:
		sameCallee = xsplit[xd] == ysplit[yd]
	}
	want := xid == yid && sameBindings && c15ModsSame(xm, ym) && sameCallee
	verifCover("calls compared")
	verifAssert(got == want, "calls equivalent iff name, bindings, modifiers and callee agree")
}

type c15Param struct {
	id      string
	tname   int // 0 int, 1 string, 2 user file type f1, 3 user file type f2
	dim     int
	outName string
}

var c15Tnames = []string{"int", "string", "f1", "f2"}

func c15MakeParam(tag string) c15Param {
	var p c15Param
	p.id = c15Id(tag + ".pid")
	t := verifInt(tag + ".tname")
	verifAssume(verifAll(t >= 0, t <= 3))
	p.tname = verifConcretize(t)
	d := verifInt(tag + ".dim")
	verifAssume(verifAll(d >= 0, d <= 1))
	p.dim = verifConcretize(d)
	return p
}

func (p c15Param) fileKind() FileKind {
	if p.tname >= 2 {
		return KindIsFile
	}
	if p.tname == 1 {
		return KindMayContainPaths
	}
	return KindIsNotFile
}

func (p c15Param) in() *InParam {
	return &InParam{Id: p.id, Tname: TypeId{Tname: c15Tnames[p.tname], ArrayDim: int16(p.dim)}, Isfile: p.fileKind()}
}

func (p c15Param) out() *OutParam {
	return &OutParam{StructMember{Id: p.id, Tname: TypeId{Tname: c15Tnames[p.tname], ArrayDim: int16(p.dim)}, isFile: p.fileKind(), OutName: p.outName}}
}

func c15ParamSame(x, y c15Param) bool {
	if x.id != y.id || x.dim != y.dim {
		return false
	}
	// file type names may change; anything else may not
	if x.tname >= 2 || y.tname >= 2 {
		return x.tname >= 2 && y.tname >= 2
	}
	return x.tname == y.tname
}

// H_C15_stage: two stages are equivalent exactly when split status and the
// input/output parameter names, array dimensions and types agree, where all
// user file types count as the same type.
func H_C15_stage() {
	xin, yin := c15MakeParam("x.in"), c15MakeParam("y.in")
	xout, yout := c15MakeParam("x.out"), c15MakeParam("y.out")
	xsplit, ysplit := verifBool("x.split"), verifBool("y.split")
	mk := func(in, out c15Param, split bool, vol bool) *Stage {
		ip, op := in.in(), out.out()
		s := &Stage{Id: "S", Split: split,
			InParams:  &InParams{List: []*InParam{ip}, Table: map[string]*InParam{ip.Id: ip}},
			OutParams: &OutParams{List: []*OutParam{op}, Table: map[string]*OutParam{op.Id: op}},
		}
		if vol {
			s.Resources = &Resources{StrictVolatile: true}
			s.Src = &SrcParam{Path: "other"}
		}
		return s
	}
	x := mk(xin, xout, xsplit, false)
	y := mk(yin, yout, ysplit, verifBool("y.cosmetic"))
	got := x.EquivalentTo(y, nil, nil)
	want := xsplit == ysplit && c15ParamSame(xin, yin) && c15ParamSame(xout, yout)
	verifCover("stages compared")
	verifAssert(got == want, "stages equivalent iff split status and parameter names/types agree (file type names and resources ignored)")
	verifAssert(y.EquivalentTo(x, nil, nil) == got, "stage equivalence is symmetric")
}

// H_C15_pipeline: two pipelines are equivalent exactly when their parameter
// sets, output names of file outputs, calls (by name) and return bindings are.
func H_C15_pipeline() {
	xin, yin := c15MakeParam("x.in"), c15MakeParam("y.in")
	xout, yout := c15MakeParam("x.out"), c15MakeParam("y.out")
	xout.outName = verifString("x.outname", 1)
	yout.outName = verifString("y.outname", 1)
	xc1, xc2 := c15Id("x.c1"), c15Id("x.c2")
	yc1, yc2 := c15Id("y.c1"), c15Id("y.c2")
	verifAssume(xc1 != xc2) // the compiler rejects duplicate call names
	verifAssume(yc1 != yc2)
	xret, yret := c15Id("x.ret"), c15Id("y.ret")
	xretain, yretain := verifBool("x.retain"), verifBool("y.retain")
	stage := &Stage{Id: "S"}
	callables := &Callables{Table: map[string]Callable{"S": stage}}
	mk := func(in, out c15Param, c1, c2, ret string, retain bool) *Pipeline {
		ip, op := in.in(), out.out()
		rb := &BindStm{Id: out.id, Exp: &RefExp{Kind: KindCall, Id: ret, OutputId: "o"}}
		p := &Pipeline{Id: "P",
			InParams:  &InParams{List: []*InParam{ip}, Table: map[string]*InParam{ip.Id: ip}},
			OutParams: &OutParams{List: []*OutParam{op}, Table: map[string]*OutParam{op.Id: op}},
			Calls:     []*CallStm{{Id: c1, DecId: "S"}, {Id: c2, DecId: "S"}},
			Ret:       &ReturnStm{Bindings: &BindStms{List: []*BindStm{rb}, Table: map[string]*BindStm{rb.Id: rb}}},
		}
		if retain {
			p.Retain = &PipelineRetains{Refs: []*RefExp{{Kind: KindCall, Id: c1, OutputId: "o"}}}
		}
		return p
	}
	x := mk(xin, xout, xc1, xc2, xret, xretain)
	y := mk(yin, yout, yc1, yc2, yret, yretain)
	got := x.EquivalentTo(y, callables, callables)
	sameCalls := (xc1 == yc1 && xc2 == yc2) || (xc1 == yc2 && xc2 == yc1)
	sameOut := c15ParamSame(xout, yout)
	if sameOut && xout.tname >= 2 {
		sameOut = xout.outName == yout.outName
	}
	want := c15ParamSame(xin, yin) && sameOut && sameCalls && xret == yret
	verifCover("pipelines compared")
	verifAssert(got == want, "pipelines equivalent iff parameters, file output names, calls and return bindings agree (retain ignored)")
}

// H_C03_resolveDisable: compile-time resolution of a per-fork disabling
// condition `disabled = split [e1 .. en]` (array) or `split {k: e ..}` (typed
// map), each element arbitrarily a literal true, a literal false or a
// reference: the condition is dropped only if no fork can ever be disabled
// (all literal false), the call is pruned as always disabled only if every
// fork is (all literal true), and otherwise the run-time check is kept.
func H_C03_resolveDisable(n int, mapMode int) {
	var elems []Exp
	anyTrue, anyFalse, anyRef := false, false, false
	for i := 0; i < n; i++ {
		k := verifInt("kind")
		verifAssume(verifAll(k >= 0, k <= 2))
		switch verifConcretize(k) {
		case 0:
			elems = append(elems, &BoolExp{Value: true})
			anyTrue = true
		case 1:
			elems = append(elems, &BoolExp{Value: false})
			anyFalse = true
		default:
			elems = append(elems, &RefExp{Kind: KindCall, Id: "F", OutputId: "flag"})
			anyRef = true
		}
	}
	call := &CallStm{Id: "W", DecId: "W"}
	var split *SplitExp
	if mapMode != 0 {
		m := &MapExp{Kind: KindMap, Value: map[string]Exp{}}
		for i, e := range elems {
			m.Value[string([]byte{'a' + byte(i)})] = e
		}
		split = &SplitExp{Call: call, Value: m, Source: m}
	} else {
		a := &ArrayExp{Value: elems}
		split = &SplitExp{Call: call, Value: a, Source: a}
	}
	prior := []Exp{&RefExp{Kind: KindCall, Id: "P", OutputId: "off"}}
	got, err := resolveDisableExp(split, prior)
	verifCover("disable resolved")
	verifAssert(err == nil, "boolean literals and references are legal disabling conditions")
	if err != nil {
		return
	}
	if n == 0 {
		verifAssert(len(got) == 1 && got[0] == prior[0], "no forks: nothing to add")
		return
	}
	switch {
	case !anyTrue && !anyRef:
		verifAssert(len(got) == 1 && got[0] == prior[0], "C01/C03: a condition that is false for every fork is dropped")
	case !anyFalse && !anyRef:
		verifAssert(len(got) == 1 && got[0] != prior[0], "C01/C03: a call disabled in every fork is marked always disabled")
		if b, ok := got[0].(*BoolExp); ok {
			verifAssert(b.Value, "C01/C03: the always-disabled marker is the constant true")
		}
	default:
		verifCover("run-time disable kept")
		verifAssert(len(got) == 2 && got[0] == prior[0], "C01/C03: a condition that may be true for some fork is kept for the run-time check")
		if len(got) == 2 && n > 1 {
			verifAssert(got[1] == Exp(split), "C01/C03: the kept condition is the per-fork expression itself")
		}
	}
}

// ---- C15 on whole programs compiled from text ----

var c15RealTypes = []string{
	"int", "float", "string", "bam", "sam", "bam[]", "sam[]", "map<bam>", "map<sam>",
	"map<bam[]>", "map<bam>[]", "bam[][]", "int[]", "map<int>", "ST", "ST[]", "map<sam[]>",
}

func c15RealProgram(t string, structDef string) string {
	return `filetype bam;
filetype sam;

` + structDef + `

stage MAKE(
    in  int n,
    out ` + t + ` o,
    src comp "bin",
)

stage USE(
    in  ` + t + ` x,
    out int r,
    src comp "bin",
)

pipeline P(
    in  int n,
    out int r,
)
{
    call MAKE(
        n = self.n,
    )

    call USE(
        x = MAKE.o,
    )

    return (
        r = USE.r,
    )
}

call P(
    n = 1,
)
`
}

const c15StructDef = `struct ST(
    int a,
    bam f,
)`

func c15Compile(src string) *Ast {
	var parser Parser
	_, _, ast, err := parser.ParseSourceBytes([]byte(src), "/m/c15.mro", nil, false)
	if err != nil {
		panic("fixture does not compile: " + err.Error())
	}
	return ast
}

func c15NormaliseFileTypes(t string) string {
	out := ""
	for i := 0; i < len(t); i++ {
		if i+3 <= len(t) && t[i:i+3] == "sam" {
			out += "bam"
			i += 2
		} else {
			out += t[i : i+1]
		}
	}
	return out
}

// H_C15_realTypes(i, j): the original invocation passes a value of type i from
// MAKE to USE, the new one a value of type j (both programs compile); what
// mrp compares on re-attach is Ast.EquivalentCall.
//
//	C15: re-attach is accepted exactly when the two types are the same up to
//	     the names of file types (bam / sam), in whatever collection they sit;
//	     any other change of a parameter's type is refused.
func H_C15_realTypes(i, j int) {
	ti, tj := c15RealTypes[i], c15RealTypes[j]
	oldAst := c15Compile(c15RealProgram(ti, c15StructDef))
	newAst := c15Compile(c15RealProgram(tj, c15StructDef))
	got := newAst.EquivalentCall(oldAst)
	want := c15NormaliseFileTypes(ti) == c15NormaliseFileTypes(tj)
	verifCover("real programs compared")
	if want {
		verifCover("types equal up to file type names")
		verifAssert(got, "C15: re-attach succeeds when the invocation differs only in file-type names (also inside arrays and typed maps)")
	} else {
		verifAssert(!got, "C15: re-attach is refused when a parameter's type changed")
	}
	verifAssert(oldAst.EquivalentCall(newAst) == got, "C15: the comparison is symmetric")
}

var c15StructVariants = []struct {
	def  string
	same bool
}{
	{"struct ST(\n    int a,\n    bam f,\n)", true},
	{"struct ST(\n    bam f,\n    int a,\n)", true}, // member order
	{"struct ST(\n    int a,\n    sam f,\n)", true}, // file type name
	{"struct ST(\n    int a,\n    bam f,\n    int extra,\n)", false},
	{"struct ST(\n    float[] a,\n    bam f,\n)", false},
	{"struct ST(\n    int b,\n    bam f,\n)", false},
	{"struct ST(\n    int a,\n    bam[] f,\n)", false},
	{"struct ST(\n    int a,\n    string f,\n)", false},
	{"struct INNER(\n    bam g,\n)\n\nstruct ST(\n    int a,\n    INNER f,\n)", false}, // the member became a struct
	{"filetype INNER;\n\nstruct ST(\n    int a,\n    INNER f,\n)", true},                    // another file type name
}

// H_C15_structDefs(v, arr): the struct type ST passed from MAKE to USE (as ST
// or ST[]) keeps its name but its definition is variant v in the new
// invocation.
//
//	C15: re-attach is refused when a member was added, removed, renamed or
//	     changed its type; accepted when only the member order or a file-type
//	     name changed.
func H_C15_structDefs(v, arr int) {
	t := "ST"
	if arr != 0 {
		t = "ST[]"
	}
	oldAst := c15Compile(c15RealProgram(t, c15StructVariants[0].def))
	newAst := c15Compile(c15RealProgram(t, c15StructVariants[v].def))
	got := newAst.EquivalentCall(oldAst)
	verifCover("struct definitions compared")
	if c15StructVariants[v].same {
		verifAssert(got, "C15: re-attach succeeds when a struct's definition differs only in member order or file-type names")
	} else {
		verifAssert(!got, "C15: re-attach is refused when the definition of a struct type that is passed between calls changed (parameter sets and types)")
	}
	verifAssert(oldAst.EquivalentCall(newAst) == got, "C15: the comparison is symmetric")
}

// ---- C13: two outputs never share a path under outs/ ----

var c13OutPairs = []struct {
	first, second string
	collide       bool
}{
	{`txt  summary`, `file details "the details" "summary.txt"`, true}, // explicit name = a sibling's derived name
	{`file details "the details" "summary.txt"`, `txt  summary`, true}, // ... in the other order
	{`txt  summary`, `file details "the details" "other.txt"`, false},
	{`txt  a "first" "x.txt"`, `txt  b "second" "x.txt"`, true}, // two explicit names
	{`file summary`, `txt  other "help" "summary"`, true},       // derived name without extension
	{`int  summary`, `file details "the details" "summary.int"`, false},
	{`txt  summary`, `txt  summary2`, false},
	{`txt[] logs`, `file details "the details" "logs"`, true}, // a directory of files and a file
}

// H_C13_outNames(scope, pair): two file outputs of a struct (scope 0), of a
// stage (scope 1) or of the top-level pipeline (scope 2).
//
//	C13: every output is materialised "at the path derived from its parameter
//	     name, type and explicit output name": a program in which two outputs
//	     of one scope derive the same path is rejected at compile time (the
//	     post-processing step relies on it and would silently skip the second
//	     file); distinct paths are accepted.
func H_C13_outNames(scope, pair int) {
	p := c13OutPairs[pair]
	var src string
	switch scope {
	case 0:
		src = "filetype txt;\n\nstruct OUTS(\n    " + p.first + ",\n    " + p.second + ",\n)\n\nstage S(\n    in  int  x,\n    out OUTS o,\n    src comp \"bin\",\n)\n"
	case 1:
		src = "filetype txt;\n\nstage S(\n    in  int x,\n    out " + p.first + ",\n    out " + p.second + ",\n    src comp \"bin\",\n)\n"
	default:
		ids := [2]string{}
		for i, d := range []string{p.first, p.second} {
			f := strings.Fields(d)
			ids[i] = f[1]
		}
		src = "filetype txt;\n\nstage S(\n    in  int x,\n    out " + strings.Fields(p.first)[0] + " " + ids[0] + ",\n    out " + strings.Fields(p.second)[0] + " " + ids[1] + ",\n    src comp \"bin\",\n)\n\npipeline P(\n    in  int x,\n    out " + p.first + ",\n    out " + p.second + ",\n)\n{\n    call S(\n        x = self.x,\n    )\n\n    return (\n        " + ids[0] + " = S." + ids[0] + ",\n        " + ids[1] + " = S." + ids[1] + ",\n    )\n}\n\ncall P(\n    x = 1,\n)\n"
	}
	var parser Parser
	_, _, _, err := parser.ParseSourceBytes([]byte(src), "/m/outs.mro", nil, false)
	verifCover("output names compiled")
	if p.collide {
		verifCover("colliding output names")
		verifAssert(err != nil, "C13: two outputs that derive the same path under outs/ are rejected at compile time")
	} else {
		verifAssert(err == nil, "C13: outputs with distinct paths are accepted")
	}
}

// H_C03_disableSiblings(kind, depth): two sibling calls inside a pipeline that
// is itself disabled by `depth` enclosing conditions (the slice of inherited
// conditions is shared by the siblings, and Go's append leaves spare capacity
// at some lengths: here the slice is given capacity depth+1).  Each sibling
// has its own condition: kind 0 a reference, 1 a reference split by an
// enclosing map call, 2 a per-fork array of references, 3 a per-fork map.
//
//	C03: the conditions under which a call is disabled are its own condition
//	     and the inherited ones; resolving a sibling's condition never changes
//	     them (a call must not run, or be skipped, on its sibling's condition).
func H_C03_disableSiblings(kind, depth int) {
	inherited := make([]Exp, depth, depth+1)
	for i := range inherited {
		inherited[i] = &RefExp{Kind: KindCall, Id: "OUTER" + string(rune('0'+i)), OutputId: "off"}
	}
	mk := func(name string) Exp {
		ref := &RefExp{Kind: KindCall, Id: name, OutputId: "flag"}
		call := &CallStm{Id: "W" + name, DecId: "W"}
		switch kind {
		case 0:
			return ref
		case 1:
			return &SplitExp{Call: call, Value: ref, Source: ref}
		case 2:
			a := &ArrayExp{Value: []Exp{ref, &BoolExp{Value: false}}}
			return &SplitExp{Call: call, Value: a, Source: a}
		}
		m := &MapExp{Kind: KindMap, Value: map[string]Exp{"a": ref, "b": &BoolExp{Value: false}}}
		return &SplitExp{Call: call, Value: m, Source: m}
	}
	x, y := mk("X"), mk("Y")
	gotX, err := resolveDisableExp(x, inherited)
	verifAssert(err == nil, "references are legal disabling conditions")
	snapshot := append([]Exp(nil), gotX...)
	gotY, err := resolveDisableExp(y, inherited)
	verifAssert(err == nil, "references are legal disabling conditions")
	verifCover("sibling conditions resolved")
	verifAssert(len(gotX) == depth+1 && len(gotY) == depth+1, "C03: a call's own run-time condition is added to the inherited ones")
	for i := range snapshot {
		verifAssert(gotX[i] == snapshot[i], "C03: resolving a sibling call's disabling condition does not change this call's conditions")
	}
	if len(gotX) == depth+1 && len(gotY) == depth+1 {
		verifAssert(gotX[depth] != gotY[depth], "C03: each of two sibling calls is disabled by its own condition, not by its sibling's")
	}
	for i := 0; i < depth; i++ {
		verifAssert(inherited[i].(*RefExp).Id == "OUTER"+string(rune('0'+i)), "the inherited conditions are not modified")
	}
}

// ---- C02 / C08: a preflight call cannot depend on another call ----

var c02PreflightBindings = []struct {
	exp     string
	hasCall bool
}{
	{"A.y", true},
	{"[A.y]", true},
	{"[1, A.y]", true},
	{`{"k": A.y}`, true},
	{"self.x", false},
	{"[self.x, 2]", false},
	{"3", false},
}

// H_C02_preflightBindings(b): every call of a pipeline waits for the
// pipeline's preflight calls; a preflight call whose input (kind 0..6: a
// reference to another call's output directly, inside an array or a map
// literal; a pipeline input; a literal) depended on another call would wait
// for a call that waits for it.
//
//	C02/C08: such a program is rejected at compile time (mrp would otherwise
//	     recurse through the dependency cycle until its stack overflows);
//	     preflight inputs bound to pipeline inputs and literals are accepted.
func H_C02_preflightBindings(b int) {
	bind := c02PreflightBindings[b]
	tIn := "int"
	if bind.exp[0] == '[' {
		tIn = "int[]"
	} else if bind.exp[0] == '{' {
		tIn = "map<int>"
	}
	src := `stage A(
    in  int x,
    out int y,
    src comp "bin",
)

stage PF(
    in  ` + tIn + ` v,
    src comp "bin",
)

pipeline P(
    in  int x,
    out int y,
)
{
    call A(
        x = self.x,
    )

    call PF(
        v = ` + bind.exp + `,
    ) using (
        preflight = true,
    )

    return (
        y = A.y,
    )
}

call P(
    x = 1,
)
`
	var parser Parser
	_, _, ast, err := parser.ParseSourceBytes([]byte(src), "/m/pf.mro", nil, false)
	verifCover("preflight binding compiled")
	if bind.hasCall {
		verifCover("preflight bound to a call")
		if verifKnown("C02-preflight-call-inside-collection") && bind.exp != "A.y" {
			// known finding: only a direct reference is rejected
			return
		}
		verifAssert(err != nil, "C02/C08: a preflight call whose input depends on another call's output (directly or inside a collection) is rejected at compile time")
		return
	}
	verifAssert(err == nil, "C02: a preflight call bound to pipeline inputs or literals is accepted")
	if err == nil {
		_, gerr := ast.MakePipelineCallGraph("ID.", ast.Call)
		verifAssert(gerr == nil, "C02: its call graph resolves")
	}
}

// ---- C17: assignability is reflexive and componentwise ----

var c17AssignTypes = []string{"int", "float", "string", "txt", "map", "map<int>", "map<float>", "int[]", "float[]", "S", "S3", "S[]", "bool"}

func c17AssignFixture() *Ast {
	return verifCached("c17AssignFixture", func() any {
		src := "filetype txt;\n\nstruct S(\n    int a,\n    int b,\n)\n\nstruct S3(\n    int a,\n    int b,\n    int c,\n)\n\n"
		for i, t := range c17AssignTypes {
			src += "struct W" + string(rune('a'+i)) + "(\n    " + t + " f,\n)\n\n"
		}
		src += "stage HOLD(\n    in  int x,\n"
		for i, t := range c17AssignTypes {
			n := string(rune('a' + i))
			src += "    in  " + t + " p" + n + ",\n    in  W" + n + " w" + n + ",\n"
			if t[len(t)-1] != ']' {
				src += "    in  " + t + "[] a" + n + ",\n"
				if !strings.HasPrefix(t, "map") {
					src += "    in  map<" + t + "> m" + n + ",\n"
				}
			}
		}
		src += "    src comp \"bin\",\n)\n"
		return c15Compile(src)
	}).(*Ast)
}

// H_C17_assignability(i, j): types i and j from a family of 13 (scalars, a file
// type, the untyped map, typed maps, arrays, a struct, a wider struct, an array
// of structs), each also as the element of an array, the value of a typed map
// and the single member of a struct.
//
//	C17: assignability is reflexive, and an array / typed map / struct is
//	     assignable from another exactly when its component is assignable from
//	     the other's component.
func H_C17_assignability(i, j int) {
	ast := c17AssignFixture()
	lookup := &ast.TypeTable
	params := ast.Stages[0].InParams.Table
	get := func(prefix string, k int) Type {
		p := params[prefix+string(rune('a'+k))]
		if p == nil {
			return nil
		}
		return lookup.Get(p.Tname)
	}
	ti, tj := get("p", i), get("p", j)
	verifCover("assignability compared")
	if i == j {
		verifAssert(ti.IsAssignableFrom(tj, lookup) == nil, "C17: assignability is reflexive")
	}
	base := ti.IsAssignableFrom(tj, lookup) == nil
	for _, wrap := range []struct{ prefix, what string }{{"a", "arrays"}, {"m", "typed maps"}, {"w", "structs"}} {
		wi, wj := get(wrap.prefix, i), get(wrap.prefix, j)
		if wi == nil || wj == nil {
			continue
		}
		got := wi.IsAssignableFrom(wj, lookup) == nil
		if wrap.prefix == "w" {
			verifAssert(got == base, "C17: a struct is assignable from another exactly when its member is assignable from the other's member")
		} else if wrap.prefix == "a" {
			verifAssert(got == base, "C17: an array is assignable from another exactly when its element type is assignable from the other's")
		} else {
			verifAssert(got == base, "C17: a typed map is assignable from another exactly when its value type is assignable from the other's")
		}
	}
}

// ---- C15: which callable an aliased call runs ----

var c15Callees = [3]string{"PLAIN", "CHUNKED", "FLOATY"}

func c15CalleeProgram(first, second int) string {
	return `
stage PLAIN(
    in  int x,
    out int y,
    src comp "p",
)

stage CHUNKED(
    in  int x,
    out int y,
    src comp "p",
) split (
)

stage FLOATY(
    in  int   x,
    out float y,
    src comp  "p",
)

stage USE(
    in  float a,
    in  float b,
    out int   r,
    src comp  "u",
)

pipeline TOP(
    out int r,
)
{
    call ` + c15Callees[first] + ` as FIRST(
        x = 1,
    )

    call ` + c15Callees[second] + ` as SECOND(
        x = 2,
    )

    call USE(
        a = FIRST.y,
        b = SECOND.y,
    )

    return (
        r = USE.r,
    )
}

call TOP()
`
}

// H_C15_callees(old, new): two aliased calls FIRST and SECOND each run one of
// three stages which differ in what would run (splitting or not, output type);
// old and new encode the pair of stages before and after the edit (3 x 3
// each).  Names, bindings and modifiers of the calls never change.
//
//	C15: re-attach is accepted exactly when both calls still run the stage
//	     they ran before - also when the stage a call is switched to is run,
//	     unchanged, by the other call.
func H_C15_callees(old, neu int) {
	oldAst := c15Compile(c15CalleeProgram(old/3, old%3))
	newAst := c15Compile(c15CalleeProgram(neu/3, neu%3))
	got := newAst.EquivalentCall(oldAst)
	verifCover("aliased calls compared")
	if old == neu {
		verifAssert(got, "C15: re-attach succeeds for an unchanged program")
	} else {
		verifAssert(!got, "C15: re-attach is refused when an aliased call was switched to another stage (what would run changed), whatever the other calls run")
	}
	verifAssert(oldAst.EquivalentCall(newAst) == got, "C15: the comparison is symmetric")
}

// H_C15_structKinds(arr): under one name, INNER, the member type of ST is a
// struct in one invocation and a file type in the other.
//
//	C15: re-attach is refused in both directions (a parameter type changed).
func H_C15_structKinds(arr int) {
	t := "ST"
	if arr != 0 {
		t = "ST[]"
	}
	n := len(c15StructVariants)
	a := c15Compile(c15RealProgram(t, c15StructVariants[n-2].def))
	b := c15Compile(c15RealProgram(t, c15StructVariants[n-1].def))
	verifCover("a type name changing its kind compared")
	verifAssert(!a.EquivalentCall(b), "C15: re-attach is refused when a type name that was a file type now names a struct")
	verifAssert(!b.EquivalentCall(a), "C15: re-attach is refused when a type name that was a struct now names a file type")
}
