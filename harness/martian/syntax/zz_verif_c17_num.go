//verif:native-env

package syntax

// C17 — filtering a number to int (BuiltinType.FilterJson): "writing integral
// floats as integers" must not change the value.
//
// Floating point is not symbolic in this engine: the literals come from a
// concrete table chosen around the places where float64 and int64 part ways
// (2^53, 2^63, exponents, fractions, negative zero).  encoding/json is
// replaced, for numbers only, by strconv (which is what encoding/json itself
// uses for them); the native replay runs the real encoding/json.

import (
	"encoding/json"
	"errors"
	"strconv"
)

//verif:stub encoding/json.Unmarshal
func c17nUnmarshal(data []byte, v any) error {
	switch p := v.(type) {
	case *int64:
		n, err := strconv.ParseInt(string(data), 10, 64)
		if err != nil {
			return errors.New("json: cannot unmarshal number into Go value of type int64")
		}
		*p = n
		return nil
	case *float64:
		f, err := strconv.ParseFloat(string(data), 64)
		if err != nil {
			return errors.New("json: cannot unmarshal number into Go value of type float64")
		}
		*p = f
		return nil
	}
	panic("json model: numbers only")
}

//verif:stub encoding/json.Marshal
func c17nMarshal(v any) ([]byte, error) {
	switch p := v.(type) {
	case *int64:
		return strconv.AppendInt(nil, *p, 10), nil
	case int64:
		return strconv.AppendInt(nil, p, 10), nil
	}
	panic("json model: numbers only")
}

// literal, and the integer it denotes exactly ("" = not an integer, or not
// representable as int64)
var c17Numbers = [][2]string{
	{"0", "0"}, {"7", "7"}, {"-12", "-12"},
	{"1.0", "1"}, {"2.50", ""}, {"-3.000", "-3"}, {"1e3", "1000"}, {"1.5e1", "15"}, {"1.25e1", ""},
	{"-0.0", "0"}, {"0.1", ""}, {"123456789012345678", "123456789012345678"},
	{"9007199254740992.0", "9007199254740992"}, {"9007199254740993.0", "9007199254740993"},
	{"9007199254740993", "9007199254740993"},
	{"1e16", "10000000000000000"}, {"12345678901234567.0", "12345678901234567"},
	{"9223372036854775807", "9223372036854775807"}, {"9223372036854775807.0", "9223372036854775807"},
	{"9223372036854775808", ""}, {"9223372036854775808.0", ""}, {"9.223372036854775808e18", ""},
	{"-9223372036854775808", "-9223372036854775808"}, {"-9223372036854775808.0", "-9223372036854775808"},
	{"-9223372036854775809", ""}, {"1e19", ""}, {"-1e19", ""}, {"1e400", ""},
}

// H_C17_intLiterals(i): literal i filtered to int.
//
//	C17: when filtering accepts the number, what it returns denotes exactly the
//	     same integer (an integer literal comes back as it is; an integral
//	     float is written as that integer); a number that is not an integer, or
//	     does not fit, is never turned into some other integer.
func H_C17_intLiterals(i int) {
	lit, want := c17Numbers[i][0], c17Numbers[i][1]
	t := &BuiltinType{Id: KindInt}
	f, fatal, err := t.FilterJson(json.RawMessage(lit), nil)
	verifCover("number filtered to int")
	// (a non-fatal error is reported next to a usable result: the runtime
	// delivers that result - LazyArgumentMap.Path drops non-fatal errors)
	_ = err
	if fatal {
		verifCover("number refused")
		return
	}
	verifCover("number accepted")
	verifAssert(want != "", "C17: a number that is not an integer (or does not fit an int) is never turned into an integer by filtering")
	if want != "" {
		verifAssert(string(f) == want || string(f) == lit && lit == want, "C17: filtering a number to int writes the same integer (integral floats as that integer), it never changes the value")
	}
}
