//verif:native-env

package syntax

// C17 — filtering a number to int (BuiltinType.FilterJson): "writing integral
// floats as integers" must not change the value.
//
// Floating point is not symbolic in this engine: the literals come from a
// concrete table chosen around the places where float64 and int64 part ways
// (2^53, 2^63, exponents, fractions, negative zero).  encoding/json is
// replaced, for numbers only, by strconv (which is what encoding/json itself
// uses for them); the native replay runs the real encoding/json.

import (
	"encoding/json"
	"errors"
	"strconv"
)

//verif:stub encoding/json.Unmarshal
func c17nUnmarshal(data []byte, v any) error {
	switch p := v.(type) {
	case *int64:
		n, err := strconv.ParseInt(string(data), 10, 64)
		if err != nil {
			return errors.New("json: cannot unmarshal number into Go value of type int64")
		}
		*p = n
		return nil
	case *float64:
		f, err := strconv.ParseFloat(string(data), 64)
		if err != nil {
			return errors.New("json: cannot unmarshal number into Go value of type float64")
		}
		*p = f
		return nil
	case *[]json.RawMessage:
		// arrays of numbers and arrays of such arrays, without white space
		if len(data) < 2 || data[0] != '[' || data[len(data)-1] != ']' {
			return errors.New("json: cannot unmarshal into array")
		}
		*p = nil
		// (encoding/json's RawMessage elements alias a copy of the input)
		data = append([]byte(nil), data...)
		for _, part := range c17nSplit(data[1 : len(data)-1]) {
			*p = append(*p, json.RawMessage(part))
		}
		return nil
	case *map[string]json.RawMessage:
		// objects with plain one-letter keys
		if len(data) < 2 || data[0] != '{' || data[len(data)-1] != '}' {
			return errors.New("json: cannot unmarshal into object")
		}
		*p = map[string]json.RawMessage{}
		data = append([]byte(nil), data...)
		for _, part := range c17nSplit(data[1 : len(data)-1]) {
			if len(part) < 5 || part[0] != '"' || part[2] != '"' || part[3] != ':' {
				panic("json model: one-letter keys only")
			}
			(*p)[string(part[1:2])] = json.RawMessage(part[4:])
		}
		return nil
	}
	panic("json model: numbers and containers of numbers only")
}

// c17nSplit cuts at the commas which are not inside brackets; the parts alias
// its argument.
func c17nSplit(b []byte) [][]byte {
	var parts [][]byte
	depth, start := 0, 0
	for i, c := range b {
		switch c {
		case '[', '{':
			depth++
		case ']', '}':
			depth--
		case ',':
			if depth == 0 {
				parts = append(parts, b[start:i])
				start = i + 1
			}
		}
	}
	if start < len(b) {
		parts = append(parts, b[start:])
	}
	return parts
}

//verif:stub encoding/json.Marshal
func c17nMarshal(v any) ([]byte, error) {
	switch p := v.(type) {
	case *int64:
		return strconv.AppendInt(nil, *p, 10), nil
	case int64:
		return strconv.AppendInt(nil, p, 10), nil
	case string:
		return []byte(`"` + p + `"`), nil
	}
	panic("json model: numbers only")
}

// literal, and the integer it denotes exactly ("" = not an integer, or not
// representable as int64)
var c17Numbers = [][2]string{
	{"0", "0"}, {"7", "7"}, {"-12", "-12"},
	{"1.0", "1"}, {"2.50", ""}, {"-3.000", "-3"}, {"1e3", "1000"}, {"1.5e1", "15"}, {"1.25e1", ""},
	{"-0.0", "0"}, {"0.1", ""}, {"123456789012345678", "123456789012345678"},
	{"9007199254740992.0", "9007199254740992"}, {"9007199254740993.0", "9007199254740993"},
	{"9007199254740993", "9007199254740993"},
	{"1e16", "10000000000000000"}, {"12345678901234567.0", "12345678901234567"},
	{"9223372036854775807", "9223372036854775807"}, {"9223372036854775807.0", "9223372036854775807"},
	{"9223372036854775808", ""}, {"9223372036854775808.0", ""}, {"9.223372036854775808e18", ""},
	{"-9223372036854775808", "-9223372036854775808"}, {"-9223372036854775808.0", "-9223372036854775808"},
	{"-9223372036854775809", ""}, {"1e19", ""}, {"-1e19", ""}, {"1e400", ""},
}

// H_C17_intLiterals(i): literal i filtered to int.
//
//	C17: when filtering accepts the number, what it returns denotes exactly the
//	     same integer (an integer literal comes back as it is; an integral
//	     float is written as that integer); a number that is not an integer, or
//	     does not fit, is never turned into some other integer.
func H_C17_intLiterals(i int) {
	lit, want := c17Numbers[i][0], c17Numbers[i][1]
	t := &BuiltinType{Id: KindInt}
	f, fatal, err := t.FilterJson(json.RawMessage(lit), nil)
	verifCover("number filtered to int")
	// (a non-fatal error is reported next to a usable result: the runtime
	// delivers that result - LazyArgumentMap.Path drops non-fatal errors)
	_ = err
	if fatal {
		verifCover("number refused")
		return
	}
	verifCover("number accepted")
	verifAssert(want != "", "C17: a number that is not an integer (or does not fit an int) is never turned into an integer by filtering")
	if want != "" {
		verifAssert(string(f) == want || string(f) == lit && lit == want, "C17: filtering a number to int writes the same integer (integral floats as that integer), it never changes the value")
	}
}

// integral floats whose integer text is as long as the float text, next to
// ordinary spellings
var c17SameLength = [][2]string{
	{"1e2", "100"}, {"1E2", "100"}, {"-1e2", "-100"}, {"15e2", "1500"}, {"1.0e4", "10000"},
	{"1.0", "1"}, {"1e3", "1000"}, {"7", "7"}, {"120e-1", "12"},
}

const c17nSrc = `
struct S(
    int a,
)

stage T(
    in  int[]    xs,
    in  map<int> m,
    in  S        s,
    in  int[][]  g,
    out int      r,
    src comp     "t",
)
`

// H_C17_intContainers(i, shape): an integral float at an int position inside
// an array, a typed map, a struct, a two-dimensional array, or next to a
// sibling which does not change.
//
//	C17: filtering writes the integer at every depth (the result is not the
//	     unchanged input), is idempotent, and does not modify the caller's
//	     buffer.
func H_C17_intContainers(i, shape int) {
	lit, want := c17SameLength[i][0], c17SameLength[i][1]
	var parser Parser
	ast, err := parser.UncheckedParse([]byte(c17nSrc), "/m/n.mro")
	if err == nil {
		err = ast.compile()
	}
	if err != nil {
		panic("fixture does not compile: " + err.Error())
	}
	lookup := &ast.TypeTable
	stage := ast.Callables.Table["T"]
	param := []string{"xs", "m", "s", "g", "xs"}[shape]
	t := lookup.Get(stage.GetInParams().Table[param].Tname)
	wrap := func(v string) string {
		switch shape {
		case 0:
			return "[" + v + "]"
		case 1:
			return `{"k":` + v + `}`
		case 2:
			return `{"a":` + v + `}`
		case 3:
			return "[[" + v + "],[]]"
		}
		return "[" + v + ",5]"
	}
	in := []byte(wrap(lit))
	keep := string(in)
	out, fatal, _ := t.FilterJson(json.RawMessage(in), lookup)
	verifCover("integral float filtered inside a container")
	verifAssert(!fatal, "C17: an integral float is a valid int at any depth")
	if fatal {
		return
	}
	got := string(out)
	verifAssert(got == wrap(want), "C17: filtering writes an integral float as the integer it denotes at every depth of arrays, typed maps and structs")
	verifAssert(string(in) == keep, "C17: filtering does not modify the value it was given")
	again, fatal2, _ := t.FilterJson(json.RawMessage([]byte(got)), lookup)
	verifAssert(!fatal2 && string(again) == got, "C17: filtering is idempotent")
}
