//verif:native

package syntax

import "strings"

// C08 — the parser is total: any input yields a tree or a located error.

func prefixOf(val, b []byte) bool {
	if len(val) > len(b) {
		return false
	}
	r := true
	for i := range val {
		r = verifAll(r, val[i] == b[i])
	}
	return r
}

// H_C08_nextToken: one lexer step on arbitrary bytes never panics, returns a
// prefix of its input, and never returns an empty SKIP/COMMENT (Lex would spin).
func H_C08_nextToken(n int) {
	b := verifBytes("b", n)
	tok, val := nextToken(b)
	verifCover("lexed")
	verifAssert(prefixOf(val, b), "token text is a prefix of the input")
	if tok == SKIP || tok == COMMENT {
		verifAssert(len(val) > 0, "skipped tokens make progress")
	}
	if tok != INVALID {
		verifAssert(len(val) > 0, "every valid token is non-empty")
	}
}

// c08KnownTokens: exclusions for the recorded findings, phrased over what the
// lexer returns for the input (not over the input bytes).
func c08TokenExclusions(tok int, val []byte) {
	if verifKnown("C08-float-colon") && tok == NUM_FLOAT {
		colon := false
		for i := range val {
			colon = verifAny(colon, val[i] == ':')
		}
		verifAssume(!colon)
	}
}

// H_C08_lexerPromise: whatever the lexer hands the grammar as NUM_INT,
// NUM_FLOAT or LITSTRING is accepted, without panic, by the very functions the
// grammar actions call on it.
func H_C08_lexerPromise(n int) {
	b := verifBytes("b", n)
	tok, val := nextToken(b)
	c08TokenExclusions(tok, val)
	switch tok {
	case NUM_INT:
		verifCover("int token")
		_ = parseInt(val)
	case NUM_FLOAT:
		verifCover("float token")
		_ = parseFloat(val)
	case LITSTRING:
		verifCover("string token")
		out := unquoteBytes(val)
		verifAssert(len(out) <= len(val), "unquoted string is not longer than its literal")
	}
}

func allDigits(b []byte) bool {
	r := true
	for i := range b {
		r = verifAll(r, b[i] >= '0', b[i] <= '9')
	}
	return r
}

// fitsInt64 decides, digit by digit, whether the decimal digits (no sign)
// denote a value <= limit (a 19 digit decimal string).
func decimalLE(digits []byte, limit string) bool {
	// strip leading zeros
	for len(digits) > 0 && digits[0] == '0' {
		digits = digits[1:]
	}
	if len(digits) != len(limit) {
		return len(digits) < len(limit)
	}
	for i := range digits {
		if digits[i] != limit[i] {
			return digits[i] < limit[i]
		}
	}
	return true
}

// H_C08_intToken: long digit strings (the integer token admits up to 19
// digits after any number of zeros) must be parseable whenever the lexer
// calls them NUM_INT.  neg selects a leading '-'.
func H_C08_intToken(n int, neg int) {
	d := verifBytes("d", n)
	verifAssume(allDigits(d))
	b := d
	if neg != 0 {
		b = append([]byte{'-'}, d...)
	}
	tok, val := nextToken(b)
	if tok == NUM_INT {
		verifCover("long int token")
		if verifKnown("C08-int-range") {
			digits := val
			if neg != 0 {
				digits = val[1:]
				verifAssume(decimalLE(digits, "9223372036854775808"))
			} else {
				verifAssume(decimalLE(digits, "9223372036854775807"))
			}
		}
		_ = parseInt(val)
	}
}

// H_C08_unicodeEscape: a string literal consisting of one \U escape with 8
// arbitrary hex digits (the longest escape) unquotes without panic.
func H_C08_unicodeEscape() {
	h := verifBytes("h", 8)
	for i := range h {
		verifAssume(verifAny(verifAll(h[i] >= '0', h[i] <= '9'), verifAll(h[i] >= 'a', h[i] <= 'f'), verifAll(h[i] >= 'A', h[i] <= 'F')))
	}
	lit := append(append([]byte(`"\U`), h...), '"')
	tok, val := nextToken(lit)
	verifCover("U escape")
	verifAssert(tok == LITSTRING && len(val) == len(lit), "a \\U escape is one string token")
	out := unquoteBytes(val)
	verifAssert(len(out) >= 1 && len(out) <= 4, "a \\U escape denotes one encoded rune")
}

// H_C08_parseValExp: the whole expression parser (real lexer + yacc tables +
// grammar actions) on n arbitrary bytes returns a value or an error and
// never panics; an error carries a source position.
func H_C08_parseValExp(n int) {
	b := verifBytes("b", n)
	// known findings are phrased over the tokens the lexer produces
	if verifKnown("C08-float-colon") || verifKnown("C08-int-range") {
		rest := b
		for len(rest) > 0 {
			tok, val := nextToken(rest)
			if len(val) == 0 {
				break
			}
			c08TokenExclusions(tok, val)
			rest = rest[len(val):]
		}
	}
	var parser Parser
	exp, err := parser.ParseValExp(b)
	verifCover("parsed")
	if err == nil {
		verifAssert(exp != nil, "success yields an expression")
	} else {
		if le, ok := err.(*mmLexError); ok {
			verifAssert(le.info.loc.Line >= 1, "a syntax error carries a line number")
		} else {
			_, located := err.(*wrapError)
			verifAssert(located, "C08: every error of the expression parser carries a source position (also 'this is not an expression')")
		}
	}
}

// H_C08_lex: the scanner loop terminates on arbitrary bytes and consumes its
// input monotonically.
func H_C08_lex(n int) {
	b := verifBytes("b", n)
	info := mmLexInfo{src: b, loc: SourceLoc{Line: 1, Col: 1}, intern: makeStringIntern()}
	var lval mmSymType
	last := -1
	for i := 0; i <= n; i++ {
		tok := info.Lex(&lval)
		if tok == 0 || tok == INVALID {
			verifCover("scan ended")
			return
		}
		verifAssert(info.pos > last, "each token consumes input")
		last = info.pos
	}
	verifAssert(false, "more tokens than input bytes")
}

// H_C08_srcLiteral: a stage declaration whose src string is n arbitrary
// bytes (any bytes that keep it one string token) parses to a tree or a
// located error; the grammar action that splits the command never panics.
func H_C08_srcLiteral(n int) {
	body := verifBytes("body", n)
	for i := range body {
		verifAssume(verifAll(body[i] != '"', body[i] != '\\'))
	}
	src := append(append([]byte(`stage A(in int a, src py "`), body...), []byte(`",)`)...)
	ast, err := yaccParse(src, &SourceFile{FileName: "x.mro"}, makeStringIntern())
	verifCover("stage parsed")
	if err == nil {
		verifAssert(ast != nil && len(ast.Callables.List) == 1, "one stage declared")
	}
}

// H_C08_escape: a string literal that starts with a backslash escape followed
// by n arbitrary bytes (every escape form up to n bytes, complete or not):
// whatever the lexer accepts as a string token, unquoteBytes accepts.
func H_C08_escape(n int) {
	body := verifBytes("e", n)
	lit := append(append([]byte{'"', '\\'}, body...), '"')
	tok, val := nextToken(lit)
	if tok == LITSTRING {
		verifCover("escaped string token")
		out := unquoteBytes(val)
		verifAssert(len(out) <= len(val), "unquoted escape is not longer than its literal")
	}
}

// ---- C16: JSON string escapes read by the MRO tokenizer ----

func c16Hex(tag string) (byte, rune) {
	c := verifByte(tag)
	isDigit := verifAll(c >= '0', c <= '9')
	isLower := verifAll(c >= 'a', c <= 'f')
	isUpper := verifAll(c >= 'A', c <= 'F')
	verifAssume(verifAny(isDigit, isLower, isUpper))
	switch {
	case isDigit:
		return c, rune(c - '0')
	case isLower:
		return c, rune(c-'a') + 10
	}
	return c, rune(c-'A') + 10
}

func c16Utf8(cp rune) []byte {
	switch {
	case cp < 0x80:
		return []byte{byte(cp)}
	case cp < 0x800:
		return []byte{0xc0 | byte(cp>>6), 0x80 | byte(cp)&0x3f}
	case cp < 0x10000:
		return []byte{0xe0 | byte(cp>>12), 0x80 | byte(cp>>6)&0x3f, 0x80 | byte(cp)&0x3f}
	}
	return []byte{0xf0 | byte(cp>>18), 0x80 | byte(cp>>12)&0x3f, 0x80 | byte(cp>>6)&0x3f, 0x80 | byte(cp)&0x3f}
}

// H_C16_jsonEscapes(kind): invocation data is JSON, and its values are read
// with the MRO value parser.  kind 0: "\uXXXX" with four arbitrary hex digits
// that are not a surrogate; kind 1: a UTF-16 surrogate pair "\uD8XX\uDCXX" (how
// JSON writers that escape non-ASCII text spell characters beyond U+FFFF);
// kind 2: the two-character escapes JSON defines (\" \\ \/ \b \f \n \r \t).
//
//	C16: the string the parser produces is the string the JSON text denotes
//	     (RFC 8259): the UTF-8 encoding of the code point; nothing is lost or
//	     replaced.
func H_C16_jsonEscapes(kind int) {
	var lit, want []byte
	switch kind {
	case 0:
		lit = []byte(`"\u`)
		var cp rune
		for i := 0; i < 4; i++ {
			c, v := c16Hex("hex digit")
			lit = append(lit, c)
			cp = cp<<4 | v
		}
		lit = append(lit, '"')
		verifAssume(verifAny(cp < 0xd800, cp > 0xdfff))
		want = c16Utf8(cp)
	case 1:
		lit = []byte(`"\uD`)
		hi, lo := rune(0xd), rune(0xd)
		c, v := c16Hex("high surrogate digit")
		verifAssume(verifAll(v >= 8, v <= 0xb))
		lit, hi = append(lit, c), hi<<4|v
		for i := 0; i < 2; i++ {
			c, v = c16Hex("hex digit")
			lit, hi = append(lit, c), hi<<4|v
		}
		lit = append(lit, `\uD`...)
		c, v = c16Hex("low surrogate digit")
		verifAssume(v >= 0xc)
		lit, lo = append(lit, c), lo<<4|v
		for i := 0; i < 2; i++ {
			c, v = c16Hex("hex digit")
			lit, lo = append(lit, c), lo<<4|v
		}
		lit = append(lit, '"')
		want = c16Utf8(0x10000 + (hi-0xd800)<<10 + (lo - 0xdc00))
	default:
		escapes := []byte(`"\/bfnrt`)
		values := []byte("\"\\/\b\f\n\r\t")
		i := verifInt("which escape")
		verifAssume(verifAll(i >= 0, i < len(escapes)))
		i = verifConcretize(i)
		lit = []byte{'"', 'a', '\\', escapes[i], 'b', '"'}
		want = []byte{'a', values[i], 'b'}
	}
	var parser Parser
	exp, err := parser.ParseValExp(lit)
	verifCover("JSON escape parsed")
	verifAssert(err == nil, "C16: every string escape JSON defines is accepted in invocation data")
	if err != nil {
		return
	}
	s, ok := exp.(*StringExp)
	verifAssert(ok, "C16: a JSON string converts to a string expression")
	if ok {
		verifAssert(verifBytesEq([]byte(s.Value), want), "C16: an escaped character in invocation data denotes the same text in the call (\\uXXXX is the code point; a surrogate pair is one character)")
	}
}

// ---- C08: small programs at the corners of the compile passes ----

var c08Corners = []string{
	// 0: two pipelines calling each other, without parameters
	"pipeline A(\n    out int y,\n)\n{\n    call B()\n\n    return (\n        y = 1,\n    )\n}\n\npipeline B(\n    out int y,\n)\n{\n    call A()\n\n    return (\n        y = A.y,\n    )\n}\n\ncall A()\n",
	// 1..3: resource values beyond the float32 range
	"stage A(\n    in  int x,\n    src comp \"x\",\n) using (\n    mem_gb = 1e39,\n)\n",
	"stage A(\n    in  int x,\n    src comp \"x\",\n) using (\n    threads = 1e39,\n)\n",
	"stage A(\n    in  int x,\n    src comp \"x\",\n) using (\n    vmem_gb = -1e39,\n)\n",
	// 4: a wildcard binding of the top-level call
	"stage A(\n    in  int x,\n    src comp \"x\",\n)\n\ncall A(\n    * = self,\n)\n",
	// 5: three pipelines calling each other in a ring, with a parameter passed along
	"pipeline A(\n    in  int x,\n)\n{\n    call B(\n        x = self.x,\n    )\n\n    return ()\n}\n\npipeline B(\n    in  int x,\n)\n{\n    call C(\n        x = self.x,\n    )\n\n    return ()\n}\n\npipeline C(\n    in  int x,\n)\n{\n    call A(\n        x = self.x,\n    )\n\n    return ()\n}\n\ncall A(\n    x = 1,\n)\n",
	// 6: a valid control program
	"stage A(\n    in  int x,\n    src comp \"x\",\n) using (\n    mem_gb = 1.5,\n)\n\ncall A(\n    x = 1,\n)\n",
}

// H_C08_compileCorners(i): parse, compile and resolve the call graph of small
// program i.
//
//	C08: the result is a tree or an error; never a panic, and never unbounded
//	     recursion (more than 150 nested calls on these few lines is the Go
//	     runtime's fatal stack overflow).
func H_C08_compileCorners(i int) {
	verifRecursionLimit(150)
	var parser Parser
	_, _, ast, err := parser.ParseSourceBytes([]byte(c08Corners[i]), "/m/corner.mro", nil, false)
	verifCover("corner program compiled")
	if err == nil && ast != nil && ast.Call != nil {
		_, gerr := ast.MakeCallGraph("ID.", ast.Call)
		_ = gerr
		verifCover("corner program resolved")
	}
	if i == 6 {
		verifAssert(err == nil, "the control program compiles")
	}
}

// H_C08_mismatchText(kind, n, where): a string literal of n characters of 1, 2,
// 3 or 4 bytes each (kind) is bound to an int parameter - directly, inside an
// array literal or inside a map literal - so that the compiler has to describe
// the offending value in its error.
//
//	C08: the program is rejected with an error (whose text can be produced);
//	     the compiler does not crash while abbreviating the value, whatever the
//	     relation between its length in bytes and in characters.
func H_C08_mismatchText(kind, n, where int) {
	unit := []string{"a", "é", "€", "\U0001F9EC"}[kind]
	lit := ""
	for i := 0; i < n; i++ {
		lit += unit
	}
	value := `"` + lit + `"`
	switch where {
	case 1:
		value = "[" + value + "]"
	case 2:
		value = `{"k": ` + value + `}`
	}
	src := "stage S(\n    in  int x,\n    out int y,\n    src comp \"s\",\n)\n\ncall S(\n    x = " + value + ",\n)\n"
	var parser Parser
	_, _, _, err := parser.ParseSourceBytes([]byte(src), "/m/mm.mro", nil, false)
	verifCover("ill-typed string literal compiled")
	verifAssert(err != nil, "C07/C08: a string bound to an int parameter is rejected with an error")
	if err != nil {
		verifAssert(len(err.Error()) > 0, "C08: the error has a text")
	}
}

var c08WrongKind = []string{"1", "null", "\"a\"", "[1]", "{}", "true", "-2.5"}

// H_C08_wrongKind(i): a bare value expression presented as MRO source, and a
// small MRO file presented as a value expression.
//
//	C08: both are rejected with an error which carries a source position.
func H_C08_wrongKind(i int) {
	var parser Parser
	_, err := parser.UncheckedParse([]byte(c08WrongKind[i]), "/m/v.mro")
	verifCover("value presented as MRO source")
	verifAssert(err != nil, "C08: a bare value is not an MRO file")
	if err != nil {
		verifAssert(strings.Contains(err.Error(), "/m/v.mro:1"), "C08: the error for a value presented as MRO source carries a source position")
	}
	_, err = parser.ParseValExp([]byte("filetype a;\n"))
	verifAssert(err != nil, "C08: an MRO file is not a value expression")
	if err != nil {
		verifAssert(strings.Contains(err.Error(), ":1") || strings.Contains(err.Error(), "line 1"), "C08: the error for MRO text presented as a value carries a source position")
	}
}

// H_C08_lineAfterString(n): a string literal which spans n + 1 lines (raw line
// breaks inside the quotes) is followed, later in the file, by a mistake: a
// syntax error (kind 0) or a call to a stage which does not exist (kind 1).
//
//	C08: the error carries the position of the mistake: the physical line it
//	     is on.
func H_C08_lineAfterString(n, kind int) {
	lit := "first"
	for i := 0; i < n; i++ {
		lit += "\nmore"
	}
	src := "stage A(\n    in  int x,\n    src comp \"" + lit + "\",\n)\n\n"
	line := 6 + n
	if kind == 0 {
		src += "call A(\n    x = = 1,\n)\n"
		line++ // the stray '=' is on the second line of the call
	} else {
		src += "call MISSING(\n    x = 1,\n)\n"
	}
	var parser Parser
	_, _, _, err := parser.ParseSourceBytes([]byte(src), "/m/l.mro", nil, false)
	verifCover("mistake after a multi-line string compiled")
	verifAssert(err != nil, "the mistake is reported")
	if err != nil {
		verifAssert(strings.Contains(err.Error(), "/m/l.mro:"+c07Itoa(line)), "C08: an error after a string literal which spans several lines carries the physical line of the mistake")
	}
}
