package syntax

// C10 — where stage code is looked for (ParseSourceBytes with checkSrc): the
// directories of all source files are added to the search path.  With the
// sources spread over three directories and stage code which does not exist,
// the error lists the directories searched.

import (
	"os"
)

var vsrcFiles = map[string]string{
	"/m/top.mro": "@include \"a/x.mro\"\n@include \"b/y.mro\"\n@include \"c/z.mro\"\n\npipeline P(\n    in  int x,\n)\n{\n    call SX(\n        x = self.x,\n    )\n\n    call SY(\n        x = self.x,\n    )\n\n    call SZ(\n        x = self.x,\n    )\n\n    return ()\n}\n",
	"/m/a/x.mro": "stage SX(\n    in  int x,\n    src py  \"stages/tool_x\",\n)\n",
	"/m/b/y.mro": "stage SY(\n    in  int x,\n    src py  \"stages/tool_y\",\n)\n",
	"/m/c/z.mro": "stage SZ(\n    in  int x,\n    src py  \"stages/tool_z\",\n)\n",
}

//verif:stub os.Stat
func vsrcStat(name string) (os.FileInfo, error) {
	if _, ok := vsrcFiles[name]; ok {
		return nil, nil
	}
	return nil, &os.PathError{Op: "stat", Path: name, Err: os.ErrNotExist}
}

//verif:stub os.ReadFile
func vsrcReadFile(name string) ([]byte, error) {
	if text, ok := vsrcFiles[name]; ok {
		return []byte(text), nil
	}
	return nil, &os.PathError{Op: "open", Path: name, Err: os.ErrNotExist}
}

//verif:stub os.Getenv
func vsrcGetenv(key string) string { return "" }

func vsrcCompile() string {
	var parser Parser
	_, _, _, err := parser.ParseSourceBytes([]byte(vsrcFiles["/m/top.mro"]), "/m/top.mro", []string{"/m"}, true)
	if err == nil {
		return "<nil>"
	}
	return err.Error()
}

// H_C10_srcSearchPath: a program whose sources lie in three directories and
// whose stage code is nowhere to be found is compiled with the stage code
// check, under four map iteration orders.
//
//	C10: the error text (which lists the directories searched, in the order in
//	     which they are searched) is the same every time.
func H_C10_srcSearchPath() {
	verifReverseMapOrder(false)
	a := vsrcCompile()
	verifReverseMapOrder(true)
	b := vsrcCompile()
	verifReverseMapOrder(false)
	verifKeyMapOrder(1)
	c := vsrcCompile()
	verifKeyMapOrder(-1)
	d := vsrcCompile()
	verifKeyMapOrder(0)
	verifCover("stage code searched under four map orders")
	verifAssert(a != "<nil>", "missing stage code is reported")
	verifAssert(a == b && a == c && a == d, "C10: the directories in which stage code is searched, and the error listing them, do not depend on map iteration order (ghost)")
}
