package syntax

// C08 — include resolution is total: for every include graph the parser
// returns a tree or a located error; it never crashes.
//
// n files /m/f0.mro (the root) .. /m/f<n-1>.mro exist.  Which file includes
// which (any pair, self-includes too) and whether a file lists its includes in
// ascending or descending order is symbolic; a file's text is generated from
// those bits when the parser first reads it and goes through the real lexer,
// yacc tables and grammar actions.  The real Parser.UncheckedParseIncludes,
// parseSource, getIncludes, SourceFile.checkIncludes, Ast.merge,
// IncludeFilePath and util.FindUniquePath run; only os.Stat / os.ReadFile are
// replaced.
//
//	C08: no panic and no unbounded recursion (a Go stack overflow is fatal, no
//	     error is reported to the user), and an error is reported exactly when
//	     a cycle (or self-include) is reachable from the root.

import (
	"errors"
	"os"
)

var (
	viN     int
	viEdge  [6][6]bool
	viAsked [6]bool
	viRev   [6]bool
)

var viNames = [6]string{"f0.mro", "f1.mro", "f2.mro", "f3.mro", "f4.mro", "f5.mro"}
var viEdgeNames = [6][6]string{
	{"f0 includes f0", "f0 includes f1", "f0 includes f2", "f0 includes f3", "f0 includes f4", "f0 includes f5"},
	{"f1 includes f0", "f1 includes f1", "f1 includes f2", "f1 includes f3", "f1 includes f4", "f1 includes f5"},
	{"f2 includes f0", "f2 includes f1", "f2 includes f2", "f2 includes f3", "f2 includes f4", "f2 includes f5"},
	{"f3 includes f0", "f3 includes f1", "f3 includes f2", "f3 includes f3", "f3 includes f4", "f3 includes f5"},
	{"f4 includes f0", "f4 includes f1", "f4 includes f2", "f4 includes f3", "f4 includes f4", "f4 includes f5"},
	{"f5 includes f0", "f5 includes f1", "f5 includes f2", "f5 includes f3", "f5 includes f4", "f5 includes f5"},
}

func viIndex(name string) int {
	for i := 0; i < viN; i++ {
		if name == "/m/"+viNames[i] {
			return i
		}
	}
	return -1
}

// viSource decides, the first time file i is read, what it includes, and
// returns its text.
func viSource(i int) []byte {
	if !viAsked[i] {
		viAsked[i] = true
		for j := 0; j < viN; j++ {
			if verifBool(viEdgeNames[i][j]) {
				viEdge[i][j] = true
			}
		}
		if verifBool("descending order") {
			viRev[i] = true
		}
	}
	var src []byte
	for k := 0; k < viN; k++ {
		j := k
		if viRev[i] {
			j = viN - 1 - k
		}
		if viEdge[i][j] {
			src = append(src, "@include \""+viNames[j]+"\"\n"...)
		}
	}
	src = append(src, "filetype t"+viNames[i][1:2]+";\n"...)
	return src
}

//verif:stub os.Stat
func viStat(name string) (os.FileInfo, error) {
	if viIndex(name) >= 0 {
		return nil, nil
	}
	return nil, errors.New("stat " + name + ": no such file or directory")
}

//verif:stub os.ReadFile
func viReadFile(name string) ([]byte, error) {
	if i := viIndex(name); i >= 0 {
		return viSource(i), nil
	}
	return nil, errors.New("open " + name + ": no such file or directory")
}

// viCycle: is a cycle reachable from the root, over the files that were read?
func viCycle() bool {
	// reach[i][j]: a non-empty include path from i to j
	var reach [6][6]bool
	for i := 0; i < viN; i++ {
		for j := 0; j < viN; j++ {
			reach[i][j] = viAsked[i] && viEdge[i][j]
		}
	}
	for k := 0; k < viN; k++ {
		for i := 0; i < viN; i++ {
			for j := 0; j < viN; j++ {
				if reach[i][k] && reach[k][j] {
					reach[i][j] = true
				}
			}
		}
	}
	for i := 0; i < viN; i++ {
		if (i == 0 || reach[0][i]) && reach[i][i] {
			return true
		}
	}
	return false
}

func H_C08_includes(n int) {
	viN = n
	viEdge, viAsked, viRev = [6][6]bool{}, [6]bool{}, [6]bool{}
	verifRecursionLimit(150)
	var parser Parser
	ast, err := parser.UncheckedParseIncludes(viSource(0), "/m/"+viNames[0], []string{"/m"})
	verifCover("includes resolved")
	if viCycle() {
		verifCover("include cycle")
		verifAssert(err != nil, "C08: an include cycle reachable from the root is reported as an error")
		if err != nil {
			verifAssert(len(err.Error()) > 0, "C08: the error has a message")
		}
	} else {
		verifCover("acyclic includes")
		verifAssert(err == nil, "C08: an acyclic include graph is accepted")
		if err == nil {
			verifAssert(ast != nil, "C08: an accepted program yields a tree")
			read := 0
			for i := 0; i < viN; i++ {
				if viAsked[i] {
					read++
				}
			}
			verifAssert(len(ast.UserTypes) == read, "C08: every included file is merged into the tree exactly once")
		}
	}
}
