//verif:native

package syntax

import "bytes"

// Translator self-test (C09/C10): the repository's own test inputs are pushed
// through the real parser and formatter twice — once inside the engine, once
// by the native replay of the same harness — and must agree.
//
// Each testdata file is parsed (no include resolution) and formatted by the
// real code; the harness reaches a cover point whose LABEL contains an FNV-1a
// checksum of the formatted text.  The native replay of that cover witness
// has to reach the very same label, i.e. compute the same text.  Along the
// way the harness asserts, on these concrete inputs, that formatting the
// formatted text again changes nothing.

var selfFiles = []string{
	"martian/syntax/testdata/formatter_test.mro",
	"martian/syntax/testdata/map_call_edge_cases.mro",
	"martian/syntax/testdata/map_call_test.mro",
	"martian/syntax/testdata/resolve_test.mro",
	"martian/syntax/testdata/disable_pipeline.mro",
	"martian/syntax/testdata/disable_bindings.mro",
	"martian/syntax/testdata/stages.mro",
	"martian/syntax/testdata/structs.mro",
	"martian/syntax/testdata/pipeline.mro",
	"martian/syntax/testdata/call.mro",
}

func selfSum(s string) string {
	h := uint64(14695981039346656037)
	for i := 0; i < len(s); i++ {
		h ^= uint64(s[i])
		h *= 1099511628211
	}
	const hex = "0123456789abcdef"
	out := make([]byte, 16)
	for i := 15; i >= 0; i-- {
		out[i] = hex[h&15]
		h >>= 4
	}
	return string(out)
}

func H_SELF_format(i int) {
	src := verifRepoFile(selfFiles[i])
	var parser Parser
	ast, err := parser.UncheckedParse(src, "/m/self.mro")
	if err != nil {
		verifCover("self-test " + selfFiles[i] + " does not parse: " + selfSum(err.Error()))
		return
	}
	text := ast.format(false)
	ast2, err := parser.UncheckedParse([]byte(text), "/m/self.mro")
	verifAssert(err == nil, "C09: the formatted text of a repository test input parses")
	if err == nil {
		verifAssert(ast2.format(false) == text, "C09: formatting the formatted text of a repository test input changes nothing")
	}
	verifCover("self-test formatted")
	verifCover("self-test " + selfFiles[i] + " formats to " + selfSum(text))
}

var selfCompileFiles = []string{
	"martian/syntax/testdata/disable_bindings.mro",
	"martian/syntax/testdata/disable_pipeline.mro",
	"martian/syntax/testdata/map_call_edge_cases.mro",
	"martian/syntax/testdata/map_call_test.mro",
	"martian/syntax/testdata/resolve_test.mro",
	"martian/syntax/testdata/structs.mro",
	"martian/syntax/testdata/stages.mro",
	"martian/core/testdata/struct_pipeline.mro",
	"martian/core/testdata/simple_struct_pipeline.mro",
	"martian/core/testdata/map_call_edge_cases.mro",
}

func selfSortedKeys(m map[string]CallGraphNode) []string {
	keys := make([]string, 0, len(m))
	for k := range m {
		keys = append(keys, k)
	}
	for i := 1; i < len(keys); i++ {
		for j := i; j > 0 && keys[j] < keys[j-1]; j-- {
			keys[j], keys[j-1] = keys[j-1], keys[j]
		}
	}
	return keys
}

// selfDescribe renders what the resolver computed for every node of the call
// graph: kind, resolved inputs, outputs, disabling conditions and fork roots.
func selfDescribe(g CallGraphNode) string {
	var sb []byte
	nodes := g.NodeClosure()
	for _, fq := range selfSortedKeys(nodes) {
		n := nodes[fq]
		sb = append(sb, fq...)
		sb = append(sb, ' ')
		kind := n.Kind()
		sb = append(sb, kind.String()...)
		sb = append(sb, '\n')
		ins := n.ResolvedInputs()
		names := make([]string, 0, len(ins))
		for k := range ins {
			names = append(names, k)
		}
		for i := 1; i < len(names); i++ {
			for j := i; j > 0 && names[j] < names[j-1]; j-- {
				names[j], names[j-1] = names[j-1], names[j]
			}
		}
		for _, k := range names {
			b := ins[k]
			tid := b.Type.TypeId()
			sb = append(sb, ("  in " + k + " " + tid.str() + " = " + b.Exp.GoString())...)
			sb = selfMerges(b.Exp, sb)
			sb = append(sb, '\n')
		}
		if out := n.ResolvedOutputs(); out != nil && out.Exp != nil {
			sb = append(sb, ("  out " + out.Exp.GoString())...)
			sb = selfMerges(out.Exp, sb)
			sb = append(sb, '\n')
		}
		for _, d := range n.Disabled() {
			sb = append(sb, ("  disabled " + d.GoString() + "\n")...)
		}
		for _, r := range n.ForkRoots() {
			sb = append(sb, ("  fork " + r.GoString() + "\n")...)
		}
		// in the order in which the serialized call graph lists them
		for _, r := range n.Retained() {
			sb = append(sb, ("  retained " + r.GoString() + "\n")...)
		}
		// the serialized form of the bindings (fork indices of references)
		for _, k := range names {
			var buf bytes.Buffer
			if err := ins[k].EncodeJSON(&buf); err == nil {
				sb = append(sb, ("  json " + k + " " + buf.String() + "\n")...)
			}
		}
	}
	return string(sb)
}

// selfMerges lists the fork nodes the resolver chose for merge expressions.
func selfMerges(e Exp, out []byte) []byte {
	switch e := e.(type) {
	case *MergeExp:
		if e.ForkNode != nil {
			out = append(out, (" merge-fork-node " + e.ForkNode.Id + "." + e.ForkNode.OutputId)...)
		}
		if e.Value != nil {
			out = selfMerges(e.Value, out)
		}
	case *SplitExp:
		out = selfMerges(e.Value, out)
	case *DisabledExp:
		out = selfMerges(e.Value, out)
		out = selfMerges(e.Disabled, out)
	case *ArrayExp:
		for _, v := range e.Value {
			out = selfMerges(v, out)
		}
	case *MapExp:
		keys := make([]string, 0, len(e.Value))
		for k := range e.Value {
			keys = append(keys, k)
		}
		for i := 1; i < len(keys); i++ {
			for j := i; j > 0 && keys[j] < keys[j-1]; j-- {
				keys[j], keys[j-1] = keys[j-1], keys[j]
			}
		}
		for _, k := range keys {
			out = selfMerges(e.Value[k], out)
		}
	}
	return out
}

// a program whose merge expression has to pick its fork node among several
// split inputs (repository programs have at most one candidate)
const selfMergeSrc = `
stage RANGE(
    in  float begin,
    in  float end,
    out int[] values,
    src py    "stages/range",
)

stage POW(
    in  float x,
    in  float y,
    out float z,
    src py    "stages/pow",
)

stage SUM(
    in  float[] x,
    out float   sum,
    src py      "stages/sum",
)

pipeline CONSTS(
    in  float a,
    in  float b,
    in  float c,
    in  float d,
    out float a,
    out int   one,
    out int[] arr,
)
{
    call RANGE(
        begin = 1,
        end   = 2,
    )

    call SUM(
        x = [
            self.a,
            self.b,
            self.c,
            self.d,
        ],
    )

    return (
        a   = SUM.sum,
        one = 1,
        arr = RANGE.values,
    )
}

pipeline TOP(
    out float sum,
    out int[][] arrs,
)
{
    call RANGE(
        begin = 0,
        end   = 5,
    )

    map call POW as PA(
        x = split RANGE.values,
        y = 1,
    )

    map call POW as PB(
        x = split RANGE.values,
        y = 2,
    )

    map call POW as PC(
        x = split RANGE.values,
        y = 3,
    )

    map call POW as PD(
        x = split RANGE.values,
        y = 4,
    )

    map call CONSTS(
        a = split PA.z,
        b = split PB.z,
        c = split PC.z,
        d = split PD.z,
    )

    call SUM(
        x = CONSTS.one,
    )

    return (
        sum  = SUM.sum,
        arrs = CONSTS.arr,
    )
}

call TOP()
`

// two split arguments written on one source line (the resolver orders splits
// by file and line)
const selfSameLineSrc = `
stage GEN(
    in  int   n,
    out int[] xs,
    out int[] ys,
    src comp  "bin",
)

stage W(
    in  int x,
    in  int y,
    out int o,
    src comp "bin",
)

pipeline P(
    out int[] os,
)
{
    call GEN(
        n = 2,
    )

    call GEN as GEN2(
        n = 2,
    )

    map call W(
        x = split GEN.xs, y = split GEN2.ys,
    )

    return (
        os = W.o,
    )
}

call P()
`

// an invalid program with more than one way to say what is wrong: the map
// sources of one map call have disjoint key sets
const selfKeyMismatchSrc = `
stage W(
    in  int x,
    in  int y,
    out int o,
    src comp "bin",
)

pipeline P(
    out map<int> os,
)
{
    map call W(
        x = split {
            "a": 1,
            "b": 2,
        },
        y = split {
            "c": 3,
            "d": 4,
        },
    )

    return (
        os = W.o,
    )
}

call P()
`

// an invalid program: three calls depending on each other in a cycle (the
// error message lists the cycle)
const selfCycleSrc = `
stage A(
    in  int x,
    out int o,
    src comp "bin",
)

stage B(
    in  int x,
    out int o,
    src comp "bin",
)

stage C(
    in  int x,
    out int o,
    src comp "bin",
)

pipeline P(
    out int o,
)
{
    call A(
        x = C.o,
    )

    call B(
        x = A.o,
    )

    call C(
        x = B.o,
    )

    return (
        o = C.o,
    )
}

call P()
`

// an invalid program with several independent errors of the same kind (two
// calls each binding a parameter that does not exist, two unknown outputs)
const selfTwoErrorsSrc = `
stage A(
    in  int x,
    in  int y,
    out int o,
    out int p,
    src comp "bin",
)

stage B(
    in  int x,
    in  int y,
    out int o,
    src comp "bin",
)

pipeline P(
    out int o,
    out int p,
)
{
    call A(
        x = 1,
        y = 2,
        w = 3,
        v = 4,
    )

    call B(
        x = A.zz,
        y = A.yy,
    )

    return (
        o = B.o,
        p = B.nope,
    )
}

call P()
`


// programs whose compilation walks Go maps with several entries: the retained
// outputs of a sub-pipeline, a comment before map entries written on one line,
// nested map calls under one alias, and several errors of one kind at once
var selfOrderSrcs = []string{
	`
filetype txt;

stage S(
    out txt a,
    out txt b,
    out txt c,
    src comp "s",
)

pipeline INNER(
    out txt a,
    out txt b,
    out txt c,
)
{
    call S()

    return (
        a = S.a,
        b = S.b,
        c = S.c,
    )
}

pipeline P(
    out txt a,
)
{
    call INNER()

    return (
        a = INNER.a,
    )

    retain (
        INNER,
    )
}

call P()
`,
	`
stage S(
    in  map m,
    out int o,
    src comp "s",
)

pipeline P(
    out int o,
)
{
    call S(
        m = {
            # about something
            "b": 1, "a": 2, "c": 3, "d": 4,
        },
    )

    return (
        o = S.o,
    )
}

call P()
`,
	`
stage GEN(
    out int[] xs,
    src comp  "g",
)

stage A(
    in  int x,
    out int y,
    src comp "a",
)

stage C(
    in  int[][] x,
    out int     o,
    src comp    "c",
)

pipeline INNER(
    in  int[] xs,
    out int[] ys,
)
{
    map call A as M(
        x = split self.xs,
    )

    return (
        ys = M.y,
    )
}

pipeline TOP(
    out int o,
)
{
    call GEN()

    map call INNER as M(
        xs = split [
            GEN.xs,
            [
                1,
                2,
            ],
        ],
    )

    call C(
        x = M.ys,
    )

    return (
        o = C.o,
    )
}

call TOP()
`,
	`
stage S(
    in  map<int> m,
    out int      o,
    src comp     "s",
)

pipeline P(
    out int o,
)
{
    call S(
        m = {
            "a": "x",
            "b": "y",
            "c": "z",
        },
    )

    return (
        o = S.o,
    )
}

call P()
`,
	`
struct ST(
    int a,
)

stage S(
    in  ST  s,
    out int o,
    src comp "s",
)

pipeline P(
    out int o,
)
{
    call S(
        s = {
            a: 1,
            q: 2,
            r: 3,
            s: 3,
        },
    )

    return (
        o = S.o,
    )
}

call P()
`,
	`
stage S(
    in  int a,
    in  int b,
    in  int c,
    out int o,
    src comp "s",
) split (
    in  int a,
    in  int b,
    in  int c,
)

pipeline P(
    out int o,
)
{
    call S(
        a = 1,
        b = 2,
        c = 3,
    )

    return (
        o = S.o,
    )
}

call P()
`,
	`
stage S(
    in  map<int> m,
    out int      x,
    src comp     "s",
)

pipeline P(
    out int o,
)
{
    call S(
        m = {
            "a": S.x,
            "b": S.x,
            "c": S.x,
        },
    )

    return (
        o = S.x,
    )
}

call P()
`,
	`
stage F(
    out bool flag,
    src comp "f",
)

stage W(
    in  bool d,
    in  int  x,
    out int  y,
    src comp "w",
)

pipeline INNER(
    in  bool d,
    in  int  x,
    out int  y,
)
{
    call W(
        d = self.d,
        x = self.x,
    ) using (
        disabled = self.d,
    )

    return (
        y = W.y,
    )
}

pipeline P(
    out map<int> ys,
)
{
    call F as F1()
    call F as F2()

    map call INNER(
        d = split {
            "a": 1,
            "b": 2,
        },
        x = 3,
    )

    return (
        ys = INNER.y,
    )
}

call P()
`,
}

// selfCompile compiles one program and renders everything computed.
func selfCompile(src []byte) string {
	var parser Parser
	text, _, ast, err := parser.ParseSourceBytes(src, "/m/self.mro", nil, false)
	if err != nil {
		return "fails with " + selfSum(err.Error())
	}
	sum := "gives " + selfSum(text)
	if ast.Call != nil {
		if _, ok := ast.Callables.Table[ast.Call.DecId].(*Pipeline); ok {
			g, err := ast.MakePipelineCallGraph("ID.self.", ast.Call)
			if err != nil {
				sum += " graph error " + selfSum(err.Error())
			} else {
				sum += " graph " + selfSum(selfDescribe(g))
			}
		}
	}
	return sum
}

// H_SELF_compile: the repository's include-free test programs through the real
// compiler and call-graph resolver, in the engine and natively.
//
// C10: the program is compiled four times inside the engine, with every range
// over a Go map running in insertion order, in reverse insertion order, and in
// ascending and descending key order (string and integer keys); the native
// replay uses Go's randomised order.  All must produce the same
// formatted text and call graph.
func H_SELF_compile(i int) {
	var src []byte
	name := "merge fork node fixture"
	if i < len(selfCompileFiles) {
		src = verifRepoFile(selfCompileFiles[i])
		name = selfCompileFiles[i]
	} else if i == len(selfCompileFiles) {
		src = []byte(selfMergeSrc)
	} else if i == len(selfCompileFiles)+1 {
		src = []byte(selfSameLineSrc)
		name = "same-line splits fixture"
	} else if i == len(selfCompileFiles)+2 {
		src = []byte(selfKeyMismatchSrc)
		name = "key mismatch fixture"
	} else if i == len(selfCompileFiles)+3 {
		src = []byte(selfCycleSrc)
		name = "dependency cycle fixture"
	} else if i == len(selfCompileFiles)+4 {
		src = []byte(selfTwoErrorsSrc)
		name = "two errors fixture"
	} else {
		k := i - len(selfCompileFiles) - 5
		src = []byte(selfOrderSrcs[k])
		name = "map order fixture " + string(rune('0'+k))
		// (the engine does not run the package's test set-up, which raises
		// the level; make both sides report what is reported as an error)
		old := GetEnforcementLevel()
		SetEnforcementLevel(EnforceError)
		defer SetEnforcementLevel(old)
	}
	verifReverseMapOrder(false)
	sum := selfCompile(src)
	verifReverseMapOrder(true)
	sum2 := selfCompile(src)
	verifReverseMapOrder(false)
	// two orders which do not cancel out when one map is filled by ranging
	// over another: ascending and descending by key
	verifKeyMapOrder(1)
	sum3 := selfCompile(src)
	verifKeyMapOrder(-1)
	sum4 := selfCompile(src)
	verifKeyMapOrder(0)
	verifAssert(sum == sum2 && sum == sum3 && sum == sum4, "C10: compiling, formatting and resolving a repository test program gives the same result whatever the map iteration order (ghost)")
	verifCover("self-test compiled")
	verifCover("self-test compile " + name + " " + sum)
}

const selfWildcardSrc = `
stage MAKE(
    in  int    seed,
    out int    id,
    out string name,
    src comp   "make",
)

stage SINK(
    in  int    id,
    in  string name,
    in  int    extra,
    out int    id,
    out string name,
    src comp   "sink",
)

pipeline INNER(
    in  int    seed,
    out int    id,
    out string name,
)
{
    call MAKE(
        * = self,
    )

    call SINK(
        extra = 3,
        *     = MAKE,
    )

    return (
        * = SINK,
    )
}

pipeline TOP(
    in  int    seed,
    out int    id,
    out string name,
)
{
    call INNER(
        * = self,
    )

    return (
        * = INNER,
    )
}

call TOP(
    seed = 4,
)
`

// selfGraph compiles a program and returns the rendering mrp records as
// _mrosource together with the description of its resolved call graph.
func selfGraph(src []byte) (string, string, error) {
	var parser Parser
	text, _, ast, err := parser.ParseSourceBytes(src, "/m/self.mro", nil, false)
	if err != nil {
		return "", "", err
	}
	if ast.Call != nil {
		if _, ok := ast.Callables.Table[ast.Call.DecId].(*Pipeline); ok {
			g, err := ast.MakePipelineCallGraph("ID.self.", ast.Call)
			if err != nil {
				return text, "", err
			}
			return text, selfDescribe(g), nil
		}
	}
	return text, "", nil
}

// H_C09_expandedRecompiles(i): the rendering of a compiled program which mrp
// records as _mrosource (and compiles on its own when it re-attaches to the
// pipestance), for the repository's include-free test programs and a fixture
// with wildcard bindings in calls and returns at two levels.
//
//	C09: the rendering compiles on its own, is a fixed point, and resolves to
//	     the same call graph (every node's kind, inputs, outputs, disabling
//	     conditions and fork roots).
func H_C09_expandedRecompiles(i int) {
	var src []byte
	if i < len(selfCompileFiles) {
		src = verifRepoFile(selfCompileFiles[i])
	} else {
		src = []byte(selfWildcardSrc)
	}
	text, graph, err := selfGraph(src)
	if err != nil {
		verifCover("expanded rendering: fixture does not compile")
		return
	}
	text2, graph2, err := selfGraph([]byte(text))
	verifCover("expanded rendering recompiled")
	verifAssert(err == nil, "C09: the rendering of a compiled program which mrp records compiles on its own")
	if err != nil {
		return
	}
	verifAssert(text2 == text, "C09: the recorded rendering of a compiled program is a fixed point")
	verifAssert(graph2 == graph, "C09: the recorded rendering of a compiled program resolves to the same call graph")
}
