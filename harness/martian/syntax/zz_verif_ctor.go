package syntax

// Constructors for call-graph fixtures used by the /verif harnesses in
// package core.  Injected by overlay only; never part of /repo.

// VerifStageNode builds a stage call-graph node with the given fully
// qualified id.
func VerifStageNode(fqid string, call *CallStm, stage *Stage, parent *CallGraphPipeline) *CallGraphStage {
	return &CallGraphStage{Parent: parent, Fqid: fqid, call: call, stage: stage}
}

// VerifPipelineNode builds a pipeline call-graph node.
func VerifPipelineNode(fqid string, call *CallStm, pipeline *Pipeline, parent *CallGraphPipeline) *CallGraphPipeline {
	return &CallGraphPipeline{
		CallGraphStage: CallGraphStage{Parent: parent, Fqid: fqid, call: call},
		pipeline:       pipeline,
	}
}

// VerifSetSplit sets the split expression of a stage node.
func VerifSetSplit(n *CallGraphStage, s *SplitExp) { n.split = s }

// VerifStageNodeFull builds a stage node whose Callable() is the given stage.
func VerifStageNodeFull(fqid string, call *CallStm, stage *Stage) *CallGraphStage {
	return &CallGraphStage{Fqid: fqid, call: call, stage: stage}
}

// verifUnknownSource is a map-call source whose size is only known at run time.
type verifUnknownSource struct{ mode CallMode }

func (s *verifUnknownSource) CallMode() CallMode   { return s.mode }
func (s *verifUnknownSource) KnownLength() bool    { return false }
func (s *verifUnknownSource) ArrayLength() int     { return -1 }
func (s *verifUnknownSource) Keys() map[string]Exp { return nil }
func (s *verifUnknownSource) GoString() string     { return "unknown" }

// VerifUnknownSource returns such a source.
func VerifUnknownSource(mode CallMode) MapCallSource { return &verifUnknownSource{mode: mode} }
