package syntax

// C07 — accepted programs are type-safe at run time; ill-typed bindings are
// rejected at compile time (partial: one binding between two stages, over a
// family of 13 types).
//
// A producer stage with one output of type SRC feeds a consumer stage with one
// input of type DST (x = PRODUCER.o).  The program text is generated for every
// pair and compiled by the real compiler (parser, type checker, call-graph
// resolution).  The oracle is the assignability relation as the language
// documents it (the property's own list of implicit conversions): identity,
// int -> float, string <-> user file types, equal array depth with assignable
// elements, typed map with assignable values, struct -> struct whose fields
// are all present and assignable, struct / typed map -> untyped map.
//
//	C07: the compiler accepts the program exactly when the binding is
//	     convertible; a rejection names the file and line of the binding; for an
//	     accepted pair every value conforming to SRC (generated as in C17, leaves
//	     arbitrary) is delivered — filtered to DST, which is what the runtime
//	     does at the stage boundary — as a value that validates against DST with
//	     no error.
//
// (Uses the stubs, the reference JSON model and the value generator of
// zz_verif_c17.go — same file-scoped environment is declared here again.)

import (
	"bytes"
	"encoding/json"
	"strings"
)

//verif:stub encoding/json.Unmarshal
func c07Unmarshal(data []byte, v any) error { return c17Unmarshal(data, v) }

//verif:stub encoding/json.Marshal
func c07Marshal(v any) ([]byte, error) { return c17Marshal(v) }

type c07Type struct {
	text string // MRO spelling
	gen  string // generator name in c17Gen.value ("" = no generator)
	base string
	dim  int
	mapT bool // typed map of base
}

var c07Types = []c07Type{
	{"int", "i", "int", 0, false},
	{"float", "f", "float", 0, false},
	{"string", "s", "string", 0, false},
	{"bool", "b", "bool", 0, false},
	{"txt", "t", "txt", 0, false},
	{"int[]", "ia", "int", 1, false},
	{"float[]", "", "float", 1, false},
	{"int[][]", "iaa", "int", 2, false},
	{"map<int>", "mi", "int", 0, true},
	{"map<float>", "", "float", 0, true},
	{"IN", "st", "IN", 0, false},
	{"WIDE", "", "WIDE", 0, false},
	{"IN[]", "sta", "IN", 1, false},
}

// c07BaseOK: can a value of base type src be bound to base type dst?
func c07BaseOK(dst, src string) bool {
	if dst == src {
		return true
	}
	switch {
	case dst == "float" && src == "int":
		return true
	case dst == "string" && src == "txt", dst == "txt" && src == "string":
		return true
	case dst == "IN" && src == "WIDE":
		return true // WIDE has every field of IN
	}
	return false
}

func c07Assignable(dst, src c07Type) bool {
	if dst.dim != src.dim || dst.mapT != src.mapT {
		return false
	}
	return c07BaseOK(dst.base, src.base)
}

const c07Decls = `
filetype txt;

struct IN(
    int    a,
    string s,
)

struct WIDE(
    int    a,
    string s,
    float  extra,
)
`

func c07Program(dst, src c07Type) string {
	return c07Decls + `
stage PRODUCER(
    in  int n,
    out ` + src.text + ` o,
    src comp "bin",
)

stage CONSUMER(
    in  ` + dst.text + ` x,
    out int r,
    src comp "bin",
)

pipeline TOP(
    in  int n,
    out int r,
)
{
    call PRODUCER(
        n = self.n,
    )

    call CONSUMER(
        x = PRODUCER.o,
    )

    return (
        r = CONSUMER.r,
    )
}

call TOP(
    n = 1,
)
`
}

// H_C07_binding(d, s): DST = type d, SRC = type s.
func H_C07_binding(d, s int) {
	dst, src := c07Types[d], c07Types[s]
	text := c07Program(dst, src)
	var parser Parser
	_, _, ast, err := parser.ParseSourceBytes([]byte(text), "/m/t.mro", nil, false)
	want := c07Assignable(dst, src)
	verifCover("binding compiled")
	if !want {
		verifCover("ill-typed binding")
		verifAssert(err != nil, "C07: a binding that cannot be converted to its parameter's type is rejected at compile time")
		if err != nil {
			// the binding x = PRODUCER.o is on the line after "call CONSUMER("
			line := 1
			idx := strings.Index(text, "x = PRODUCER.o")
			for _, c := range text[:idx] {
				if c == '\n' {
					line++
				}
			}
			msg := err.Error()
			verifAssert(strings.Contains(msg, "/m/t.mro:"), "C07: the rejection names the source file")
			lineStr := ""
			for n := line; n > 0; n /= 10 {
				lineStr = string(rune('0'+n%10)) + lineStr
			}
			callLine := ""
			for n := line - 1; n > 0; n /= 10 {
				callLine = string(rune('0'+n%10)) + callLine
			}
			verifAssert(strings.Contains(msg, "/m/t.mro:"+lineStr) || strings.Contains(msg, "/m/t.mro:"+callLine),
				"C07: the rejection locates the offending binding (its line, or the line of its call)")
		}
		return
	}
	verifCover("well-typed binding")
	verifAssert(err == nil, "C07: a convertible binding is accepted")
	if err != nil || src.gen == "" {
		return
	}
	// every conforming producer output is delivered as a valid consumer input
	lookup := &ast.TypeTable
	var srcT, dstT Type
	for _, st := range ast.Stages {
		if st.Id == "PRODUCER" {
			srcT = lookup.Get(st.OutParams.List[0].Tname)
		}
		if st.Id == "CONSUMER" {
			dstT = lookup.Get(st.InParams.List[0].Tname)
		}
	}
	g := &c17Gen{defectAt: -1, extras: true}
	v := json.RawMessage(g.value(src.gen))
	var alarms strings.Builder
	verifAssert(srcT.IsValidJson(v, &alarms, lookup) == nil, "C07: the generated producer output conforms to its declared type")
	delivered := v
	if dstT.CanFilter() {
		f, fatal, ferr := dstT.FilterJson(v, lookup)
		verifAssert(ferr == nil && !fatal, "C07: delivering a conforming output to a convertible parameter raises no type error at run time")
		delivered = f
	}
	verifAssert(dstT.IsValidJson(delivered, &alarms, lookup) == nil, "C07: the value delivered to the stage conforms to the declared type of its parameter")
	verifCover("delivered value validated")
}

// ---- further binding shapes (H_C07_shapes)

// c07T is a type in the TypeId representation: arrDim arrays of (mapDim > 0:
// typed maps of mapDim-1 dimensional arrays of) base.
type c07T struct {
	base   string
	arrDim int
	mapDim int
}

func (t c07T) text() string {
	s := t.base
	if t.mapDim > 0 {
		for i := 1; i < t.mapDim; i++ {
			s += "[]"
		}
		s = "map<" + s + ">"
	}
	for i := 0; i < t.arrDim; i++ {
		s += "[]"
	}
	return s
}

// elem: the type of what a map call iterates over, per the language
// documentation: an array loses its outermost dimension, a typed map yields
// its value type.
func (t c07T) elem() (c07T, bool) {
	if t.arrDim > 0 {
		return c07T{t.base, t.arrDim - 1, t.mapDim}, true
	}
	if t.mapDim > 0 {
		return c07T{t.base, t.mapDim - 1, 0}, true
	}
	return t, false
}

func c07TAssignable(dst, src c07T) bool {
	return dst.arrDim == src.arrDim && dst.mapDim == src.mapDim && c07BaseOK(dst.base, src.base)
}

var c07Collections = []c07T{
	{"int", 1, 0},  // int[]
	{"int", 2, 0},  // int[][]
	{"int", 0, 1},  // map<int>
	{"int", 1, 1},  // map<int>[]
	{"int", 0, 2},  // map<int[]>
	{"IN", 1, 0},   // IN[]
	{"IN", 0, 1},   // map<IN>
	{"WIDE", 1, 0}, // WIDE[]
	{"int", 0, 0},  // int: not a collection
	{"float", 1, 0},
	{"int", 2, 1}, // map<int>[][]
}

var c07Dsts = []c07T{
	{"int", 0, 0},
	{"float", 0, 0},
	{"int", 1, 0},
	{"int", 0, 1},
	{"IN", 0, 0},
	{"float", 1, 0},
	{"string", 0, 0},
	{"int", 1, 1}, // map<int>[]
}

func c07Line(text, needle string) int {
	idx := strings.Index(text, needle)
	if idx < 0 {
		panic("fixture text lacks " + needle)
	}
	line := 1
	for _, c := range text[:idx] {
		if c == '\n' {
			line++
		}
	}
	return line
}

func c07Itoa(n int) string {
	s := ""
	for ; n > 0; n /= 10 {
		s = string(rune('0'+n%10)) + s
	}
	return s
}

// c07Verdict compiles the text and compares with the oracle; needle is the
// text of the offending binding (a rejection must name its line, or the line
// of a call or return statement that contains it: up to `span` lines above).
func c07Verdict(text string, want bool, needle string, span int) *Ast {
	var parser Parser
	_, _, ast, err := parser.ParseSourceBytes([]byte(text), "/m/t.mro", nil, false)
	verifCover("shape compiled")
	if want {
		verifCover("well-typed shape")
		verifAssert(err == nil, "C07: a convertible binding is accepted")
		if err != nil {
			return nil
		}
		return ast
	}
	verifCover("ill-typed shape")
	verifAssert(err != nil, "C07: a binding that cannot be converted to its parameter's type is rejected at compile time")
	if err != nil {
		msg := err.Error()
		line := c07Line(text, needle)
		located := false
		for d := 0; d <= span; d++ {
			if strings.Contains(msg, "/m/t.mro:"+c07Itoa(line-d)) {
				located = true
			}
		}
		verifAssert(located, "C07: the rejection locates the offending binding (its line, or the line of the statement containing it)")
	}
	return nil
}

func c07Stages(srcT, dstT string, extraIn string) string {
	return c07Decls + `
stage PRODUCER(
    in  int n,
    out ` + srcT + ` o,
    src comp "bin",
)

stage CONSUMER(
    in  ` + dstT + ` x,` + extraIn + `
    out int r,
    src comp "bin",
)
`
}

// H_C07_split(c, d): `map call CONSUMER(x = split PRODUCER.o)` with o of
// collection type c and x of type d.
//
//	C07: accepted exactly when the element type of the collection converts to
//	     the parameter's type (an array of typed maps yields typed maps; a
//	     typed map of arrays yields arrays; a scalar is not a collection).
func H_C07_split(c, d int) {
	coll, dst := c07Collections[c], c07Dsts[d]
	text := c07Stages(coll.text(), dst.text(), "") + `
pipeline TOP(
    in  int n,
)
{
    call PRODUCER(
        n = self.n,
    )

    map call CONSUMER(
        x = split PRODUCER.o,
    )

    return ()
}

call TOP(
    n = 1,
)
`
	el, isColl := coll.elem()
	want := isColl && c07TAssignable(dst, el)
	c07Verdict(text, want, "x = split PRODUCER.o", 1)
}

// H_C07_splitPair(c1, c2): two split arguments of one map call.
//
//	C07: collections of different kinds (array versus typed map) are rejected
//	     as inconsistent; two arrays or two typed maps are accepted.
func H_C07_splitPair(c1, c2 int) {
	a, b := c07Collections[c1], c07Collections[c2]
	ea, oka := a.elem()
	eb, okb := b.elem()
	if !oka || !okb {
		return
	}
	text := c07Decls + `
stage PRODUCER(
    in  int n,
    out ` + a.text() + ` o,
    out ` + b.text() + ` p,
    src comp "bin",
)

stage CONSUMER(
    in  ` + ea.text() + ` x,
    in  ` + eb.text() + ` y,
    out int r,
    src comp "bin",
)

pipeline TOP(
    in  int n,
)
{
    call PRODUCER(
        n = self.n,
    )

    map call CONSUMER(
        x = split PRODUCER.o,
        y = split PRODUCER.p,
    )

    return ()
}

call TOP(
    n = 1,
)
`
	sameKind := (a.arrDim > 0) == (b.arrDim > 0)
	c07Verdict(text, sameKind, "y = split PRODUCER.p", 2)
}

var c07Projections = []struct {
	holder c07T   // type of PRODUCER.o
	field  string // projected member
	result c07T   // type of PRODUCER.o.<field>; base "" = no such member
}{
	{c07T{"IN", 0, 0}, "a", c07T{"int", 0, 0}},
	{c07T{"IN", 0, 0}, "s", c07T{"string", 0, 0}},
	{c07T{"IN", 1, 0}, "a", c07T{"int", 1, 0}},
	{c07T{"IN", 0, 1}, "a", c07T{"int", 0, 1}},
	{c07T{"IN", 2, 0}, "a", c07T{"int", 2, 0}},
	{c07T{"IN", 1, 1}, "a", c07T{"int", 1, 1}},
	{c07T{"WIDE", 1, 0}, "extra", c07T{"float", 1, 0}},
	{c07T{"IN", 0, 0}, "extra", c07T{"", 0, 0}},
	{c07T{"IN", 1, 0}, "zz", c07T{"", 0, 0}},
	{c07T{"int", 0, 0}, "a", c07T{"", 0, 0}},
}

// H_C07_projection(p, d): x = PRODUCER.o.<field>, through arrays and typed maps.
func H_C07_projection(p, d int) {
	pr, dst := c07Projections[p], c07Dsts[d]
	text := c07Stages(pr.holder.text(), dst.text(), "") + `
pipeline TOP(
    in  int n,
    out int r,
)
{
    call PRODUCER(
        n = self.n,
    )

    call CONSUMER(
        x = PRODUCER.o.` + pr.field + `,
    )

    return (
        r = CONSUMER.r,
    )
}

call TOP(
    n = 1,
)
`
	want := pr.result.base != "" && c07TAssignable(dst, pr.result)
	c07Verdict(text, want, "x = PRODUCER.o."+pr.field, 1)
}

var c07Literals = []struct {
	text string
	ok   func(dst c07T) bool
}{
	{"1", func(d c07T) bool { return d.arrDim == 0 && d.mapDim == 0 && (d.base == "int" || d.base == "float") }},
	{"1.5", func(d c07T) bool { return d.arrDim == 0 && d.mapDim == 0 && d.base == "float" }},
	{`"s"`, func(d c07T) bool { return d.arrDim == 0 && d.mapDim == 0 && d.base == "string" }},
	{"true", func(d c07T) bool { return false }},
	{"null", func(d c07T) bool { return true }},
	{"[1, 2]", func(d c07T) bool { return d.arrDim == 1 && d.mapDim == 0 && (d.base == "int" || d.base == "float") }},
	{"[1, 2.5]", func(d c07T) bool { return d.arrDim == 1 && d.mapDim == 0 && d.base == "float" }},
	{`[1, "s"]`, func(d c07T) bool { return false }},
	{"[[1], [2, 3]]", func(d c07T) bool { return false }},
	{`{"k": 1}`, func(d c07T) bool { return d.arrDim == 0 && d.mapDim == 1 && d.base == "int" }},
	{`[{"k": 1}]`, func(d c07T) bool { return d.arrDim == 1 && d.mapDim == 1 && d.base == "int" }},
	{`{"k": "s"}`, func(d c07T) bool { return false }},
	{`{a: 1, s: "x"}`, func(d c07T) bool { return d.arrDim == 0 && d.mapDim == 0 && d.base == "IN" }},
	{`{a: 1}`, func(d c07T) bool { return false }},
	{`{a: 1, s: "x", extra: 2}`, func(d c07T) bool { return false }},
	{`{a: "x", s: "x"}`, func(d c07T) bool { return false }},
	// a float literal with an integral value is accepted for an int parameter
	{"2.0", func(d c07T) bool { return d.arrDim == 0 && d.mapDim == 0 && (d.base == "int" || d.base == "float") }},
	{"1234567.0", func(d c07T) bool { return d.arrDim == 0 && d.mapDim == 0 && (d.base == "int" || d.base == "float") }},
	{"[1234567.0, 3]", func(d c07T) bool { return d.arrDim == 1 && d.mapDim == 0 && (d.base == "int" || d.base == "float") }},
	{"2.5e7", func(d c07T) bool { return d.arrDim == 0 && d.mapDim == 0 && (d.base == "int" || d.base == "float") }},
}

// H_C07_literal(l, d): x = <literal>.
func H_C07_literal(l, d int) {
	lit, dst := c07Literals[l], c07Dsts[d]
	text := c07Stages("int", dst.text(), "") + `
pipeline TOP(
    out int r,
)
{
    call CONSUMER(
        x = ` + lit.text + `,
    )

    return (
        r = CONSUMER.r,
    )
}

call TOP()
`
	ast := c07Verdict(text, lit.ok(dst), "x = "+lit.text, 1)
	if ast == nil {
		return
	}
	// what the stage is handed for the literal conforms to the parameter's type
	var pipe *Pipeline
	for _, p := range ast.Pipelines {
		if p.Id == "TOP" {
			pipe = p
		}
	}
	if pipe == nil || len(pipe.Calls) != 1 {
		return
	}
	bind := pipe.Calls[0].Bindings.Table["x"]
	if bind == nil {
		return
	}
	var buf bytes.Buffer
	if err := bind.Exp.EncodeJSON(&buf); err != nil {
		verifAssert(false, "C07: a literal argument encodes")
		return
	}
	var dstT Type
	for _, st := range ast.Stages {
		if st.Id == "CONSUMER" {
			dstT = ast.TypeTable.Get(st.InParams.List[0].Tname)
		}
	}
	var alarms strings.Builder
	verifCover("literal delivered")
	verifAssert(dstT.IsValidJson(json.RawMessage(buf.Bytes()), &alarms, &ast.TypeTable) == nil, "C07: the value delivered for an accepted literal conforms to the declared type of the parameter (no type error at run time)")
}

// H_C07_params(kind): missing and unknown parameters, non-existent outputs,
// and pipeline parameters / return bindings as the two ends of a binding.
func H_C07_params(kind, d, s int) {
	dst, src := c07Types[d], c07Types[s]
	conv := c07Assignable(dst, src)
	var text, needle string
	want := false
	span := 1
	switch kind {
	case 0: // a declared parameter is not bound
		text = c07Stages("int", "int", "\n    in  int y,") + `
pipeline TOP(
    in  int n,
    out int r,
)
{
    call CONSUMER(
        x = self.n,
    )

    return (
        r = CONSUMER.r,
    )
}

call TOP(
    n = 1,
)
`
		needle, span = "x = self.n", 1
	case 1: // a parameter that does not exist is bound
		text = c07Stages("int", "int", "") + `
pipeline TOP(
    in  int n,
    out int r,
)
{
    call CONSUMER(
        x = self.n,
        y = self.n,
    )

    return (
        r = CONSUMER.r,
    )
}

call TOP(
    n = 1,
)
`
		needle, span = "y = self.n", 2
	case 2: // reference to an output that does not exist
		text = c07Stages("int", "int", "") + `
pipeline TOP(
    in  int n,
    out int r,
)
{
    call PRODUCER(
        n = self.n,
    )

    call CONSUMER(
        x = PRODUCER.zz,
    )

    return (
        r = CONSUMER.r,
    )
}

call TOP(
    n = 1,
)
`
		needle = "x = PRODUCER.zz"
	case 3: // a pipeline input of type SRC passed to a stage input of type DST
		text = c07Stages("int", dst.text, "") + `
pipeline TOP(
    in  ` + src.text + ` p,
    out int r,
)
{
    call CONSUMER(
        x = self.p,
    )

    return (
        r = CONSUMER.r,
    )
}

call TOP(
    p = null,
)
`
		needle, want = "x = self.p", conv
	case 4: // a stage output of type SRC returned as a pipeline output of type DST
		text = c07Stages(src.text, "int", "") + `
pipeline TOP(
    in  int n,
    out ` + dst.text + ` r,
)
{
    call PRODUCER(
        n = self.n,
    )

    return (
        r = PRODUCER.o,
    )
}

call TOP(
    n = 1,
)
`
		needle, want = "r = PRODUCER.o", conv
	case 5: // the output of a sub-pipeline (declared SRC) bound to DST one level up
		text = c07Stages(src.text, dst.text, "") + `
pipeline INNER(
    in  int n,
    out ` + src.text + ` o,
)
{
    call PRODUCER(
        n = self.n,
    )

    return (
        o = PRODUCER.o,
    )
}

pipeline TOP(
    in  int n,
    out int r,
)
{
    call INNER(
        n = self.n,
    )

    call CONSUMER(
        x = INNER.o,
    )

    return (
        r = CONSUMER.r,
    )
}

call TOP(
    n = 1,
)
`
		needle, want = "x = INNER.o", conv
	}
	c07Verdict(text, want, needle, span)
}

// ---- C07: the order in which calls are written ----

var c07OrderCalls = [3]string{
	`    call MAKE_VALUES()
`,
	`    map call SQUARE(
        x = split MAKE_VALUES.values,
    )
`,
	`    call REPORT(
        square = SQUARE.square,
    )
`,
}

var c07Perms = [6][3]int{{0, 1, 2}, {0, 2, 1}, {1, 0, 2}, {1, 2, 0}, {2, 0, 1}, {2, 1, 0}}

// H_C07_callOrder(perm, kind): a producer of an array, a call mapped over it
// and a consumer of the mapped call's output, written in each of the six
// possible orders (MRO does not require calls to be written in dependency
// order).  The consumer's parameter is int[] (kind 0: the depth a mapped call
// adds), int (kind 1) or int[][] (kind 2).
//
//	C07: the binding is accepted exactly for int[] - the verdict does not
//	     depend on the order in which the calls are written.
func H_C07_callOrder(perm, kind int) {
	dst := []string{"int[]", "int", "int[][]"}[kind]
	text := `
stage MAKE_VALUES(
    out int[] values,
    src comp  "m",
)

stage SQUARE(
    in  int x,
    out int square,
    src comp "s",
)

stage REPORT(
    in  ` + dst + ` square,
    out int r,
    src comp "r",
)

pipeline P(
    out int r,
)
{
`
	for i, c := range c07Perms[perm] {
		if i > 0 {
			text += "\n"
		}
		text += c07OrderCalls[c]
	}
	text += `
    return (
        r = REPORT.r,
    )
}

call P()
`
	var parser Parser
	_, _, _, err := parser.ParseSourceBytes([]byte(text), "/m/t.mro", nil, false)
	verifCover("calls compiled in a given written order")
	if kind == 0 {
		verifAssert(err == nil, "C07: the output of a mapped call bound to an array parameter is accepted in whatever order the calls are written")
	} else {
		verifAssert(err != nil, "C07: the output of a mapped call bound at the wrong array depth is rejected in whatever order the calls are written")
	}
}
