package syntax

// C07 — accepted programs are type-safe at run time; ill-typed bindings are
// rejected at compile time (partial: one binding between two stages, over a
// family of 13 types).
//
// A producer stage with one output of type SRC feeds a consumer stage with one
// input of type DST (x = PRODUCER.o).  The program text is generated for every
// pair and compiled by the real compiler (parser, type checker, call-graph
// resolution).  The oracle is the assignability relation as the language
// documents it (the property's own list of implicit conversions): identity,
// int -> float, string <-> user file types, equal array depth with assignable
// elements, typed map with assignable values, struct -> struct whose fields
// are all present and assignable, struct / typed map -> untyped map.
//
//	C07: the compiler accepts the program exactly when the binding is
//	     convertible; a rejection names the file and line of the binding; for an
//	     accepted pair every value conforming to SRC (generated as in C17, leaves
//	     arbitrary) is delivered — filtered to DST, which is what the runtime
//	     does at the stage boundary — as a value that validates against DST with
//	     no error.
//
// (Uses the stubs, the reference JSON model and the value generator of
// zz_verif_c17.go — same file-scoped environment is declared here again.)

import (
	"encoding/json"
	"strings"
)

//verif:stub encoding/json.Unmarshal
func c07Unmarshal(data []byte, v any) error { return c17Unmarshal(data, v) }

//verif:stub encoding/json.Marshal
func c07Marshal(v any) ([]byte, error) { return c17Marshal(v) }

type c07Type struct {
	text string // MRO spelling
	gen  string // generator name in c17Gen.value ("" = no generator)
	base string
	dim  int
	mapT bool // typed map of base
}

var c07Types = []c07Type{
	{"int", "i", "int", 0, false},
	{"float", "f", "float", 0, false},
	{"string", "s", "string", 0, false},
	{"bool", "b", "bool", 0, false},
	{"txt", "t", "txt", 0, false},
	{"int[]", "ia", "int", 1, false},
	{"float[]", "", "float", 1, false},
	{"int[][]", "iaa", "int", 2, false},
	{"map<int>", "mi", "int", 0, true},
	{"map<float>", "", "float", 0, true},
	{"IN", "st", "IN", 0, false},
	{"WIDE", "", "WIDE", 0, false},
	{"IN[]", "sta", "IN", 1, false},
}

// c07BaseOK: can a value of base type src be bound to base type dst?
func c07BaseOK(dst, src string) bool {
	if dst == src {
		return true
	}
	switch {
	case dst == "float" && src == "int":
		return true
	case dst == "string" && src == "txt", dst == "txt" && src == "string":
		return true
	case dst == "IN" && src == "WIDE":
		return true // WIDE has every field of IN
	}
	return false
}

func c07Assignable(dst, src c07Type) bool {
	if dst.dim != src.dim || dst.mapT != src.mapT {
		return false
	}
	return c07BaseOK(dst.base, src.base)
}

const c07Decls = `
filetype txt;

struct IN(
    int    a,
    string s,
)

struct WIDE(
    int    a,
    string s,
    float  extra,
)
`

func c07Program(dst, src c07Type) string {
	return c07Decls + `
stage PRODUCER(
    in  int n,
    out ` + src.text + ` o,
    src comp "bin",
)

stage CONSUMER(
    in  ` + dst.text + ` x,
    out int r,
    src comp "bin",
)

pipeline TOP(
    in  int n,
    out int r,
)
{
    call PRODUCER(
        n = self.n,
    )

    call CONSUMER(
        x = PRODUCER.o,
    )

    return (
        r = CONSUMER.r,
    )
}

call TOP(
    n = 1,
)
`
}

// H_C07_binding(d, s): DST = type d, SRC = type s.
func H_C07_binding(d, s int) {
	dst, src := c07Types[d], c07Types[s]
	text := c07Program(dst, src)
	var parser Parser
	_, _, ast, err := parser.ParseSourceBytes([]byte(text), "/m/t.mro", nil, false)
	want := c07Assignable(dst, src)
	verifCover("binding compiled")
	if !want {
		verifCover("ill-typed binding")
		verifAssert(err != nil, "C07: a binding that cannot be converted to its parameter's type is rejected at compile time")
		if err != nil {
			// the binding x = PRODUCER.o is on the line after "call CONSUMER("
			line := 1
			idx := strings.Index(text, "x = PRODUCER.o")
			for _, c := range text[:idx] {
				if c == '\n' {
					line++
				}
			}
			msg := err.Error()
			verifAssert(strings.Contains(msg, "/m/t.mro:"), "C07: the rejection names the source file")
			lineStr := ""
			for n := line; n > 0; n /= 10 {
				lineStr = string(rune('0'+n%10)) + lineStr
			}
			callLine := ""
			for n := line - 1; n > 0; n /= 10 {
				callLine = string(rune('0'+n%10)) + callLine
			}
			verifAssert(strings.Contains(msg, "/m/t.mro:"+lineStr) || strings.Contains(msg, "/m/t.mro:"+callLine),
				"C07: the rejection locates the offending binding (its line, or the line of its call)")
		}
		return
	}
	verifCover("well-typed binding")
	verifAssert(err == nil, "C07: a convertible binding is accepted")
	if err != nil || src.gen == "" {
		return
	}
	// every conforming producer output is delivered as a valid consumer input
	lookup := &ast.TypeTable
	var srcT, dstT Type
	for _, st := range ast.Stages {
		if st.Id == "PRODUCER" {
			srcT = lookup.Get(st.OutParams.List[0].Tname)
		}
		if st.Id == "CONSUMER" {
			dstT = lookup.Get(st.InParams.List[0].Tname)
		}
	}
	g := &c17Gen{defectAt: -1, extras: true}
	v := json.RawMessage(g.value(src.gen))
	var alarms strings.Builder
	verifAssert(srcT.IsValidJson(v, &alarms, lookup) == nil, "C07: the generated producer output conforms to its declared type")
	delivered := v
	if dstT.CanFilter() {
		f, fatal, ferr := dstT.FilterJson(v, lookup)
		verifAssert(ferr == nil && !fatal, "C07: delivering a conforming output to a convertible parameter raises no type error at run time")
		delivered = f
	}
	verifAssert(dstT.IsValidJson(delivered, &alarms, lookup) == nil, "C07: the value delivered to the stage conforms to the declared type of its parameter")
	verifCover("delivered value validated")
}
